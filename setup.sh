#!/bin/sh
# Build /verif/.venv offline: python3.12 venv with z3-solver, cvc5, deal, icontract, crosshair-tool
# from the local wheelhouse, plus a .pth making /venv's site-packages (numpy, scipy, dask, polars, acryo deps) importable.
set -e
cd "$(dirname "$0")"
if [ -x .venv/bin/python ] && .venv/bin/python -c "import z3, numpy, scipy" 2>/dev/null; then
  echo "setup: .venv already usable"; exit 0
fi
rm -rf .venv
/venv/bin/python -m venv .venv --without-pip
PIP_NO_INDEX=1 /venv/bin/python -m pip --python .venv/bin/python install -q --no-index \
  --find-links /opt/veriftools/wheels z3-solver cvc5 deal icontract crosshair-tool jsonschema
echo "import site; site.addsitedir('/venv/lib/python3.12/site-packages')" \
  > .venv/lib/python3.12/site-packages/_repo.pth
.venv/bin/python -c "import z3, numpy, scipy, dask, polars; print('setup ok: z3', z3.get_version_string())"
