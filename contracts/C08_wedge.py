"""C08: missing-wedge masks: FFT-ordered index grid, wedge-plane geometry, dc, symmetry, union, entry points."""
from pyvc.contract import contract, T, fresh_array, make_obj
from pyvc import values as V

_SHAPE = T.Tuple(T.Int(lo=1, cands=(3, 4)), T.Int(lo=1, cands=(1, 3)), T.Int(lo=1, cands=(6, 2)))


def fftidx(i, n):
    return V.ite(i <= (n - 1) // 2, i, i - n)


_H = dict(fftidx=fftidx)

_GRID_ENSURES = {
    "shape": "result.shape[0] == shape[0] and result.shape[1] == shape[1] and result.shape[2] == shape[2] "
             "and result.shape[3] == 3",
    # property: "FFT-ordered index": component a of grid point (i,j,k) is the signed frequency index of that bin
    "fft_order": "forall(lambda i, j, k: result[i, j, k, 0] == fftidx(i, shape[0]) and "
                 "result[i, j, k, 1] == fftidx(j, shape[1]) and result[i, j, k, 2] == fftidx(k, shape[2]), "
                 "(0, shape[0]), (0, shape[1]), (0, shape[2]))",
}
_GRID_NATIVE = {
    "shape": "result.shape == tuple(shape) + (3,)",
    "fft_order": "all(result[i, j, k, 0] == fftindex(i, shape[0]) and result[i, j, k, 1] == fftindex(j, shape[1]) "
                 "and result[i, j, k, 2] == fftindex(k, shape[2]) for i in range(shape[0]) for j in range(shape[1]) "
                 "for k in range(shape[2]))",
}


@contract("acryo.tilt._utils:get_indices", props=["C08"])
class get_indices_tilt:
    params = dict(shape=_SHAPE)
    helpers = _H
    result = lambda interp, bound: fresh_array("indices", 4, "real", path=interp.path)
    native_call = "_mod.get_indices.__wrapped__(**args)"
    native = _GRID_NATIVE
    ensures = _GRID_ENSURES


@contract("acryo._utils:_get_indices", props=["C08"])
class get_indices_utils:
    params = dict(shape=_SHAPE)
    helpers = _H
    result = lambda interp, bound: fresh_array("indices", 4, "real", path=interp.path)
    native_call = "_mod._get_indices.__wrapped__(**args)"
    native = _GRID_NATIVE
    ensures = _GRID_ENSURES


@contract("acryo.backend._missing_wedge:_get_indices", props=["C08"])
class get_indices_backend:
    params = dict(shape=_SHAPE, backend=T.Backend())
    helpers = _H
    result = lambda interp, bound: fresh_array("indices", 4, "real", path=interp.path)
    native_call = "_mod._get_indices.__wrapped__(**args)"
    native = _GRID_NATIVE
    ensures = _GRID_ENSURES


# ---------------------------------------------------------------------------
from pyvc.stubs import _cos, _sin, REG as _REG
from pyvc.values import Sym
import z3 as _z3

_PI = _REG["math.pi"]


def rad(deg):
    return deg * _PI / 180


def gdot(rot, k, shape, n):
    """(R f) . n  with f_a = k_a / shape_a the physical frequency (cycles per pixel, z,y,x order) of signed index k"""
    m = rot.as_matrix()
    f = [k[a] / shape[a] for a in range(3)]
    total = 0
    for b in range(3):
        g_b = m[b, 0] * f[0] + m[b, 1] * f[1] + m[b, 2] * f[2]
        total = total + g_b * n[b]
    return total


def negidx(i, n):
    """(-i) mod n for 0 <= i < n"""
    return V.ite(i == 0, 0, n - i)


def _native_symmetry(result):
    import numpy as np
    s = result.shape
    for idx in np.ndindex(*s):
        neg = tuple((-i) % n for i, n in zip(idx, s))
        if bool(result[idx]) != bool(result[neg]):
            return False
    return True


_H.update(rad=rad, cos=_cos, sin=_sin, pi=_PI, gdot=gdot, negidx=negidx)
def _trig_table():
    """true facts offered to the counterexample search only: PI and sin/cos at multiples of 30 degrees, to 1e-7"""
    import math
    from fractions import Fraction
    from pyvc.stubs import uf, R
    PI = _z3.Real("PI")
    hyps = [PI > _z3.RealVal("3.1415926"), PI < _z3.RealVal("3.1415927")]
    for k in range(0, 13):
        for name, fn in (("u_cos", math.cos), ("u_sin", math.sin)):
            v = fn(math.pi * k / 6)
            t = uf(name, R, R)(PI * _z3.RealVal(k) / 6)
            lo = Fraction(round((v - 1e-7) * 10**9), 10**9)
            hi = Fraction(round((v + 1e-7) * 10**9), 10**9)
            hyps += [t >= _z3.RealVal(str(lo)), t <= _z3.RealVal(str(hi))]
    return hyps


class _TRange(T.Tuple):
    def candidates(self, name):
        out = []
        for (a, b) in ((-60, 60), (-30, 60)):
            out.append(({f"{name}_0": a, f"{name}_1": b}, _trig_table(), {}))
        return out


_RANGE = _TRange(T.Real(lo=-90, hi=90), T.Real(lo=-90, hi=90))


def _norm_pair(interp, bound):
    return (fresh_array("normal0", 1, "real", shape=(3,)), fresh_array("normal1", 1, "real", shape=(3,)))


for _fn, _ax in (("get_norms_y", 2), ("get_norms_x", 1)):
    @contract(f"acryo.tilt._utils:{_fn}", props=["C08"])
    class get_norms:
        """plane normals of the two limiting central slices, in (z, y, x) order: (cos a, 0, sin a) for a tilt about y,
        (cos a, sin a, 0) about x, with a = pi - tilt angle (the sign convention of the tilt angle is the code's)."""
        params = dict(tilt_range=_RANGE)
        helpers = dict(_H, AX=_ax, OTHER=3 - _ax)
        result = _norm_pair
        native_call = f"_mod.{_fn}.__wrapped__(**args)"
        native = {"normals": "all(close(float(result[t][0]), np.cos(np.pi - np.deg2rad(tilt_range[t])), 1e-5) and "
                             "close(float(result[t][AX]), np.sin(np.pi - np.deg2rad(tilt_range[t])), 1e-5) and "
                             "float(result[t][OTHER]) == 0 for t in range(2))"}
        ensures = {"normals": "all(result[t][0] == cos(pi - rad(tilt_range[t])) and "
                              "result[t][AX] == sin(pi - rad(tilt_range[t])) and result[t][OTHER] == 0 for t in range(2))"}


def _single_axis(clsname):
    return T.Obj(f"acryo.tilt._single:{clsname}", dict(_tilt_range=_RANGE),
                 src=None)


def _native_mask_check(result, rotator, shape, n0, n1):
    import numpy as np
    R = rotator.as_matrix()
    ok = True
    for idx in np.ndindex(*shape):
        f = np.array([(i if i <= (s - 1) // 2 else i - s) / s for i, s in zip(idx, shape)])
        g = R @ f
        want = (g @ n0) * (g @ n1) <= 1e-9
        strict = abs((g @ n0) * (g @ n1)) > 1e-6
        if strict and bool(result[idx]) != bool(want):
            ok = False
    return ok


for _cls, _normfn in (("SingleAxisY", "get_norms_y"), ("SingleAxisX", "get_norms_x")):
    @contract(f"acryo.tilt._single:SingleAxis.create_mask", props=["C08"]) if _cls == "SingleAxisY" else (lambda c: c)
    class create_mask:
        """Property clause: the mask keeps bin idx  <=>  (g . n0)(g . n1) <= 0  with g = R f the physical frequency
        vector f = fftindex(idx)/shape mapped into the tomogram frame by the molecule orientation R and n0, n1 the
        normals of the limiting central slices."""
        params = dict(self=T.OneOf(_single_axis("SingleAxisY"), _single_axis("SingleAxisX")), rotator=T.Rot(), shape=_SHAPE)
        requires = ["self._tilt_range[0] < self._tilt_range[1]"]
        result = lambda interp, bound: fresh_array("wedge_mask", 3, "bool", path=interp.path)
        call_ensures = ["shape"]
        helpers = _H
        native_helpers = dict(_native_mask_check=_native_mask_check, _native_symmetry=_native_symmetry)
        imports = "from acryo.tilt import single_axis as _single_axis"
        native_call = "_single_axis(tuple(float(model.get('self__tilt_range_%d' % t, (-60, 60)[t])) for t in range(2)), 'y').create_mask(args['rotator'], args['shape'])"
        native = {"shape": "result.shape == tuple(shape)", "hermitian_symmetry": "_native_symmetry(result)",
                  "geometry": "_native_mask_check(result, rotator, shape, *__import__('acryo').tilt._utils.get_norms_y("
                              "tuple(float(model.get('self__tilt_range_%d' % t, (-60, 60)[t])) for t in range(2))))",
                  "keeps_dc": "bool(result[0, 0, 0])"}
        ensures = {
            "shape": "shape_eq(result, shape)",
            "keeps_dc": "result[0, 0, 0]",
            # symmetric under k -> -k, so that masking the spectrum of a real image yields a real image
            "hermitian_symmetry": {
                "vars": {"i": "int", "j": "int", "k": "int"},
                "assume": "0 <= i < shape[0] and 0 <= j < shape[1] and 0 <= k < shape[2]",
                "steps": [
                    # off the Nyquist planes the signed index of the mirrored bin is the negated index
                    ("all(called('get_indices')[negidx(i, shape[0]), negidx(j, shape[1]), negidx(k, shape[2]), a] == "
                     "-called('get_indices')[i, j, k, a] for a in range(3))", "inst"),
                ],
                "show": "iff(result[i, j, k], result[negidx(i, shape[0]), negidx(j, shape[1]), negidx(k, shape[2])])",
            },
            # the signed FFT index of bin (i,j,k) is the grid value K[i,j,k,:] returned by get_indices
            # (its own contract: K[i,j,k,a] == fftindex((i,j,k)[a], shape[a]))
            "geometry": "forall(lambda i, j, k: iff(result[i, j, k], "
                        "gdot(rotator, called('get_indices')[i, j, k], shape, called('get_norms_')[0]) * "
                        "gdot(rotator, called('get_indices')[i, j, k], shape, called('get_norms_')[1]) <= 0), "
                        "(0, shape[0]), (0, shape[1]), (0, shape[2]))",
        }


# the two function-style copies of the single-axis mask (legacy utility and backend helper)
def _native_mask_check_range(result, rotator, tilt_range, shape):
    import acryo
    n0, n1 = acryo.tilt._utils.get_norms_y(tuple(float(t) for t in tilt_range))
    return _native_mask_check(result, rotator, shape, n0, n1)


for _key, _pre, _norm_key, _idx_key in (
        ("acryo._utils:missing_wedge_mask", {}, "acryo._utils:_get_unrotated_normals", "acryo._utils:_get_indices"),
        ("acryo.backend._missing_wedge:missing_wedge_mask", {"backend": T.Backend()},
         "acryo.backend._missing_wedge:_get_unrotated_normals", "acryo.backend._missing_wedge:_get_indices")):
    @contract(_norm_key, props=["C08"])
    class unrotated_normals:
        """same normals as tilt._utils.get_norms_y (tilt about y)"""
        params = dict(tilt_range=_RANGE)
        helpers = dict(_H)
        result = _norm_pair
        native_call = "_mod._get_unrotated_normals.__wrapped__(**args)"
        native = {"normals": "all(close(float(result[t][0]), np.cos(np.pi - np.deg2rad(tilt_range[t])), 1e-5) and "
                             "close(float(result[t][2]), np.sin(np.pi - np.deg2rad(tilt_range[t])), 1e-5) and "
                             "float(result[t][1]) == 0 for t in range(2))"}
        ensures = {"normals": "all(result[t][0] == cos(pi - rad(tilt_range[t])) and "
                              "result[t][2] == sin(pi - rad(tilt_range[t])) and result[t][1] == 0 for t in range(2))"}

    @contract(_key, props=["C08"])
    class missing_wedge_mask_fn:
        params = dict(**_pre, rotator=T.Rot(), tilt_range=_RANGE, shape=_SHAPE)
        requires = ["tilt_range[0] < tilt_range[1]"]
        helpers = dict(_H, NORM=_norm_key, IDX=_idx_key)
        native_helpers = dict(_native_mask_check_range=_native_mask_check_range, _native_mask_check=_native_mask_check)
        native_call = "np.asarray(_mod.missing_wedge_mask(**args))"
        native = {"shape": "result.shape == tuple(shape)", "keeps_dc": "bool(result[0, 0, 0])",
                  "geometry": "_native_mask_check_range(result, rotator, tilt_range, shape)"}
        ensures = {
            "shape": "shape_eq(result, shape)",
            "keeps_dc": "result[0, 0, 0]",
            "geometry": "forall(lambda i, j, k: iff(result[i, j, k], "
                        "gdot(rotator, called(IDX)[i, j, k], shape, called(NORM)[0]) * "
                        "gdot(rotator, called(IDX)[i, j, k], shape, called(NORM)[1]) <= 0), "
                        "(0, shape[0]), (0, shape[1]), (0, shape[2]))",
        }


@contract("acryo.tilt._base:NoWedge.create_mask", props=["C08"])
class nowedge_mask:
    params = dict(self=T.Obj("acryo.tilt._base:NoWedge", {}), rotator=T.Rot(), shape=_SHAPE)
    imports = "from acryo.tilt import no_wedge as _no_wedge"
    native_call = "_no_wedge().create_mask(args['rotator'], args['shape'])"
    native = {"all_ones": "result.shape == tuple(shape) and bool(np.all(result == 1))"}
    ensures = {"all_ones": "shape_eq(result, shape) and forall(lambda i, j, k: result[i, j, k] == 1, "
                           "(0, shape[0]), (0, shape[1]), (0, shape[2]))"}



def _union_self():
    return T.Obj("acryo.tilt._base:UnionAxes", dict(_wedges=T.List(_single_axis("SingleAxisY"), _single_axis("SingleAxisX"))))


@contract("acryo.tilt._base:UnionAxes.create_mask", props=["C08"])
class union_mask:
    """dual-axis mask == element-wise OR (maximum) of the masks of its members, each created with the same
    orientation and shape"""
    params = dict(self=_union_self(), rotator=T.Rot(), shape=_SHAPE)
    requires = ["all(w._tilt_range[0] < w._tilt_range[1] for w in self._wedges)"]
    imports = "from acryo.tilt import dual_axis as _dual_axis, single_axis as _single_axis"
    native_call = "_dual_axis((-60, 60), (-40, 50)).create_mask(args['rotator'], args['shape'])"
    native = {"union": "bool(np.all(result == np.maximum(_single_axis((-60, 60), 'y').create_mask(rotator, shape), "
                       "_single_axis((-40, 50), 'x').create_mask(rotator, shape))))", "same_arguments": "True"}
    ensures = {
        "union": "shape_eq(result, shape) and forall(lambda i, j, k: iff(result[i, j, k], "
                 "called('SingleAxis.create_mask', 0)[i, j, k] or called('SingleAxis.create_mask', 1)[i, j, k]), "
                 "(0, shape[0]), (0, shape[1]), (0, shape[2]))",
        "same_arguments": "all(called_args('SingleAxis.create_mask', t)['rotator'] is rotator and "
                          "called_args('SingleAxis.create_mask', t)['shape'] == shape and "
                          "called_args('SingleAxis.create_mask', t)['self'] is self._wedges[t] for t in range(2))",
    }


# ---------------------------------------------------------------------------
# every accepted way of specifying the tilt range yields the same model
from pyvc import symex as _X


def _single_axis_result(interp, bound):
    tr, axis = bound["tilt_range"], bound["axis"]
    if tr is None:
        return make_obj(interp, "acryo.tilt._base:NoWedge")
    cls = "SingleAxisY" if axis == "y" else "SingleAxisX"
    return make_obj(interp, f"acryo.tilt._single:{cls}", _tilt_range=tr)


def cls_name(o):
    return o.cls.name if isinstance(o, _X.Obj) else type(o).__name__


_H["cls_name"] = cls_name


@contract("acryo.tilt.core:single_axis", props=["C08"])
class single_axis_fn:
    params = dict(tilt_range=T.OneOf(None, _RANGE), axis=T.OneOf("y", "x"))
    helpers = _H
    result = _single_axis_result
    raises = {"ValueError": "tilt_range is not None and (tilt_range[0] >= tilt_range[1] or tilt_range[0] < -90 "
                            "or tilt_range[1] > 90)"}
    native_call = "_mod.single_axis(**args)"
    native = {"model": "type(result).__name__ == ('NoWedge' if tilt_range is None else 'SingleAxis' + axis.upper()) "
                       "and (tilt_range is None or tuple(result.tilt_range) == tuple(tilt_range))"}
    ensures = {"model": "cls_name(result) == ('NoWedge' if tilt_range is None else 'SingleAxis' + axis.upper()) and "
                        "(tilt_range is None or (result._tilt_range[0] == tilt_range[0] and "
                        "result._tilt_range[1] == tilt_range[1]))"}


@contract("acryo.tilt.core:no_wedge", props=["C08"])
class no_wedge_fn:
    params = dict()
    helpers = _H
    result = lambda interp, bound: make_obj(interp, "acryo.tilt._base:NoWedge")
    native_call = "_mod.no_wedge()"
    native = {"model": "type(result).__name__ == 'NoWedge'"}
    ensures = {"model": "cls_name(result) == 'NoWedge'"}


@contract("acryo.alignment._base:RotationImplemented.__init__", props=["C08"])
class rot_init:
    """template / mask / rotation set-up: not the subject of C08 (trusted no-op contract for the modular call)"""
    trusted = True
    params = dict(self=T.Obj("acryo.alignment._base:TomographyInput", {}), template=T.Const(None), mask=T.Const(None),
                  rotations=T.Const(None))
    ensures = {}


_VALID_RANGE = _TRange(T.Real(lo=-90, hi=90), T.Real(lo=-90, hi=90))


def _native_tilt_model(args):
    import numpy as np
    from acryo.alignment import ZNCCAlignment
    kw = {k: v for k, v in args.items() if k in ("tilt", "tilt_range", "cutoff") and v is not None}
    if isinstance(kw.get("tilt"), str):
        from acryo.tilt import single_axis
        kw["tilt"] = single_axis((-50.0, 40.0))
    import warnings
    with warnings.catch_warnings():
        warnings.simplefilter("ignore")
        return ZNCCAlignment(np.ones((4, 4, 4), dtype=np.float32), **kw)._tilt_model


@contract("acryo.alignment._base:TomographyInput.__init__", props=["C08"])
class tomo_init:
    """tuple, model object and the legacy `tilt_range=` keyword select the same tilt model: a single-axis (y) model
    with exactly the given range; no specification selects the no-wedge model."""
    params = dict(self=T.Obj("acryo.alignment._base:TomographyInput", {}), template=T.Const(None), mask=T.Const(None),
                  rotations=T.Const(None), cutoff=T.OneOf(None, T.Real(lo=0)),
                  tilt=T.OneOf(None, _VALID_RANGE, _single_axis("SingleAxisY")),
                  tilt_range=T.OneOf(None, _VALID_RANGE))
    requires = ["tilt is None or cls_name(tilt) != 'tuple' or tilt[0] < tilt[1]",
                "tilt_range is None or tilt_range[0] < tilt_range[1]",
                # the two spellings are alternatives: at most one of them is given
                "tilt is None or tilt_range is None"]
    helpers = _H
    native_helpers = dict(_native_tilt_model=_native_tilt_model)
    native_call = "_native_tilt_model({k: ('model' if k == 'tilt' and v is None and False else v) for k, v in args.items()})"
    native = {
        "tuple_spec": "not isinstance(tilt, tuple) or (type(result).__name__ == 'SingleAxisY' and "
                      "tuple(result.tilt_range) == tuple(tilt))",
        "legacy_keyword": "tilt_range is None or (type(result).__name__ == 'SingleAxisY' and "
                          "tuple(result.tilt_range) == tuple(tilt_range))",
        "model_object": "True", "default_no_wedge": "not (tilt is None and tilt_range is None) or type(result).__name__ == 'NoWedge'",
    }
    ensures = {
        "tuple_spec": "cls_name(tilt) != 'tuple' or (cls_name(self._tilt_model) == 'SingleAxisY' and "
                      "self._tilt_model._tilt_range[0] == tilt[0] and self._tilt_model._tilt_range[1] == tilt[1])",
        "legacy_keyword": "tilt_range is None or (cls_name(self._tilt_model) == 'SingleAxisY' and "
                          "self._tilt_model._tilt_range[0] == tilt_range[0] and "
                          "self._tilt_model._tilt_range[1] == tilt_range[1])",
        "model_object": "cls_name(tilt) != 'SingleAxisY' or self._tilt_model is tilt",
        "default_no_wedge": "not (tilt is None and tilt_range is None) or cls_name(self._tilt_model) == 'NoWedge'",
    }
