"""C16: Butterworth low-pass: weights on the FFT grid, output shape, identity branches, both implementations."""
from pyvc.contract import contract, T, fresh_array
from pyvc import values as V

_SHAPE = T.Tuple(T.Int(lo=1), T.Int(lo=1), T.Int(lo=1))


def fftidx(i, n):
    return V.ite(i <= (n - 1) // 2, i, i - n)


def q2_spec(idx, shape, cutoff):
    """sum over axes of (f_a / cutoff)^2 with f_a = fftindex(idx_a, shape_a) / shape_a  (cycles per pixel)"""
    r = 0
    for i, n in zip(idx, shape):
        f = fftidx(i, n) / (n * cutoff)
        r = r + f * f
    return r


def pw(x, n):
    r = 1
    for _ in range(n):
        r = r * x
    return r


_H = dict(q2_spec=q2_spec, fftidx=fftidx, pw=pw)


for _key, _extra in (("acryo._utils:nd_butterworth_weight", {}),
                     ("acryo.backend._bandpass:nd_butterworth_weight", {"backend": T.Backend()})):
    @contract(_key, props=["C16"])
    class nd_butterworth_weight:
        """weight[idx] == 1 / (1 + (|f| / cutoff)^(2*order)) with |f|^2 = sum_a (fftindex(idx_a, d_a) / d_a)^2, on the
        full grid (real=False) or on rfftn's half grid (real=True: last axis d//2 + 1)."""
        params = dict(shape=_SHAPE, cutoff=T.Real(), order=T.OneOf(1, 2, 3), real=T.OneOf(False, True), **_extra)
        requires = ["cutoff > 0"]
        helpers = _H
        result = lambda interp, bound: fresh_array("weight", 3, "real", path=interp.path)
        ensures = {
            "shape_full_axes": "result.shape[0] == shape[0] and result.shape[1] == shape[1]",
            "shape_last_axis": "result.shape[2] == (shape[2] // 2 + 1 if real else shape[2])",
            "weight": {
                "vars": {"i": "int", "j": "int", "k": "int"},
                "assume": "0 <= i < result.shape[0] and 0 <= j < result.shape[1] and 0 <= k < result.shape[2]",
                "steps": [
                    # the integer frequency index the code builds on each axis (arange from -(d-1)//2, then ifftshift)
                    # is the signed FFT index
                    ("all(-(d - 1) // 2 + (x + d // 2) % d == fftidx(x, d) for x, d in zip((i, j, k), shape))", "hint:all"),
                ],
                "show": "result[i, j, k] == 1 / (1 + pw(q2_spec((i, j, k), shape, cutoff), order))",
            },
            "dc_gain_one": "result[0, 0, 0] == 1",
        }
