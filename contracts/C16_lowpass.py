"""C16: Butterworth low-pass: weights on the FFT grid, output shape, identity branches, both implementations."""
from pyvc.contract import contract, T, fresh_array
from pyvc import values as V

_SHAPE = T.Tuple(T.Int(lo=1), T.Int(lo=1), T.Int(lo=1))


def fftidx(i, n):
    return V.ite(i <= (n - 1) // 2, i, i - n)


def q2_spec(idx, shape, cutoff):
    """sum over axes of (f_a / cutoff)^2 with f_a = fftindex(idx_a, shape_a) / shape_a  (cycles per pixel)"""
    r = 0
    for i, n in zip(idx, shape):
        f = fftidx(i, n) / (n * cutoff)
        r = r + f * f
    return r


def pw(x, n):
    r = 1
    for _ in range(n):
        r = r * x
    return r


_H = dict(q2_spec=q2_spec, fftidx=fftidx, pw=pw)


for _key, _extra in (("acryo._utils:nd_butterworth_weight", {}),
                     ("acryo.backend._bandpass:nd_butterworth_weight", {"backend": T.Backend()})):
    # (the backend variant is what the alignment models' pre_transform uses: C07's "low-pass-filtered" depends on it)
    @contract(_key, props=["C16", "C07"] if _key.startswith("acryo.backend") else ["C16"])
    class nd_butterworth_weight:
        """weight[idx] == 1 / (1 + (|f| / cutoff)^(2*order)) with |f|^2 = sum_a (fftindex(idx_a, d_a) / d_a)^2, on the
        full grid (real=False) or on rfftn's half grid (real=True: last axis d//2 + 1)."""
        params = dict(shape=_SHAPE, cutoff=T.Real(), order=T.OneOf(1, 2, 3), real=T.OneOf(False, True), **_extra)
        requires = ["cutoff > 0"]
        helpers = _H
        result = lambda interp, bound: fresh_array("weight", 3, "real", path=interp.path)
        ensures = {
            "shape_full_axes": "result.shape[0] == shape[0] and result.shape[1] == shape[1]",
            "shape_last_axis": "result.shape[2] == (shape[2] // 2 + 1 if real else shape[2])",
            "weight": {
                "vars": {"i": "int", "j": "int", "k": "int"},
                "assume": "0 <= i < result.shape[0] and 0 <= j < result.shape[1] and 0 <= k < result.shape[2]",
                "steps": [
                    # the integer frequency index the code builds on each axis (arange from -(d-1)//2, then ifftshift)
                    # is the signed FFT index
                    ("all(-(d - 1) // 2 + (x + d // 2) % d == fftidx(x, d) for x, d in zip((i, j, k), shape))", "hint:all"),
                ],
                "show": "result[i, j, k] == 1 / (1 + pw(q2_spec((i, j, k), shape, cutoff), order))",
            },
            "dc_gain_one": "result[0, 0, 0] == 1",
        }


# ---------------------------------------------------------------------------
def wspec(idx, shape, cutoff, order):
    return 1 / (1 + pw(q2_spec(idx, shape, cutoff), order))


_H["wspec"] = wspec
from pyvc.stubs import _sqrt
_H["sqrt"] = _sqrt
_IMG = T.Arr(3, "real")
_NATIVE_REAL = ("shape_eq(result, img) and np.allclose(result, np.fft.irfftn(_native_weight(img.shape, cutoff, order, True) "
                "* np.fft.rfftn(img), s=img.shape), atol=1e-3)")
_NATIVE_FT = ("shape_eq(result, img) and np.allclose(result, _native_weight(img.shape, cutoff, order, False) "
              "* np.fft.fftn(img), atol=1e-2)")


def _native_weight(shape, cutoff, order, real):
    import numpy as np
    grids = np.meshgrid(*[np.fft.fftfreq(n) for n in shape], indexing="ij")
    q2 = sum((g / cutoff) ** 2 for g in grids)
    w = 1 / (1 + q2 ** order)
    if real:
        w = w[..., : shape[-1] // 2 + 1]
    return w


_NH = dict(_native_weight=_native_weight)

for _key, _pre in (("acryo._utils:lowpass_filter", {}),
                   ("acryo.backend._bandpass:lowpass_filter", {"backend": T.Backend()})):
    @contract(_key, props=["C16"])
    class lowpass_filter:
        """Real-space variant.  Filtering branch: the result is the inverse half-spectrum transform, *with the input's
        shape*, of (Butterworth weight x half-spectrum of the input).  Identity branch: the input itself."""
        params = dict(**_pre, img=_IMG, cutoff=T.Real(), order=T.OneOf(1, 2, 3))
        helpers = _H
        native_helpers = dict(_NH)
        native_call = "np.asarray(_mod.lowpass_filter(**args))"
        result = lambda interp, bound: fresh_array("lowpassed", 3, "real", path=interp.path)
        call_ensures = ["same_shape"]      # the value clauses mention result identity / ghosts: not exported to callers
        native = {"same_shape": "shape_eq(result, img)", "filtered": _NATIVE_REAL,
                  "identity": "implies(cutoff <= 0 or cutoff >= 0.5 * sqrt(3), np.allclose(result, img))"}
        ensures = {
            "same_shape": "shape_eq(result, img)",
            "identity": "implies(cutoff <= 0 or cutoff >= 0.5 * sqrt(3), result is img)",
            "filtered": "implies(not (cutoff <= 0 or cutoff >= 0.5 * sqrt(3)), made_by(result, 'irfftn') and "
                        "forall(lambda i, j, k: fft_arg(result)[i, j, k] == wspec((i, j, k), img.shape, cutoff, order) * "
                        "fft_of(img, 'rfftn')[i, j, k], (0, img.shape[0]), (0, img.shape[1]), (0, img.shape[2] // 2 + 1)))",
        }

for _key, _pre in (("acryo._utils:lowpass_filter_ft", {}),
                   ("acryo.backend._bandpass:lowpass_filter_ft", {"backend": T.Backend()})):
    @contract(_key, props=["C16", "C07"] if _key.startswith("acryo.backend") else ["C16"])
    class lowpass_filter_ft:
        """Fourier-space variant: full spectrum of the input times the full-grid Butterworth weight (identity branch:
        the plain spectrum).  With the trusted lemma fftn(irfftn(w_half * rfftn x, s)) = w_full * fftn x for real x
        this is the transform of the real-space variant."""
        params = dict(**_pre, img=_IMG, cutoff=T.Real(), order=T.OneOf(1, 2, 3))
        helpers = _H
        native_helpers = dict(_NH)
        native_call = "np.asarray(_mod.lowpass_filter_ft(**args))"
        result = lambda interp, bound: fresh_array("lowpassed_ft", 3, "real", path=interp.path)
        call_ensures = ["same_shape"]
        native = {"same_shape": "shape_eq(result, img)", "weighted": _NATIVE_FT,
                  "identity": "implies(cutoff <= 0 or cutoff >= 0.5 * sqrt(3), np.allclose(result, np.fft.fftn(img), atol=1e-2))"}
        ensures = {
            "same_shape": "shape_eq(result, img)",
            "identity": "implies(cutoff <= 0 or cutoff >= 0.5 * sqrt(3), result is fft_of(img, 'fftn'))",
            "weighted": "implies(not (cutoff <= 0 or cutoff >= 0.5 * sqrt(3)), "
                        "forall(lambda i, j, k: result[i, j, k] == wspec((i, j, k), img.shape, cutoff, order) * "
                        "fft_of(img, 'fftn')[i, j, k], (0, img.shape[0]), (0, img.shape[1]), (0, img.shape[2])))",
        }


# ---------------------------------------------------------------------------
# entry points that must reach the verified implementations with unchanged arguments
_BK = "acryo.backend._bandpass:"


@contract("acryo.backend._api:Backend.lowpass_filter_ft", props=["C16"])
class backend_lowpass_ft:
    inline = True       # thin delegation: callers see through it to the contract of the implementation
    params = dict(self=T.Backend(), img=_IMG, cutoff=T.Real(), order=T.OneOf(1, 2, 3))
    native_call = "np.asarray(args['self'].lowpass_filter_ft(args['img'], args['cutoff'], args['order']))"
    native = {"delegates": "np.allclose(result, _mod._bandpass.lowpass_filter_ft(self, img, cutoff, order), atol=1e-3)"}
    ensures = {"delegates": f"result is called('{_BK}lowpass_filter_ft') and "
                            f"called_args('{_BK}lowpass_filter_ft')['img'] is img and "
                            f"called_args('{_BK}lowpass_filter_ft')['cutoff'] == cutoff and "
                            f"called_args('{_BK}lowpass_filter_ft')['order'] == order"}


@contract("acryo.backend._api:Backend.lowpass_filter", props=["C16"])
class backend_lowpass:
    inline = True
    params = dict(self=T.Backend(), img=_IMG, cutoff=T.Real(), order=T.OneOf(1, 2, 3))
    native_call = "np.asarray(args['self'].lowpass_filter(args['img'], args['cutoff'], args['order']))"
    native = {"delegates": "np.allclose(result, _mod._bandpass.lowpass_filter(self, img, cutoff, order), atol=1e-3)"}
    ensures = {"delegates": f"result is called('{_BK}lowpass_filter') and "
                            f"called_args('{_BK}lowpass_filter')['img'] is img and "
                            f"called_args('{_BK}lowpass_filter')['cutoff'] == cutoff and "
                            f"called_args('{_BK}lowpass_filter')['order'] == order"}


@contract("acryo.pipe._transform:lowpass_filter", props=["C16"])
class pipe_lowpass:
    """the pipeline converter (undecorated body; the currying decorator is C19's subject)"""
    params = dict(img=_IMG, scale=T.Real(lo=0), cutoff=T.Real(), order=T.OneOf(1, 2, 3))
    native_call = "np.asarray(_mod.lowpass_filter(args['cutoff'], args['order'])(args['img'], args['scale']))"
    native = {"delegates": "np.allclose(result, __import__('acryo')._utils.lowpass_filter(img, cutoff, order), atol=1e-3)"}
    ensures = {"delegates": "result is called('acryo._utils:lowpass_filter') and "
                            "called_args('acryo._utils:lowpass_filter')['img'] is img and "
                            "called_args('acryo._utils:lowpass_filter')['cutoff'] == cutoff and "
                            "called_args('acryo._utils:lowpass_filter')['order'] == order"}
