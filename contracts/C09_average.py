"""C09: averages are plain arithmetic means; split averaging uses two disjoint, jointly exhaustive halves."""
from pyvc.contract import contract, T, fresh_array, TSpec
from pyvc import values as V
from pyvc.stubs import RngV


class TRng(TSpec):
    def fresh(self, name, path):
        import z3
        return RngV(V.Sym(z3.Int(name + "_seed")))

    def src(self, name, model):
        return f"np.random.default_rng({int(model.get(name + '_seed', 0))})"


@contract("acryo.loader._misc:random_splitter", props=["C09", "C17"])
class random_splitter:
    """two boolean index arrays of length n: the second is the complement of the first (disjoint and jointly
    exhaustive), the first is non-empty for n >= 2 (it contains the first draw), both are functions of the generator
    state only (same seed, same split).  That the second half is non-empty (fewer than n draws cannot cover n
    indices: pigeonhole) is a counting argument outside the solver and is checked by the bounded run."""
    params = dict(rng=TRng(), nmole=T.Int(lo=0, cands=(3, 5)))
    native_call = "_mod.random_splitter(**args)"
    native = {"lengths": "len(result[0]) == nmole and len(result[1]) == nmole",
              "complement": "bool(np.all(result[1] == ~result[0]))",
              "first_half_non_empty": "nmole < 2 or bool(result[0].any())",
              "second_half_non_empty": "nmole < 2 or bool(result[1].any())"}
    ensures = {
        "lengths": "result[0].shape[0] == nmole and result[1].shape[0] == nmole",
        "complement": "forall(lambda i: iff(result[1][i], not result[0][i]), (0, nmole))",
        "first_half_non_empty": "implies(nmole >= 2, exists(lambda i: result[0][i], (0, nmole)))",
    }
    helpers = dict(called_first_draw=lambda rng, n: rng_first(rng, n))


def rng_first(rng, n):
    import z3
    f = z3.Function("rng_choice_1", z3.IntSort(), z3.IntSort(), z3.IntSort(), z3.IntSort())
    return V.Sym(f(V.lift(rng.seed), V.lift(n), z3.IntVal(0)))


# ---------------------------------------------------------------------------
from contracts.common import TLoader, TMolecules, NATIVE_IMPORTS
from pyvc import symex as _X
from pyvc import contract as _C
import z3 as _z3

_CLT = "acryo.loader._loader:SubtomogramLoader.construct_loading_tasks"


def _tasks_result(interp, bound):
    """modular result of construct_loading_tasks: a DaskArrayList of N lazily loaded sub-tomograms of the requested shape
    (N = number of molecules); element i is an uninterpreted array Sub(i)"""
    from pyvc.loops import SList
    from pyvc.arrays import SArr
    me = bound["self"]
    n = me.attrs["_molecules"].attrs["_pos"].shape[0]
    shape = tuple(bound["output_shape"])
    f = _z3.Function(V.fresh_name("subtomogram"), *([_z3.IntSort()] * 4), _z3.RealSort())
    cls = interp.resolve("acryo._dask:DaskArrayList")
    arrays = SList(n, lambda i: SArr(shape, (lambda i: lambda idx: V.Sym(f(V.lift(i), *[V.lift(k) for k in idx])))(i), "real"))
    return _X.Obj(cls, {"_arrays": arrays})


_C.REGISTRY[_CLT].result = _tasks_result
_C.REGISTRY[_CLT].call_ensures = []
_SHAPE = T.Tuple(T.Int(lo=1), T.Int(lo=1), T.Int(lo=1))


def mean_of(res):
    from pyvc import stubs as _S
    for (r, a, axis, s, n) in _S.GHOST.get("mean", []):
        if r is res:
            return (a, axis, n)
    return (fresh_array("no_such_mean", 4, "real"), None, 1)


_REPLAY_AVG = '''
import numpy as np, dask
from acryo import SubtomogramLoader, Molecules
rng = np.random.default_rng(0)
tomo = rng.normal(size=(40, 40, 40)).astype(np.float32)
ok = True
for n in (1, 2, 7):
    pos = rng.uniform(12, 28, size=(n, 3))
    ld = SubtomogramLoader(tomo, Molecules(pos), order=1, scale=1.0, output_shape=(6, 6, 6))
    ref = np.mean(ld.asnumpy().astype(np.float64), axis=0)
    # the stack is re-chunked with dask's "auto" rule, which depends on the stack size relative to dask's configured
    # chunk size: both the default and a small chunk size (the situation of a stack larger than one chunk) are run
    for cs in (None, "3KiB"):
        with dask.config.set({} if cs is None else {"array.chunk-size": cs}):
            avg = ld.average()
        err = float(np.abs(avg - ref).max())
        print("N =", n, "| dask chunk size", cs or "default", ": max |average - arithmetic mean| =", round(err, 6))
        ok = ok and avg.shape == (6, 6, 6) and err < 1e-4
print("clause holds natively (the average is the arithmetic mean of all sub-tomograms):", ok)
print("CONFIRMED" if not ok else "NOT-CONFIRMED"); sys.exit(1 if not ok else 0)
'''


@contract("acryo.loader._base:LoaderBase.average", props=["C09"])
class average:
    """the average is the arithmetic mean over axis 0 (all N sub-tomograms, each exactly once, divided by N) of the
    stack whose i-th entry is the i-th loading task of this loader"""
    params = dict(self=TLoader(TMolecules(features=["f0"], min_n=1)), output_shape=_SHAPE, backend=T.Const(None))
    helpers = dict(mean_of=mean_of)
    imports = NATIVE_IMPORTS
    native_call = "args['self'].average(args['output_shape'])"
    replay = staticmethod(lambda ob, meta, model: _REPLAY_AVG)
    may_raise = {"SubvolumeOutOfBoundError": "True"}   # a molecule whose window misses the tomogram (C02's clause)
    native = {"mean_over_molecules": "np.allclose(result, np.mean(self.replace(output_shape=output_shape).asnumpy(), axis=0), atol=1e-4)",
              "stack_is_task_list": "True", "shape": "result.shape == tuple(output_shape)"}
    ensures = {
        "shape": "shape_eq(result, output_shape)",
        "mean_over_molecules": "mean_of(result)[1] == 0 and mean_of(result)[2] == self._molecules._pos.shape[0] and "
                               "mean_of(result)[0].shape[0] == self._molecules._pos.shape[0]",
        "stack_is_task_list": "forall(lambda i, z, y, x: mean_of(result)[0][i, z, y, x] == "
                              "called('construct_loading_tasks')._arrays[i][z, y, x], "
                              "(0, self._molecules._pos.shape[0]), (0, output_shape[0]), (0, output_shape[1]), (0, output_shape[2]))",
    }


def masked_means():
    from pyvc import stubs as _S
    return list(_S.GHOST.get("masked_mean", []))


_C.REGISTRY["acryo.loader._misc:random_splitter"].result = \
    lambda interp, bound: (fresh_array("half0", 1, "bool", shape=(bound["nmole"],)),
                           fresh_array("half1", 1, "bool", shape=(bound["nmole"],)))
_C.REGISTRY["acryo.loader._misc:random_splitter"].call_ensures = ["complement"]


def _native_halves_ok(result, loader, n_set, seed, output_shape):
    """each half-map is the plain mean of the sub-tomograms its index array selects (index arrays re-drawn with the
    real random_splitter from the same seed), over the loader's own stack"""
    import numpy as np
    from acryo.loader._misc import random_splitter
    stack = np.asarray(loader.construct_dask(output_shape=tuple(output_shape)).compute(), dtype=np.float64)
    rng = np.random.default_rng(seed=seed)
    ok = True
    for t in range(n_set):
        ind0, ind1 = random_splitter(rng, stack.shape[0])
        ok = ok and np.allclose(result[t, 0], stack[ind0].mean(axis=0), atol=1e-4)
        ok = ok and np.allclose(result[t, 1], stack[ind1].mean(axis=0), atol=1e-4)
    return bool(ok)


@contract("acryo.loader._base:LoaderBase.average_split", props=["C09", "C17"])
class average_split:
    """for every set t: half-map (t, 0) is the mean of the sub-tomograms selected by the first index array of the t-th
    random split, half-map (t, 1) the mean of those selected by its complement, both over this loader's own task
    stack; the generator is seeded with `seed` (reproducible)."""
    params = dict(self=TLoader(TMolecules(features=["f0"], min_n=2)), n_set=T.OneOf(1, 2), seed=T.Int(),
                  squeeze=T.Const(False), output_shape=_SHAPE)
    helpers = dict(masked_means=masked_means)
    native_helpers = dict(_native_halves_ok=_native_halves_ok)
    imports = NATIVE_IMPORTS
    native_call = "args['self'].average_split(args['n_set'], args['seed'], False, args['output_shape'])"
    native = {"shape": "result.shape == (n_set, 2) + tuple(output_shape)",
              "halves_from_one_split": "_native_halves_ok(result, self, n_set, seed, output_shape)",
              "assembled_in_order": "_native_halves_ok(result, self, n_set, seed, output_shape)", "seeded": "True"}
    ensures = {
        "shape": "result.shape[0] == n_set and result.shape[1] == 2 and shape_eq(result.shape[2:], output_shape)",
        "halves_from_one_split":
            "len(masked_means()) == 2 * n_set and all(masked_means()[2 * t][2] is called('random_splitter', t)[0] and "
            "masked_means()[2 * t + 1][2] is called('random_splitter', t)[1] and "
            "masked_means()[2 * t][1] is masked_means()[0][1] and masked_means()[2 * t + 1][1] is masked_means()[0][1] "
            "for t in range(n_set))",
        "stack_is_task_list": "forall(lambda i, z, y, x: masked_means()[0][1][i, z, y, x] == "
                              "called('construct_loading_tasks')._arrays[i][z, y, x], "
                              "(0, self._molecules._pos.shape[0]), (0, output_shape[0]), (0, output_shape[1]), (0, output_shape[2]))",
        "assembled_in_order": "forall(lambda z, y, x: all(result[t, k, z, y, x] == masked_means()[2 * t + k][0][z, y, x] "
                              "for t in range(n_set) for k in range(2)), (0, output_shape[0]), (0, output_shape[1]), (0, output_shape[2]))",
        "seeded": "called_args('random_splitter', 0)['rng'].seed is seed and "
                  "called_args('random_splitter', 0)['nmole'] == self._molecules._pos.shape[0]",
    }
