"""Shared type specs: Molecules and loader objects with symbolic molecule count."""
import z3
from pyvc.contract import TSpec, T, _mget, _num_src
from pyvc import values as V
from pyvc.values import Sym
from pyvc import symex as X
from pyvc.arrays import SArr
from pyvc.rotation import RotV
from pyvc.frames import FrameV


class TMolecules(TSpec):
    """acryo.molecules.core.Molecules with N >= 0 rows: _pos (N,3) uninterpreted reals, _rotator a symbolic batch of N
    SO(3) matrices, _features None or a frame with N rows and the given columns (class invariant: lengths agree)."""

    def __init__(self, features=None, min_n=0):
        self.features, self.min_n = features, min_n

    def fresh(self, name, path):
        interp = path.interp
        cls = interp.resolve("acryo.molecules.core:Molecules")
        n = Sym(z3.Int(f"{name}_N"))
        path.assume(n >= self.min_n)
        f = z3.Function(f"{name}_pos", z3.IntSort(), z3.IntSort(), z3.RealSort())
        pos = SArr((n, 3), lambda idx: Sym(f(V.lift(idx[0]), V.lift(idx[1]))), "real")
        rot = RotV.symbolic(f"{name}_rot", path, n=n)
        feat = None
        if self.features is not None:
            feat = FrameV.symbolic(f"{name}_feat", n, self.features)
        return X.Obj(cls, {"_pos": pos, "_rotator": rot, "_features": feat})

    def src(self, name, model):
        n = int(_mget(model, f"{name}_N", max(self.min_n, 3)))
        n = max(n, self.min_n)
        cols = ""
        if self.features:
            cols = ", features={" + ", ".join(f"{c!r}: ((np.arange({n}) * 3 + 2) % 5) * {i + 2}.5 + 0.1" for i, c in enumerate(self.features)) + "}"
        rot = f"_Rotation.random({n}, random_state=7)"
        if model.get(f"{name}_rotations") == "identity":
            rot = f"_Rotation.identity({n})"
        if model.get(f"{name}_rotations") == "quarter_turn_x":
            rot = f"_Rotation.from_matrix(np.array([[[1., 0, 0], [0, 0, -1], [0, 1, 0]]] * {n}))"
        return f"_Molecules(_generic_array(({n}, 3), 'real') * 3.1 + 4.0, {rot}{cols})"

    def cases(self):
        return [self]

    def candidates(self, name):
        """counterexample search: all rotations of the batch are the identity / a quarter turn about the first axis
        (rational entries keep the query linear; the second one does not commute with a quarter turn about the third)"""
        i = z3.Int("cand_i")
        out = []
        for label, mat in (("identity", ((1, 0, 0), (0, 1, 0), (0, 0, 1))),
                           ("quarter_turn_x", ((1, 0, 0), (0, 0, -1), (0, 1, 0)))):
            extra = []
            for a in range(3):
                for b in range(3):
                    f = z3.Function(f"{name}_rot_m{a}{b}", z3.IntSort(), z3.RealSort())
                    extra.append(z3.ForAll([i], f(i) == mat[a][b]))
            out.append((extra, {f"{name}_rotations": label}))
        return out


class TLoader(TSpec):
    """SubtomogramLoader over a symbolic image / molecules"""

    def __init__(self, molecules=None, order=None, corner_safe=None):
        self.molecules = molecules or TMolecules()
        self.order, self.corner_safe = order, corner_safe

    def fresh(self, name, path):
        interp = path.interp
        cls = interp.resolve("acryo.loader._loader:SubtomogramLoader")
        unset = interp.instantiate(interp.resolve("acryo.loader._base:Unset"), [], {})
        img = T.Arr(3, "real").fresh(f"{name}_image", path)
        scale = Sym(z3.Real(f"{name}_scale"))
        path.assume(scale > 0)
        order = self.order if self.order is not None else 3
        return X.Obj(cls, {"_image": img, "_molecules": self.molecules.fresh(f"{name}_mole", path),
                           "_order": order, "_scale": scale, "_output_shape": unset,
                           "_corner_safe": bool(self.corner_safe)})

    def src(self, name, model):
        shape = tuple(int(_mget(model, f"{name}_image_shape_{i}", 9)) for i in range(3))
        sc = _mget(model, f"{name}_scale", 1)
        from fractions import Fraction
        return (f"_SubtomogramLoader(_generic_array({shape!r}, 'real'), {self.molecules.src(name + '_mole', model)}, "
                f"order={self.order if self.order is not None else 3}, scale={_num_src(Fraction(sc))}, "
                f"corner_safe={bool(self.corner_safe)})")


NATIVE_IMPORTS = """
from acryo import Molecules as _Molecules, SubtomogramLoader as _SubtomogramLoader
from scipy.spatial.transform import Rotation as _Rotation
"""


class TBatchLoader(TSpec):
    """BatchLoader holding `n_images` tomograms with image ids 0..n_images-1 (one verification case per count) and a
    molecule table with an image-id feature column"""

    def __init__(self, n_images=(1, 2), dask_images=True):
        self.n_images = n_images if isinstance(n_images, (tuple, list)) else (n_images,)

    def cases(self):
        return [_TBatchLoaderCase(k) for k in self.n_images]


class _TBatchLoaderCase(TSpec):
    def __init__(self, k):
        self.k = k
        self.value = f"{k} image(s)"

    def fresh(self, name, path):
        interp = path.interp
        cls = interp.resolve("acryo.loader._batch:BatchLoader")
        unset = interp.instantiate(interp.resolve("acryo.loader._base:Unset"), [], {})
        scale = Sym(z3.Real(f"{name}_scale"))
        path.assume(scale > 0)
        images = {i: T.Arr(3, "real").fresh(f"{name}_image{i}", path) for i in range(self.k)}
        mole = TMolecules(features=["image-id"]).fresh(f"{name}_mole", path)
        return X.Obj(cls, {"_images": images, "_molecules": mole, "_order": 3, "_scale": scale,
                           "_output_shape": unset, "_corner_safe": False})

    def src(self, name, model):
        from fractions import Fraction
        sc = _mget(model, f"{name}_scale", 1)
        lines = [f"_make_batch({self.k}, {_num_src(Fraction(sc))}, ["]
        for i in range(self.k):
            shape = tuple(int(_mget(model, f"{name}_image{i}_shape_{a}", 8)) for a in range(3))
            lines.append(f"  {shape!r},")
        lines.append("])")
        return "".join(lines)


NATIVE_IMPORTS += """
def _make_batch(k, scale, shapes, dask=True):
    from acryo import BatchLoader
    from dask import array as da
    b = BatchLoader(order=3, scale=scale)
    for i, shp in enumerate(shapes):
        img = _generic_array(shp, 'real')
        if dask:
            img = da.from_array(img, chunks=tuple(max(1, (s + 1) // 2) for s in shp))
        b.add_tomogram(img, _Molecules(_generic_array((2, 3), 'real') + 2.0), image_id=i)
    return b
"""


class TSeqOfArrays(TSpec):
    """a sequence of N same-shaped arrays (e.g. a 4-d template stack iterated over its first axis), N symbolic:
    modelled as an array with a symbolic leading axis"""

    def __init__(self, ndim=3, count_name=None, min_n=1):
        self.ndim, self.count_name, self.min_n = ndim, count_name, min_n

    def fresh(self, name, path):
        n = Sym(z3.Int(self.count_name or f"{name}_N"))
        path.assume(n >= self.min_n)
        shape = (n,) + tuple(Sym(z3.Int(f"{name}_shape_{i}")) for i in range(self.ndim))
        for s_ in shape[1:]:
            path.assume(s_ >= 1)
        f = z3.Function(f"{name}_elem", *([z3.IntSort()] * (self.ndim + 1)), z3.RealSort())
        return SArr(shape, lambda idx: Sym(f(*[V.lift(i) for i in idx])), "real")

    def src(self, name, model):
        n = max(int(_mget(model, self.count_name or f"{name}_N", 2)), self.min_n)
        shape = tuple(int(_mget(model, f"{name}_shape_{i}", 5)) for i in range(self.ndim))
        return f"_generic_array({(n,) + shape!r}, 'real')"


class TRotBatch(TSpec):
    """a batch of rotations whose length is the symbolic count named `count_name` (e.g. 'self_N')"""

    def __init__(self, count_name, so3=True):
        self.count_name, self.so3 = count_name, so3

    def fresh(self, name, path):
        n = Sym(z3.Int(self.count_name))
        return RotV.symbolic(f"{name}_rot", path, so3=self.so3, n=n)

    def candidates(self, name):
        """counterexample search: every rotation of the batch is the same quarter turn (rational entries)"""
        i = z3.Int("cand_i")
        quarter = ((0, -1, 0), (1, 0, 0), (0, 0, 1))
        extra = []
        for a in range(3):
            for b in range(3):
                f = z3.Function(f"{name}_rot_m{a}{b}", z3.IntSort(), z3.RealSort())
                extra.append(z3.ForAll([i], f(i) == quarter[a][b]))
        return [(extra, {f"{name}_rotations": "quarter_turn"})]

    def src(self, name, model):
        n = max(int(_mget(model, self.count_name, 3)), 0)
        if model.get(f"{name}_rotations") == "quarter_turn":
            return f"_Rotation.from_matrix(np.array([[[0., -1, 0], [1, 0, 0], [0, 0, 1]]] * {n}).reshape(-1, 3, 3))"
        return f"_Rotation.random({n}, random_state=11)"


class TArrN(TSpec):
    """(N, k) real array with N the symbolic count named `count_name`"""

    def __init__(self, count_name, k=3):
        self.count_name, self.k = count_name, k

    def fresh(self, name, path):
        n = Sym(z3.Int(self.count_name))
        f = z3.Function(f"{name}_elem", z3.IntSort(), z3.IntSort(), z3.RealSort())
        return SArr((n, self.k), lambda idx: Sym(f(V.lift(idx[0]), V.lift(idx[1]))), "real")

    def src(self, name, model):
        n = max(int(_mget(model, self.count_name, 3)), 0)
        return f"(_generic_array(({n}, {self.k}), 'real') * 0.37 - 1.0)"


class TAlignResults(TSpec):
    """list of N AlignmentResult records (N = the symbolic count `count_name`): label, shift(3), quat(4, unit), score
    are uninterpreted functions of the row"""

    def __init__(self, count_name):
        self.count_name = count_name

    def fresh(self, name, path):
        from pyvc.loops import SList
        interp = path.interp
        cls = interp.resolve("acryo.alignment._base:AlignmentResult")
        n = Sym(z3.Int(self.count_name))
        lab = z3.Function(f"{name}_label", z3.IntSort(), z3.IntSort())
        sh = z3.Function(f"{name}_shift", z3.IntSort(), z3.IntSort(), z3.RealSort())
        qt = z3.Function(f"{name}_quat", z3.IntSort(), z3.IntSort(), z3.RealSort())
        sc = z3.Function(f"{name}_score", z3.IntSort(), z3.RealSort())
        qi = z3.Int(f"{name}_row")
        # type invariant: the quaternions are unit quaternions
        path.conds.append(z3.ForAll([qi], sum(qt(qi, c) * qt(qi, c) for c in range(4)) == 1))

        def elem(i):
            it = V.lift(i)
            o = X.Obj(cls, {"label": Sym(lab(it)),
                            "shift": SArr((3,), lambda idx, it=it: Sym(sh(it, V.lift(idx[0]))), "real"),
                            "quat": SArr((4,), lambda idx, it=it: Sym(qt(it, V.lift(idx[0]))), "real"),
                            "score": Sym(sc(it))})
            o.attrs["_fields"] = ("label", "shift", "quat", "score")
            return o
        return SList(n, elem)

    def src(self, name, model):
        n = max(int(_mget(model, self.count_name, 3)), 0)
        return (f"[_AlignmentResult(i % 3, np.array([0.3 * i - 0.5, 0.2, -0.1 * i], dtype=np.float32), "
                f"_Rotation.from_rotvec([0.1 * i, -0.2, 0.05 * i]).as_quat().astype(np.float32), 0.5 + 0.01 * i) "
                f"for i in range({n})]")


NATIVE_IMPORTS += """
from acryo.alignment._base import AlignmentResult as _AlignmentResult
"""
