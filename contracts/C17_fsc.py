"""C17: Fourier shell correlation is the normalised cross-spectrum per frequency shell."""
from pyvc.contract import contract, T, fresh_array
from pyvc import values as V
from pyvc.stubs import _sqrt
from pyvc.values import trunc
from fractions import Fraction


def shell_sums():
    from pyvc import stubs as _S
    return list(_S.GHOST.get("sum_labels", []))


def radius2(idx, shape):
    """|f|^2 of the centred (fftshift-ed) bin idx: f_a = (idx_a - shape_a // 2) / shape_a cycles per pixel"""
    total = 0
    for i, n in zip(idx, shape):
        f = (i - n // 2) / n
        total = total + f * f
    return total


def unshift(i, n):
    """source index of centred bin i under fftshift: (i - n // 2) mod n for 0 <= i < n (without a symbolic modulus)"""
    h = n // 2
    return V.ite(i < h, i - h + n, i - h)


_H = dict(shell_sums=shell_sums, radius2=radius2, sqrt=_sqrt, trunc=trunc, unshift=unshift)


def _native_fsc(img0, img1, dfreq):
    import numpy as np
    shape = img0.shape
    F0, F1 = np.fft.fftshift(np.fft.fftn(img0)), np.fft.fftshift(np.fft.fftn(img1))
    grids = np.meshgrid(*[(np.arange(n) - n // 2) / n for n in shape], indexing="ij")
    r = np.sqrt(sum(g ** 2 for g in grids))
    lab = (r / dfreq).astype(int)
    n = lab.max()
    out = []
    for l in range(n):
        m = lab == l
        num = np.real(np.sum(F0[m] * np.conj(F1[m])))
        den = np.sqrt(np.sum(np.abs(F0[m]) ** 2) * np.sum(np.abs(F1[m]) ** 2))
        out.append(num / den if den > 0 else np.nan)
    return np.array(out)


@contract("acryo._utils:fourier_shell_correlation", props=["C17"])
class fourier_shell_correlation:
    """FSC[l] = Re sum_l(F0 conj F1) / sqrt(sum_l |F0|^2  sum_l |F1|^2), the sums over the shell of bins whose centred
    frequency radius |f| satisfies trunc(|f| / dfreq) == l; freq[l] = (l + 0.5) dfreq."""
    params = dict(img0=T.Arr(3, "real", cand_shapes=((3, 3, 3), (5, 4, 3))), img1=T.Arr(3, "real", cand_shapes=((3, 3, 3), (5, 4, 3))),
                  dfreq=T.Real(cands=(Fraction(1, 10), Fraction(1, 7))))
    requires = ["dfreq > 0", "all(img0.shape[a] == img1.shape[a] for a in range(3))"]
    helpers = dict(_H)
    native_helpers = dict(_native_fsc=_native_fsc)
    native_call = "_mod.fourier_shell_correlation(**args)"
    native = {
        # the internal (ghost) clauses are observable only through the result: all are replayed as the end-to-end formula
        "three_shell_sums": "np.allclose(result[1], _native_fsc(img0, img1, dfreq), atol=1e-3, equal_nan=True)",
        "shell_labels": "np.allclose(result[1], _native_fsc(img0, img1, dfreq), atol=1e-3, equal_nan=True)",
        "shell_index": "np.allclose(result[1], _native_fsc(img0, img1, dfreq), atol=1e-3, equal_nan=True)",
        "cross_and_power_spectra": "np.allclose(result[1], _native_fsc(img0, img1, dfreq), atol=1e-3, equal_nan=True)",
        "normalised_cross_spectrum": "np.allclose(result[1], _native_fsc(img0, img1, dfreq), atol=1e-3, equal_nan=True)",
        "frequencies": "np.allclose(result[0], (np.arange(len(result[1])) + 0.5) * dfreq)",
    }
    ensures = {
        "three_shell_sums": "len(shell_sums()) == 3 and all(shell_sums()[t][2] is shell_sums()[0][2] and "
                            "arr_eq(shell_sums()[t][3], shell_sums()[0][3]) for t in range(3))",
        "shell_labels": "forall(lambda i, j, k: shell_sums()[0][2][i, j, k] == "
                        "trunc(sqrt(radius2((i, j, k), img0.shape)) / dfreq), "
                        "(0, img0.shape[0]), (0, img0.shape[1]), (0, img0.shape[2]))",
        "shell_index": "forall(lambda l: shell_sums()[0][3][l] == l, (0, shell_sums()[0][3].shape[0]))",
        "cross_and_power_spectra":
            # with F = fftn(img) read at the un-shifted index u (the centred bin (i,j,k) is FFT bin u):
            # cov = Re(F0 conj F1) = Re F0 Re F1 + Im F0 Im F1,  pw = |F|^2
            "forall(lambda i, j, k: "
            "shell_sums()[0][1][i, j, k] == re0(i, j, k) * re1(i, j, k) + im0(i, j, k) * im1(i, j, k) and "
            "shell_sums()[1][1][i, j, k] == re0(i, j, k) * re0(i, j, k) + im0(i, j, k) * im0(i, j, k) and "
            "shell_sums()[2][1][i, j, k] == re1(i, j, k) * re1(i, j, k) + im1(i, j, k) * im1(i, j, k), "
            "(0, img0.shape[0]), (0, img0.shape[1]), (0, img0.shape[2]))",
        "normalised_cross_spectrum": "forall(lambda l: result[1][l] == shell_sums()[0][0][l] / "
                                     "sqrt(shell_sums()[1][0][l] * shell_sums()[2][0][l]), (0, result[1].shape[0]))",
        "frequencies": "result[0].shape[0] == result[1].shape[0] and "
                       "forall(lambda l: result[0][l] == (l + 0.5) * dfreq, (0, result[0].shape[0]))",
    }


def _mk_parts():
    """helpers re0/im0/re1/im1: real and imaginary part of fftn(img0/img1) at the FFT bin of centred bin (i, j, k).
    They need the clause environment (fft_of, img0, img1), so they are installed as lambdas evaluated in spec mode."""
    return {}


# the spectra are reached through the ghost `fft_of(img, 'fftn')`; these small lambdas are clause-level definitions
fourier_shell_correlation.ensures  # noqa
from pyvc import contract as _C
_c = _C.REGISTRY["acryo._utils:fourier_shell_correlation"]
_DEFS = ("(lambda re0, im0, re1, im1: %s)("
         "lambda i, j, k: fft_of(img0, 'fftn')[unshift(i, img0.shape[0]), unshift(j, img0.shape[1]), unshift(k, img0.shape[2])], "
         "lambda i, j, k: fft_of(img0, 'fftn').imag[unshift(i, img0.shape[0]), unshift(j, img0.shape[1]), unshift(k, img0.shape[2])], "
         "lambda i, j, k: fft_of(img1, 'fftn')[unshift(i, img0.shape[0]), unshift(j, img0.shape[1]), unshift(k, img0.shape[2])], "
         "lambda i, j, k: fft_of(img1, 'fftn').imag[unshift(i, img0.shape[0]), unshift(j, img0.shape[1]), unshift(k, img0.shape[2])])")
_c.ensures["cross_and_power_spectra"] = _DEFS % _c.ensures["cross_and_power_spectra"]


# ---------------------------------------------------------------------------
from contracts.common import TLoader, TMolecules, NATIVE_IMPORTS

_FSC = "acryo._utils:fourier_shell_correlation"
_c.result = lambda interp, bound: (fresh_array("freq", 1, "real", path=interp.path), fresh_array("fsc", 1, "real", path=interp.path))
_c.call_ensures = ["frequencies"]
_AS = _C.REGISTRY["acryo.loader._base:LoaderBase.average_split"]
def _halves_result(interp, bound):
    h = fresh_array("halves", 5, "real", shape=(bound["n_set"], 2) + tuple(bound["output_shape"]))
    h._ghost_initial = h.copy()          # ghost: the half averages as average_split returned them
    return h


def as_returned(arr):
    """ghost: the content of a call result at the time it was returned (callers may update the array in place)"""
    return getattr(arr, "_ghost_initial", arr)


_AS.result = _halves_result
_AS.call_ensures = []


_REPLAY_HALFMAPS = '''
import numpy as np
from acryo import SubtomogramLoader, Molecules
rng = np.random.default_rng(2)
tomo = rng.normal(size=(40, 40, 40)).astype(np.float32) + 3.0
pos = rng.uniform(12, 28, size=(9, 3))
ld = SubtomogramLoader(tomo, Molecules(pos), order=1, scale=1.0, output_shape=(8, 8, 8))
zz, yy, xx = np.indices((8, 8, 8))
mask = np.exp(-((zz - 3.5) ** 2 + (yy - 3.5) ** 2 + (xx - 3.5) ** 2) / 8.0).astype(np.float32)     # soft mask
ok = True
for n_set in (1, 2):
    want = ld.average_split(n_set=n_set, seed=4, squeeze=False, output_shape=(8, 8, 8))
    res = ld.fsc_with_halfmaps(mask, seed=4, n_set=n_set, squeeze=False, zero_norm=False)
    e0 = float(np.abs(res.halfmaps[0] - want[:, 0]).max()); e1 = float(np.abs(res.halfmaps[1] - want[:, 1]).max())
    print("n_set", n_set, ": max |returned half-map - half average| =", round(e0, 5), round(e1, 5))
    ok = ok and e0 < 1e-4 and e1 < 1e-4
print("clause holds natively (the returned half-maps are the plain half averages):", ok)
print("CONFIRMED" if not ok else "NOT-CONFIRMED"); sys.exit(1 if not ok else 0)
'''


@contract("acryo.loader._base:LoaderBase.fsc_with_halfmaps", props=["C17", "C09"])
class fsc_with_halfmaps:
    """loader-level FSC: for every set i the two half-maps of average_split(n_set, seed) (optionally mean-subtracted),
    each multiplied by the mask, are correlated shell-wise with width dfreq (default 1.5 / min(shape)); the split
    uses the given seed (reproducible); the returned half-maps are those halves."""
    params = dict(self=TLoader(TMolecules(features=["f0"], min_n=2)), mask=T.Arr(3, "real"), seed=T.Int(),
                  n_set=T.OneOf(1, 2), dfreq=T.OneOf(None, T.Real(lo=0)), zero_norm=T.OneOf(True, False),
                  squeeze=T.Const(False))
    requires = ["dfreq is None or dfreq > 0"]
    imports = NATIVE_IMPORTS
    # C09 (averages are plain means): the half-maps handed back are the half averages themselves
    only = {"C09": ["split_parameters", "halfmaps_returned"]}
    replay = staticmethod(lambda ob, meta, model: _REPLAY_HALFMAPS)
    native_call = "args['self'].fsc_with_halfmaps(**{k: v for k, v in args.items() if k != 'self'})"
    native = {"split_parameters": "True", "masked_halves_correlated": "True", "shell_width": "True",
              "columns": "list(result.fsc.columns) == ['freq'] + ['FSC-%d' % i for i in range(n_set)]"}
    ensures = {
        "split_parameters": "called_args('average_split')['n_set'] == n_set and called_args('average_split')['seed'] is seed "
                            "and called_args('average_split')['output_shape'] == mask.shape and "
                            "called_args('average_split')['self'] is self",
        "masked_halves_correlated":
            "all(forall(lambda z, y, x: "
            "called_args('fourier_shell_correlation', i)['img0'][z, y, x] == called('average_split')[i, 0, z, y, x] * mask[z, y, x] and "
            "called_args('fourier_shell_correlation', i)['img1'][z, y, x] == called('average_split')[i, 1, z, y, x] * mask[z, y, x], "
            "(0, mask.shape[0]), (0, mask.shape[1]), (0, mask.shape[2])) for i in range(n_set))",
        "shell_width": "all(called_args('fourier_shell_correlation', i)['dfreq'] == "
                       "(dfreq if dfreq is not None else 1.5 / min(mask.shape)) for i in range(n_set))",
        "columns": "result.fsc.columns == ['freq'] + ['FSC-' + str(i) for i in range(n_set)] and "
                   "all(result.fsc['FSC-' + str(i)].arr is called('fourier_shell_correlation', i)[1] for i in range(n_set))",
        # without mean subtraction the returned half-maps are the plain half averages as average_split computed them
        # (not masked, not otherwise altered); with zero_norm they are those minus one common constant
        "halfmaps_returned": "zero_norm or forall(lambda t, z, y, x: "
                             "result.halfmaps[0][t, z, y, x] == as_returned(called('average_split'))[t, 0, z, y, x] and "
                             "result.halfmaps[1][t, z, y, x] == as_returned(called('average_split'))[t, 1, z, y, x], "
                             "(0, n_set), (0, mask.shape[0]), (0, mask.shape[1]), (0, mask.shape[2]))",
    }
    helpers = dict(as_returned=as_returned)


def _halfmap_factory():
    return None
