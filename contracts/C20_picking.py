"""C20: chunk bookkeeping of the particle pickers.

What a contract can decide here is the coordinate bookkeeping around the per-chunk picker: a pick found at local index
l of a block that dask extended by `depth` voxels lies at l + chunk_start - depth in the whole image, times the scale in
physical units; the template bank index is looked up in the searched rotations; the landscape index is moved to the
particle centre by (template_shape + 1) / 2.  That the LoG / DoG / ZNCC maxima sit on the particles is numerical
(trusted scipy filters), and chunk independence needs picks to be reported by exactly one block: clause `core_only`
(recorded known finding: picks in the overlap margin are reported by every block that sees them)."""
from pyvc.contract import contract, T, TSpec, fresh_array, make_obj
from pyvc import values as V
from pyvc import stubs as S
from pyvc.arrays import SArr
import z3

_IMG = T.Arr(3, "real")


def _picked(interp, bound):
    """abstract per-chunk picker: K picks anywhere in the block, each with a quaternion and a score"""
    k = V.Sym(z3.Int(V.fresh_name("n_picks")))
    interp.path.assume(k >= 0)
    pos = fresh_array("picked_pos", 2, "real", shape=(k, 3))
    quats = fresh_array("picked_quat", 2, "real", shape=(k, 4))
    score = fresh_array("picked_score", 1, "real", shape=(k,))
    me = bound["self"]
    me.attrs["_ghost_local"] = pos.copy()
    me.attrs["_ghost_quats"] = quats
    me.attrs["_ghost_score"] = score
    return pos, quats, {"score": score}


for _cls in ("BasePickerModel",):
    @contract(f"acryo.pick._base:{_cls}.pick_in_chunk", props=["C20"])
    class pick_in_chunk:
        """abstract: any picks (the concrete detectors are numerical: trusted scipy filters)"""
        trusted = True
        params = dict(self=T.Obj("acryo.pick._base:BasePickerModel", {}))
        result = _picked
        ensures = {}


def block_info_spec():
    class _TInfo(TSpec):
        def fresh(self, name, path):
            st = [V.Sym(z3.Int(f"chunk_start{i}")) for i in range(3)]
            sp = [V.Sym(z3.Int(f"chunk_stop{i}")) for i in range(3)]
            for a, b in zip(st, sp):
                path.assume(V.sand(V.compare(">=", a, 0), V.compare("<", a, b)))
            return {None: {"array-location": [(a, b) for a, b in zip(st, sp)]}}

        def src(self, name, model):
            st = [int(model.get(f"chunk_start{i}", 3 * i)) for i in range(3)]
            return "{None: {'array-location': [(%d, %d), (%d, %d), (%d, %d)]}}" % (st[0], st[0] + 8, st[1], st[1] + 8, st[2], st[2] + 8)
    return _TInfo()


def margin(image, info, a):
    """overlap depth the block was extended by on axis a (block length minus chunk length, halved)"""
    st, sp = info[None]["array-location"][a]
    return (image.shape[a] - (sp - st)) / 2


def in_core(local, i, image, info):
    """local pick i lies in the core of the block: voxel index (rounded) inside the un-extended chunk"""
    parts = []
    for a in range(3):
        st, sp = info[None]["array-location"][a]
        m = margin(image, info, a)
        x = local.at((i, a))
        parts += [V.compare("<=", m - V.exact(0.5) if hasattr(V, "exact") else m - 0.5, x), V.compare("<", x, m + (sp - st) - V.exact(0.5))]
    return V.sand(*parts)


_PICKER = T.Obj("acryo.pick._base:BasePickerModel", {})

_REPLAY_CHUNKS = '''
import numpy as np, dask.array as da
from acryo.pick import LoGPicker
def blob(shape, centers, s=2.0):
    zz, yy, xx = np.indices(shape)
    img = np.zeros(shape, np.float32)
    for c in centers:
        img += np.exp(-((zz - c[0]) ** 2 + (yy - c[1]) ** 2 + (xx - c[2]) ** 2) / (2 * s * s))
    return img
shape = (48, 48, 48); cs = [(12, 12, 12), (12, 34, 30), (36, 24, 24), (30, 40, 10)]
img = blob(shape, cs)
whole = LoGPicker(sigma=2.0).pick_molecules(img, scale=1.0)
ok = len(whole) == len(cs)
for chunks in [(24, 24, 24), (16, 48, 48)]:
    m = LoGPicker(sigma=2.0).pick_molecules(da.from_array(img, chunks=chunks), scale=1.0)
    print("chunks", chunks, "->", len(m), "picks (one chunk:", len(whole), ", particles:", len(cs), ")")
    ok = ok and len(m) == len(whole)
print("clause holds natively (same picks for every chunking):", ok)
print("CONFIRMED" if not ok else "NOT-CONFIRMED"); sys.exit(1 if not ok else 0)
'''


@contract("acryo.pick._base:BasePickerModel._pick_in_chunk_wrapped", props=["C20"])
class pick_in_chunk_wrapped:
    """local block coordinates become coordinates of the extended image by adding the chunk's start on every axis;
    quaternions and features of a pick stay with it; `core_only`: a block reports only picks inside its own chunk
    (local index in [margin, margin + chunk length)) -- otherwise neighbouring blocks report the same particle twice."""
    params = dict(self=_PICKER, image=_IMG, block_info=block_info_spec())
    requires = ["all(image.shape[a] >= block_info[None]['array-location'][a][1] - block_info[None]['array-location'][a][0] "
                "for a in range(3))"]
    helpers = dict(margin=margin, in_core=in_core, loc=lambda info, a: info[None]["array-location"][a])
    replay = staticmethod(lambda ob, meta, model: _REPLAY_CHUNKS)
    ensures = {
        "one_box": "result.shape == (1, 1, 1)",
        # every reported pick is one of the block's picks, moved by the chunk start, with that pick's own rotation
        # and score, and that pick lies in the block's core
        "reported_picks": "forall(lambda k: exists(lambda i: in_core(self._ghost_local, i, image, block_info) and "
                          "all(result[0, 0, 0]._pos[k, a] == self._ghost_local[i, a] + loc(block_info, a)[0] for a in range(3)) and "
                          "all(result[0, 0, 0]._quats[k, c] == self._ghost_quats[i, c] for c in range(4)) and "
                          "result[0, 0, 0]._features['score'][k] == self._ghost_score[i], (0, self._ghost_local.shape[0])), "
                          "(0, result[0, 0, 0]._pos.shape[0]))",
        # no pick of the core is lost
        "core_picks_complete": "forall(lambda i: not in_core(self._ghost_local, i, image, block_info) or "
                               "exists(lambda k: all(result[0, 0, 0]._pos[k, a] == self._ghost_local[i, a] + loc(block_info, a)[0] "
                               "for a in range(3)), (0, result[0, 0, 0]._pos.shape[0])), (0, self._ghost_local.shape[0]))",
        # chunk independence: a block reports only picks of its own chunk (margins belong to the neighbours)
        "core_only": "forall(lambda k: all(loc(block_info, a)[0] + margin(image, block_info, a) - 0.5 <= result[0, 0, 0]._pos[k, a] and "
                     "result[0, 0, 0]._pos[k, a] < loc(block_info, a)[1] + margin(image, block_info, a) - 0.5 for a in range(3)), "
                     "(0, result[0, 0, 0]._pos.shape[0]))",
    }


# ---------------------------------------------------------------------------
# the concrete per-chunk detectors are numerical (scipy filters, labelling): trusted to return picks with one quaternion
# and one score each; what they return is then followed through the chunk bookkeeping
for _key in ("acryo.pick._concrete:LoGPicker.pick_in_chunk", "acryo.pick._concrete:DoGPicker.pick_in_chunk"):
    @contract(_key, props=["C20"])
    class concrete_pick_in_chunk:
        trusted = True
        params = dict(self=T.Obj("acryo.pick._base:BasePickerModel", {}))
        result = _picked
        ensures = {}


def overlap():
    """ghost: the generic block dask handed to the per-chunk function (starts, stops, depth actually used per axis)"""
    return S.GHOST["overlap"][-1]


_REPLAY_THIN = '''
import numpy as np
from acryo.pick import LoGPicker
def blob(shape, centers, s=2.0):
    zz, yy, xx = np.indices(shape)
    img = np.zeros(shape, np.float32)
    for c in centers:
        img += np.exp(-((zz - c[0]) ** 2 + (yy - c[1]) ** 2 + (xx - c[2]) ** 2) / (2 * s * s))
    return img
ok = True
for shape, cs in [((5, 48, 48), [(2, 12, 12), (2, 34, 30)]), ((48, 48, 48), [(12, 12, 12), (30, 34, 20)])]:
    m = LoGPicker(sigma=3.5).pick_molecules(blob(shape, cs), scale=1.0)       # overlap depth 7 > 5 on the first axis
    got = sorted(map(tuple, np.round(m.pos).astype(int).tolist()))
    print("image", shape, "particles", cs, "picked at", got)
    ok = ok and got == sorted(cs)
import dask.array as da
shape = (40, 48, 48); cs = [(12, 33, 30), (26, 12, 14), (30, 30, 40)]
img = blob(shape, cs) + 1e-4 * np.sin(np.arange(np.prod(shape)).reshape(shape)).astype(np.float32)
def picks(x):
    m = LoGPicker(sigma=2.0).pick_molecules(x, scale=1.0)
    keep = m.features["score"].to_numpy() > 0.05
    return sorted(map(tuple, np.round(m.pos[keep]).astype(int).tolist()))
whole = picks(img)
ok = ok and whole == sorted(cs)
for chunks in [(13, 17, 44), (20, 24, 24), (39, 48, 48)]:          # uneven chunkings with short trailing chunks
    p = picks(da.from_array(img, chunks=chunks))
    print("chunks", chunks, "->", p, "(one chunk:", whole, ")")
    ok = ok and p == whole
print("clause holds natively (picks at the particle positions, for every chunking):", ok)
print("CONFIRMED" if not ok else "NOT-CONFIRMED"); sys.exit(1 if not ok else 0)
'''


@contract("acryo.pick._base:BasePickerModel.pick_molecules", props=["C20"])
class pick_molecules:
    """for an arbitrary chunk of an arbitrary chunking: a pick at local index l of the block dask extended by the overlap
    depth is reported at (chunk_start + l - depth_used) * scale, i.e. at its index in the whole image in physical units
    (depth_used: the depth dask actually extended the block by on that axis), with its own rotation and score"""
    params = dict(self=T.OneOf(T.Obj("acryo.pick._concrete:LoGPicker", dict(_sigma=T.Real(lo=0))),
                               T.Obj("acryo.pick._concrete:DoGPicker", dict(_sigma_low=T.Real(lo=0), _sigma_high=T.Real(lo=0)))),
                  image=_IMG, scale=T.Real(lo=0))
    requires = ["scale > 0", "cls_name(self) != 'LoGPicker' or self._sigma > 0",
                "cls_name(self) != 'DoGPicker' or (self._sigma_low > 0 and self._sigma_high > self._sigma_low)"]
    helpers = dict(overlap=overlap, in_core=in_core, cls_name=lambda o: o.cls.name, smin=V.smin)
    replay = staticmethod(lambda ob, meta, model: _REPLAY_THIN)
    ensures = {
        "global_physical_position":
            "forall(lambda k: exists(lambda i: all(result._pos[k, a] == (self._ghost_local[i, a] + overlap()['starts'][a] - "
            "overlap()['depth'][a]) * scale for a in range(3)) and "
            "result._features.cols['score'][k] == self._ghost_score[i], (0, self._ghost_local.shape[0])), "
            "(0, result._pos.shape[0]))",
        "one_feature_row_per_pick": "result._features.n == result._pos.shape[0]",
        # the blocks are extended by the picker's own overlap depth, limited only by the image size: in particular the
        # extension does not depend on how the image happens to be chunked
        "overlap_independent_of_chunking": "all(overlap()['depth'][a] == smin(image.shape[a], called('get_params_and_depth')[1]) "
                                           "for a in range(3))",
    }


# ---------------------------------------------------------------------------
# parameters in pixels, overlap depth against the dependency radius of the per-chunk pipeline
from pyvc.values import ceil_ as _ceil, trunc as _trunc

_HP = dict(ceil=_ceil, trunc=_trunc)


@contract("acryo.pick._concrete:LoGPicker.get_params_and_depth", props=["C20"])
class log_params:
    """sigma is converted to pixels with the scale; `overlap_covers_dependency_radius`: a voxel of the chunk's core
    must see everything its response depends on -- the Laplacian-of-Gaussian kernel reaches int(4*sigma_px + 0.5)
    voxels (scipy's truncation, trusted) and the local-maximum test a further ceil(sigma_px)"""
    params = dict(self=T.Obj("acryo.pick._concrete:LoGPicker", dict(_sigma=T.Real(lo=0))), scale=T.Real(lo=0))
    requires = ["scale > 0", "self._sigma > 0"]
    helpers = _HP
    result = lambda interp, bound: ({"sigma": V.fresh("sigma_px", "real")}, V.fresh("depth", "int"))
    call_ensures = ["sigma_in_pixels", "integer_depth"]
    native_call = "__import__('acryo.pick', fromlist=['x']).LoGPicker(args['self']['_sigma']).get_params_and_depth(args['scale'])"
    native = {"sigma_in_pixels": "abs(result[0]['sigma'] - self['_sigma'] / scale) < 1e-9", "integer_depth": "isinstance(result[1], int) and result[1] >= 1",
              "overlap_covers_dependency_radius": "result[1] >= int(4 * self['_sigma'] / scale + 0.5) + int(np.ceil(self['_sigma'] / scale))"}
    ensures = {
        "sigma_in_pixels": "result[0]['sigma'] == self._sigma / scale",
        "integer_depth": "result[1] >= 1",
        "overlap_covers_dependency_radius": "result[1] >= trunc(4 * self._sigma / scale + 0.5) + ceil(self._sigma / scale)",
    }


@contract("acryo.pick._concrete:DoGPicker.get_params_and_depth", props=["C20"])
class dog_params:
    """both sigmas in pixels; the wider Gaussian reaches int(4*sigma_high_px + 0.5) voxels, the maximum test ceil(sigma_low_px)"""
    params = dict(self=T.Obj("acryo.pick._concrete:DoGPicker", dict(_sigma_low=T.Real(lo=0), _sigma_high=T.Real(lo=0))), scale=T.Real(lo=0))
    requires = ["scale > 0", "self._sigma_low > 0", "self._sigma_high > self._sigma_low"]
    helpers = _HP
    result = lambda interp, bound: ({"sigma_low": V.fresh("sigma_low_px", "real"), "sigma_high": V.fresh("sigma_high_px", "real")},
                                    V.fresh("depth", "int"))
    call_ensures = ["sigmas_in_pixels", "integer_depth"]
    native_call = ("__import__('acryo.pick', fromlist=['x']).DoGPicker(args['self']['_sigma_low'], args['self']['_sigma_high'])"
                   ".get_params_and_depth(args['scale'])")
    native = {"sigmas_in_pixels": "abs(result[0]['sigma_low'] - self['_sigma_low'] / scale) < 1e-9 and abs(result[0]['sigma_high'] - self['_sigma_high'] / scale) < 1e-9",
              "overlap_covers_dependency_radius": "result[1] >= int(4 * self['_sigma_high'] / scale + 0.5) + int(np.ceil(self['_sigma_low'] / scale))"}
    ensures = {
        "sigmas_in_pixels": "result[0]['sigma_low'] == self._sigma_low / scale and result[0]['sigma_high'] == self._sigma_high / scale",
        "integer_depth": "result[1] >= 1",
        "overlap_covers_dependency_radius": "result[1] >= trunc(4 * self._sigma_high / scale + 0.5) + ceil(self._sigma_low / scale)",
    }


@contract("acryo.pick._concrete:simple_pick", props=["C20"])
class simple_pick:
    """LoG / DoG picks carry the identity rotation (scipy quaternion (0,0,0,1)) and keep their positions"""
    params = dict(img=_IMG, pos=T.Arr(2, "real", min_size=0))
    requires = ["pos.shape[1] == 3"]
    native_call = "_mod.simple_pick(args['img'], args['pos'][:, :3] % 3)"
    native = {"positions_kept": "result[0].shape == (pos.shape[0], 3)",
              "identity_rotation": "bool(np.all(result[1] == np.array([0, 0, 0, 1])))", "one_score_per_pick": "result[2]['score'].shape == (pos.shape[0],)"}
    ensures = {
        "positions_kept": "result[0] is pos",
        "identity_rotation": "result[1].shape == (pos.shape[0], 4) and forall(lambda k: result[1][k, 0] == 0 and result[1][k, 1] == 0 "
                             "and result[1][k, 2] == 0 and result[1][k, 3] == 1, (0, pos.shape[0]))",
        "one_score_per_pick": "result[2]['score'].shape[0] == pos.shape[0]",
    }


@contract("acryo.pick._base:BaseTemplateMatcher._index_to_quaternions", props=["C20"])
class index_to_quaternions:
    """the rotation reported for a pick is the searched rotation whose template gave the best score there"""
    params = dict(self=T.Obj("acryo.pick._base:BaseTemplateMatcher", dict(_quaternions=T.Arr(2, "real"))),
                  argmax_indices=T.Arr(1, "int", min_size=0))
    requires = ["self._quaternions.shape[1] == 4",
                "forall(lambda k: 0 <= argmax_indices[k] < self._quaternions.shape[0], (0, argmax_indices.shape[0]))"]
    ensures = {"rotation_of_best_template": "result.shape == (argmax_indices.shape[0], 4) and "
               "forall(lambda k: all(result[k, c] == self._quaternions[argmax_indices[k], c] for c in range(4)), (0, argmax_indices.shape[0]))"}


_REPLAY_MAXF = '''
import numpy as np
from acryo.pick._concrete import maximum_filter, find_maxima
ok = True
for radius in (1.0, 2.0, 2.5, 3.2):
    r = int(np.ceil(radius))
    img = np.zeros((24, 24, 24), np.float32)
    c = np.array([8, 8, 8])
    d = np.array([r, r, r])                                   # a diagonal neighbour: inside the box, outside the ball
    img[tuple(c)] = 1.0
    img[tuple(c + d)] = 0.9
    out = np.asarray(maximum_filter(img, radius))
    inside = float(np.linalg.norm(d)) <= radius
    kept = out[tuple(c + d)] == img[tuple(c + d)]
    n = len(find_maxima(img, radius, 0.0))
    print("exclusion radius", radius, ": second peak at distance", round(float(np.linalg.norm(d)), 2), "is",
          "kept" if kept else "suppressed", "| maxima found:", n)
    ok = ok and (kept or inside) and (n == 2 or inside)
print("clause holds natively (a weaker peak farther than the exclusion radius is not suppressed):", ok)
print("CONFIRMED" if not ok else "NOT-CONFIRMED"); sys.exit(1 if not ok else 0)
'''


def _kw(call, key):
    d = call[2]
    return d.get(key) if isinstance(d, dict) else None


@contract("acryo.pick._concrete:maximum_filter", props=["C20"])
class maximum_filter_c:
    """the exclusion region of the peak search is the ball of radius `radius` (voxels): scipy's maximum filter is
    invoked on the image itself with the footprint {o : |o - c|^2 <= radius^2} in a (2 ceil(radius) + 1)^3 window and
    edge replication; below one voxel the image is returned unchanged"""
    params = dict(image=_IMG, radius=T.Real(lo=0))
    helpers = dict(kw=_kw, ceil=V.ceil_)
    replay = staticmethod(lambda ob, meta, model: _REPLAY_MAXF)
    ensures = {
        "identity_below_one_voxel": "implies(radius < 1, result is image and ndi_count() == 0)",
        "one_filter_call_on_the_image": "implies(radius >= 1, ndi_count() == 1 and result is ndi_call('maximum_filter')[0] and "
                                        "ndi_call('maximum_filter')[1][0] is image and kw(ndi_call('maximum_filter'), 'mode') == 'nearest')",
        "exclusion_region_is_the_ball":
            "implies(radius >= 1, kw(ndi_call('maximum_filter'), 'size') is None and "
            "kw(ndi_call('maximum_filter'), 'footprint') is not None and "
            "all(kw(ndi_call('maximum_filter'), 'footprint').shape[a] == 2 * ceil(radius) + 1 for a in range(3)) and "
            "forall(lambda a, b, c: iff(kw(ndi_call('maximum_filter'), 'footprint')[a, b, c], "
            "(a - ceil(radius)) * (a - ceil(radius)) + (b - ceil(radius)) * (b - ceil(radius)) + "
            "(c - ceil(radius)) * (c - ceil(radius)) <= radius * radius), "
            "(0, 2 * ceil(radius) + 1), (0, 2 * ceil(radius) + 1), (0, 2 * ceil(radius) + 1)))",
    }


@contract("acryo.pick._concrete:find_maxima", props=["C20"])
class find_maxima:
    """one row of three coordinates per detected maximum -- also when nothing is detected (a featureless chunk of a
    chunked image must contribute zero picks, not an error further down)"""
    params = dict(img=_IMG, min_distance=T.Real(lo=0), min_intensity=T.Real())
    replay = staticmethod(lambda ob, meta, model: '''
import numpy as np
from acryo.pick._concrete import find_maxima
from acryo.pick import LoGPicker
ok = True
for img in (np.zeros((12, 12, 12), np.float32), np.random.default_rng(0).normal(size=(12, 12, 12)).astype(np.float32)):
    r = find_maxima(img, 1.5, 0.0)
    print("maxima found:", r.shape[0], "| result shape", r.shape)
    ok = ok and r.ndim == 2 and r.shape[1] == 3
try:
    n = len(LoGPicker(sigma=2.0).pick_molecules(np.zeros((20, 20, 20), np.float32), scale=1.0))
    print("featureless image: %d picks" % n)
except Exception as e:
    print("featureless image: pick_molecules raised", type(e).__name__, e); ok = False
print("clause holds natively:", ok)
print("CONFIRMED" if not ok else "NOT-CONFIRMED"); sys.exit(1 if not ok else 0)
''')
    ensures = {"one_row_per_maximum": "result.ndim == 2 and result.shape[1] == 3"}



# ---------------------------------------------------------------------------
# template matching in one chunk: which rotation is reported for a pick, and where
class TTemplates(TSpec):
    """the rotated template bank handed to pick_in_chunk: two templates of one (symbolic) shape"""

    def fresh(self, name, path):
        shp = tuple(V.Sym(z3.Int(f"{name}_shape_{a}")) for a in range(3))
        for x in shp:
            path.assume(x >= 1)
        return [fresh_array(f"{name}_{t}", 3, "real", shape=shp) for t in range(2)]

    def src(self, name, model):
        return "None"


def found(k, a):
    """ghost: coordinate a of the k-th maximum find_maxima returned (centres of mass of the labelled maxima)"""
    hits = [r for (n_, r, args, kw) in S.GHOST.get("ndi", []) if n_ == "center_of_mass_list"]
    return hits[-1].fn(k)[a] if hits else V.fresh("no_maxima", "real")


_REPLAY_TM = '''
import numpy as np
from scipy.spatial.transform import Rotation
from scipy import ndimage as ndi
from acryo.pick import ZNCCTemplateMatcher
from acryo._utils import compose_matrices
zz, yy, xx = np.indices((9, 11, 13))
tmpl = (np.exp(-((zz - 4) ** 2 + (yy - 5) ** 2 / 9.0 + (xx - 6) ** 2 / 25.0) / 2.0)).astype(np.float32)     # elongated along x
rots = Rotation.from_rotvec([[0, 0, 0], [np.pi / 2, 0, 0]])      # acryo vectors are (z, y, x): identity, quarter turn about z
img = np.zeros((40, 44, 48), np.float32) + 1e-4 * np.sin(np.arange(40 * 44 * 48).reshape(40, 44, 48)).astype(np.float32)
truth = [((12, 14, 16), 0), ((26, 28, 30), 1)]
mats = compose_matrices(np.array(tmpl.shape) / 2 - 0.5, [r.inv() for r in rots])
for c, k in truth:
    rt = ndi.affine_transform(tmpl, mats[k], order=1)
    img[tuple(slice(ci - s // 2, ci - s // 2 + s) for ci, s in zip(c, tmpl.shape))] += rt
mole = ZNCCTemplateMatcher(tmpl, rotation=rots).pick_molecules(img, scale=1.0, min_distance=4.0, min_score=0.5)
ok = len(mole) == len(truth)
for c, k in truth:
    d = np.linalg.norm(mole.pos - np.array(c), axis=1) if len(mole) else np.array([])
    j = int(np.argmin(d)) if len(mole) else -1
    good = j >= 0 and d[j] <= 1.0 and np.allclose(np.abs(mole.rotator[j].as_quat()), np.abs(rots[k].as_quat()), atol=1e-4)
    print("particle at", c, "rotation", k, "-> nearest pick", None if j < 0 else (np.round(mole.pos[j], 1).tolist(), np.round(mole.rotator[j].as_quat(), 3).tolist()), "ok" if good else "WRONG")
    ok = ok and good
try:
    flat = np.zeros((30, 30, 30), np.float32) + 1e-4 * np.sin(np.arange(27000).reshape(30, 30, 30)).astype(np.float32)
    n0 = len(ZNCCTemplateMatcher(tmpl, rotation=rots).pick_molecules(flat, scale=1.0, min_distance=4.0, min_score=0.5))
    print("image without particles:", n0, "picks")
    ok = ok and n0 == 0
except Exception as e:
    print("image without particles: pick_molecules raised", type(e).__name__, e); ok = False
print("picks:", len(mole), "| clause holds natively:", ok)
print("CONFIRMED" if not ok else "NOT-CONFIRMED"); sys.exit(1 if not ok else 0)
'''


@contract("acryo.pick._concrete:ZNCCTemplateMatcher.pick_in_chunk", props=["C20"])
class zncc_pick_in_chunk:
    """a maximum found at landscape index p is reported at p + (template_shape + 1) / 2 (the centre of the template
    window whose correlation is landscape value p: the valid-mode landscape is trimmed by one voxel on each side), with
    the searched rotation whose template scores best at the rounded maximum, and one score per pick"""
    params = dict(self=T.Obj("acryo.pick._concrete:ZNCCTemplateMatcher", dict(_quaternions=T.Arr(2, "real"))),
                  image=_IMG, templates=TTemplates(), min_distance=T.Real(lo=0), min_score=T.Real())
    requires = ["self._quaternions.shape[0] == 2 and self._quaternions.shape[1] == 4",
                "all(image.shape[a] >= templates[0].shape[a] + 2 for a in range(3))"]
    helpers = dict(found=found, rnd=V.round_half_even, NCC="acryo.backend._zncc:ncc_landscape_no_pad")
    replay = staticmethod(lambda ob, meta, model: _REPLAY_TM)
    ensures = {
        "one_rotation_and_score_per_pick": "result[1].shape[0] == result[0].shape[0] and result[2]['score'].shape[0] == result[0].shape[0] "
                                           "and result[0].shape[1] == 3 and result[1].shape[1] == 4",
        "centre_of_the_template_window": "forall(lambda k: all(result[0][k, a] == found(k, a) + (templates[0].shape[a] + 1) / 2 "
                                         "for a in range(3)), (0, result[0].shape[0]))",
        "rotation_is_a_searched_one": "forall(lambda k: exists(lambda r: all(result[1][k, c] == self._quaternions[r, c] for c in range(4)), "
                                      "(0, 2)), (0, result[0].shape[0]))",
        # ... namely one whose template scores best at the voxel the maximum rounds to
        "rotation_of_best_template":
            "forall(lambda k: exists(lambda r: all(result[1][k, c] == self._quaternions[r, c] for c in range(4)) and "
            "all(ite(r == 0, called(NCC, 0)[rnd(found(k, 0)), rnd(found(k, 1)), rnd(found(k, 2))], "
            "called(NCC, 1)[rnd(found(k, 0)), rnd(found(k, 1)), rnd(found(k, 2))]) >= "
            "called(NCC, t)[rnd(found(k, 0)), rnd(found(k, 1)), rnd(found(k, 2))] for t in range(2)), (0, 2)), (0, result[0].shape[0]))",
    }
