"""C14: simulated tomograms contain the template at the requested poses (index / matrix arithmetic of the simulator)."""
from pyvc.contract import contract, T, fresh_array
from pyvc import values as V
from pyvc.values import trunc, smax, smin
from contracts.common import TMolecules, NATIVE_IMPORTS

_SHAPE = T.Tuple(T.Int(lo=1), T.Int(lo=1), T.Int(lo=1))


def start_of(pos_px, s):
    """first tomogram index of the pasted fragment on one axis, as the code computes it"""
    return trunc(pos_px) - trunc((s - 1) / 2)


_H = dict(trunc=trunc, start_of=start_of)


@contract("acryo.simulator:_prep_iterators", props=["C14"])
class prep_iterators:
    """Property clause: fragment voxel o, pasted at tomogram index start_i + o, samples the template at
    centre_t + R_i^-1 ((start_i + o) - pos_i/scale) with centre_t = (shape-1)/2, i.e. the template centre lands on the
    molecule position.  As affine coefficients: linear part == R_i^-1, offset == centre_t + R_i^-1 (start_i - pos_i/scale)."""
    params = dict(mol=TMolecules(min_n=1), shape=_SHAPE, scale=T.Real())
    requires = ["scale > 0"]
    helpers = _H
    imports = NATIVE_IMPORTS
    native_call = "_mod._prep_iterators(**args)"
    native = {
        "counts": "len(result[0]) == len(mol) and len(result[1]) == len(mol) and len(result[2]) == len(mol)",
        "stops": "np.all(result[1] - result[0] == np.array(shape))",
        "starts": "True", "linear_part": "np.allclose(result[2][:, :3, :3], mol.rotator.inv().as_matrix(), atol=1e-4)",
        "affine_row": "True",
        "offset": "np.allclose(result[2][:, :3, 3], (np.array(shape) - 1) / 2 + np.einsum('nab,nb->na', "
                  "mol.rotator.inv().as_matrix(), result[0] - mol.pos / scale), atol=1e-3)",
    }
    ensures = {
        "counts": "result[0].shape[0] == mol._pos.shape[0] and result[1].shape[0] == mol._pos.shape[0] and "
                  "result[2].shape[0] == mol._pos.shape[0]",
        "stops": "forall(lambda i: all(result[1][i, a] - result[0][i, a] == shape[a] for a in range(3)), "
                 "(0, mol._pos.shape[0]))",
        "starts": "forall(lambda i: all(result[0][i, a] == start_of(mol._pos[i, a] / scale, shape[a]) "
                  "for a in range(3)), (0, mol._pos.shape[0]))",
        "linear_part": "forall(lambda i: all(result[2][i, a, b] == mol._rotator[i].as_matrix()[b, a] "
                       "for a in range(3) for b in range(3)), (0, mol._pos.shape[0]))",
        "affine_row": "forall(lambda i: result[2][i, 3, 0] == 0 and result[2][i, 3, 1] == 0 and "
                      "result[2][i, 3, 2] == 0 and result[2][i, 3, 3] == 1, (0, mol._pos.shape[0]))",
        "offset": "forall(lambda i: all(result[2][i, a, 3] == (shape[a] - 1) / 2 + "
                  "sum(mol._rotator[i].as_matrix()[b, a] * (result[0][i, b] - mol._pos[i, b] / scale) for b in range(3)) "
                  "for a in range(3)), (0, mol._pos.shape[0]))",
    }


def sl_start(sl):
    return 0 if sl.start is None else sl.start


def sl_stop(sl, n):
    return n if sl.stop is None else sl.stop


_H.update(sl_start=sl_start, sl_stop=sl_stop, max=smax, min=smin)
_I3 = T.Tuple(T.Int(), T.Int(), T.Int())


@contract("acryo.simulator:_prep_slices", props=["C14"])
class prep_slices:
    """clipping of a fragment [start, stop) against the volume: None exactly when there is no overlap on some axis;
    otherwise destination = [max(start,0), min(stop,size)) inside the volume, source = the matching part of the
    fragment: equal lengths and dst.start - src.start == start (every kept voxel lands where it belongs)."""
    params = dict(start=_I3, stop=_I3, tomogram_shape=_SHAPE, template_shape=_SHAPE)
    requires = ["all(stop[a] - start[a] == template_shape[a] for a in range(3))"]
    helpers = _H
    native_call = "_mod._prep_slices(**args)"
    result = None
    ensures = {
        "none_iff_no_overlap": "iff(result[1] is None, any(stop[a] <= 0 or start[a] >= tomogram_shape[a] for a in range(3)))",
        "destination": "result[1] is None or all(result[1][a].start == max(start[a], 0) and "
                       "result[1][a].stop == min(stop[a], tomogram_shape[a]) for a in range(3))",
        "inside_volume": "result[1] is None or all(0 <= result[1][a].start < result[1][a].stop <= tomogram_shape[a] "
                         "for a in range(3))",
        "same_length": "result[1] is None or all(sl_stop(result[0][a], template_shape[a]) - sl_start(result[0][a]) == "
                       "result[1][a].stop - result[1][a].start for a in range(3))",
        "placement": "result[1] is None or all(result[1][a].start - sl_start(result[0][a]) == start[a] for a in range(3))",
        "source_inside_fragment": "result[1] is None or all(0 <= sl_start(result[0][a]) and "
                                  "sl_stop(result[0][a], template_shape[a]) <= template_shape[a] for a in range(3))",
    }


from pyvc.stubs import interp_sample
from pyvc.values import Sym, fresh
import z3 as _z3


def sample(img, mtx, o, order):
    """ghost: the value affine_transform(img, mtx, order) has at output index o (trusted scipy contract)"""
    coords = [mtx[a, 0] * o[0] + mtx[a, 1] * o[1] + mtx[a, 2] * o[2] + mtx[a, 3] for a in range(3)]
    return interp_sample(img, coords, order)


_H["sample"] = sample


def _ps_result(interp, bound):
    c = prep_slices_contract()
    cond = c.eval_clause(interp, "any(stop[a] <= 0 or start[a] >= tomogram_shape[a] for a in range(3))", bound)
    p = interp.path
    if (p.branch(cond) if isinstance(cond, Sym) else bool(cond)):
        return ((slice(None),), None)
    src = tuple(slice(fresh("src_start", "int"), fresh("src_stop", "int"), None) for _ in range(3))
    dst = tuple(slice(fresh("dst_start", "int"), fresh("dst_stop", "int"), None) for _ in range(3))
    return (src, dst)


def prep_slices_contract():
    from pyvc import contract as _C
    return _C.REGISTRY["acryo.simulator:_prep_slices"]


prep_slices_contract().result = _ps_result
_ORDER = T.OneOf(0, 1, 3)
_MTX = T.Arr(2, "real", shape=(4, 4))


def _native_sample_check(img, mtx, start, shape, order, result):
    """native: the returned fragment equals the corresponding part of scipy's affine_transform output"""
    import numpy as np
    from scipy import ndimage as ndi
    sl, frag = result
    if frag is None:
        return True
    full = ndi.affine_transform(img, mtx, mode="constant", cval=0.0, order=order, prefilter=False)
    ok = True
    for idx in np.ndindex(*frag.shape):
        p = [sl[a].start + idx[a] for a in range(3)]
        o = tuple(p[a] - start[a] for a in range(3))
        ok = ok and abs(float(frag[idx]) - float(full[o])) < 1e-4
    return ok


@contract("acryo.simulator:_simulate_one", props=["C14"])
class simulate_one:
    """the fragment voxel placed at tomogram index p (inside the returned destination slices) is the transformed
    template at fragment index p - start, i.e. the template sampled at mtx (p - start); None iff no overlap."""
    params = dict(img=T.Arr(3, "real"), start=_I3, stop=_I3, mtx=_MTX, shape=_SHAPE, order=_ORDER)
    requires = ["all(stop[a] - start[a] == img.shape[a] for a in range(3))"]
    helpers = _H
    native_helpers = dict(_native_sample_check=_native_sample_check)
    native_call = "_mod._simulate_one(**args)"
    native = {"none_iff_no_overlap": "iff(result[1] is None, any(stop[a] <= 0 or start[a] >= shape[a] for a in range(3)))",
              "fragment_shape": "True", "destination": "True",
              "fragment_values": "_native_sample_check(img, mtx, start, shape, order, result)"}
    ensures = {
        "none_iff_no_overlap": "iff(result[1] is None, any(stop[a] <= 0 or start[a] >= shape[a] for a in range(3)))",
        "destination": "result[1] is None or all(result[0][a].start == max(start[a], 0) and "
                       "result[0][a].stop == min(stop[a], shape[a]) for a in range(3))",
        "fragment_shape": "result[1] is None or all(result[1].shape[a] == result[0][a].stop - result[0][a].start "
                          "for a in range(3))",
        "fragment_values": "result[1] is None or forall(lambda u0, u1, u2: result[1][u0, u1, u2] == "
                           "sample(img, mtx, (result[0][0].start + u0 - start[0], result[0][1].start + u1 - start[1], "
                           "result[0][2].start + u2 - start[2]), order), "
                           "(0, result[1].shape[0]), (0, result[1].shape[1]), (0, result[1].shape[2]))",
    }
