"""C14: simulated tomograms contain the template at the requested poses (index / matrix arithmetic of the simulator)."""
from pyvc.contract import contract, T, fresh_array
from pyvc import values as V
from pyvc.values import trunc, smax, smin
from contracts.common import TMolecules, NATIVE_IMPORTS

_SHAPE = T.Tuple(T.Int(lo=1), T.Int(lo=1), T.Int(lo=1))


def start_of(pos_px, s):
    """first tomogram index of the pasted fragment on one axis, as the code computes it"""
    return trunc(pos_px) - trunc((s - 1) / 2)


_H = dict(trunc=trunc, start_of=start_of)


@contract("acryo.simulator:_prep_iterators", props=["C14"])
class prep_iterators:
    """Property clause: fragment voxel o, pasted at tomogram index start_i + o, samples the template at
    centre_t + R_i^-1 ((start_i + o) - pos_i/scale) with centre_t = (shape-1)/2, i.e. the template centre lands on the
    molecule position.  As affine coefficients: linear part == R_i^-1, offset == centre_t + R_i^-1 (start_i - pos_i/scale)."""
    params = dict(mol=TMolecules(min_n=1), shape=_SHAPE, scale=T.Real())
    requires = ["scale > 0"]
    helpers = _H
    imports = NATIVE_IMPORTS
    native_call = "_mod._prep_iterators(**args)"
    native = {
        "counts": "len(result[0]) == len(mol) and len(result[1]) == len(mol) and len(result[2]) == len(mol)",
        "stops": "np.all(result[1] - result[0] == np.array(shape))",
        "starts": "True", "linear_part": "np.allclose(result[2][:, :3, :3], mol.rotator.inv().as_matrix(), atol=1e-4)",
        "affine_row": "True",
        "offset": "np.allclose(result[2][:, :3, 3], (np.array(shape) - 1) / 2 + np.einsum('nab,nb->na', "
                  "mol.rotator.inv().as_matrix(), result[0] - mol.pos / scale), atol=1e-3)",
    }
    ensures = {
        "counts": "result[0].shape[0] == mol._pos.shape[0] and result[1].shape[0] == mol._pos.shape[0] and "
                  "result[2].shape[0] == mol._pos.shape[0]",
        "stops": "forall(lambda i: all(result[1][i, a] - result[0][i, a] == shape[a] for a in range(3)), "
                 "(0, mol._pos.shape[0]))",
        "starts": "forall(lambda i: all(result[0][i, a] == start_of(mol._pos[i, a] / scale, shape[a]) "
                  "for a in range(3)), (0, mol._pos.shape[0]))",
        "linear_part": "forall(lambda i: all(result[2][i, a, b] == mol._rotator[i].as_matrix()[b, a] "
                       "for a in range(3) for b in range(3)), (0, mol._pos.shape[0]))",
        "affine_row": "forall(lambda i: result[2][i, 3, 0] == 0 and result[2][i, 3, 1] == 0 and "
                      "result[2][i, 3, 2] == 0 and result[2][i, 3, 3] == 1, (0, mol._pos.shape[0]))",
        "offset": "forall(lambda i: all(result[2][i, a, 3] == (shape[a] - 1) / 2 + "
                  "sum(mol._rotator[i].as_matrix()[b, a] * (result[0][i, b] - mol._pos[i, b] / scale) for b in range(3)) "
                  "for a in range(3)), (0, mol._pos.shape[0]))",
    }


def sl_start(sl):
    return 0 if sl.start is None else sl.start


def sl_stop(sl, n):
    return n if sl.stop is None else sl.stop


_H.update(sl_start=sl_start, sl_stop=sl_stop, max=smax, min=smin)
_I3 = T.Tuple(T.Int(), T.Int(), T.Int())


@contract("acryo.simulator:_prep_slices", props=["C14"])
class prep_slices:
    """clipping of a fragment [start, stop) against the volume: None exactly when there is no overlap on some axis;
    otherwise destination = [max(start,0), min(stop,size)) inside the volume, source = the matching part of the
    fragment: equal lengths and dst.start - src.start == start (every kept voxel lands where it belongs)."""
    params = dict(start=_I3, stop=_I3, tomogram_shape=_SHAPE, template_shape=_SHAPE)
    requires = ["all(stop[a] - start[a] == template_shape[a] for a in range(3))"]
    helpers = _H
    native_call = "_mod._prep_slices(**args)"
    result = None
    ensures = {
        "none_iff_no_overlap": "iff(result[1] is None, any(stop[a] <= 0 or start[a] >= tomogram_shape[a] for a in range(3)))",
        "destination": "result[1] is None or all(result[1][a].start == max(start[a], 0) and "
                       "result[1][a].stop == min(stop[a], tomogram_shape[a]) for a in range(3))",
        "inside_volume": "result[1] is None or all(0 <= result[1][a].start < result[1][a].stop <= tomogram_shape[a] "
                         "for a in range(3))",
        "same_length": "result[1] is None or all(sl_stop(result[0][a], template_shape[a]) - sl_start(result[0][a]) == "
                       "result[1][a].stop - result[1][a].start for a in range(3))",
        "placement": "result[1] is None or all(result[1][a].start - sl_start(result[0][a]) == start[a] for a in range(3))",
        "source_inside_fragment": "result[1] is None or all(0 <= sl_start(result[0][a]) and "
                                  "sl_stop(result[0][a], template_shape[a]) <= template_shape[a] for a in range(3))",
    }


from pyvc.stubs import interp_sample
from pyvc.values import Sym, fresh
import z3 as _z3


def sample(img, mtx, o, order):
    """ghost: the value affine_transform(img, mtx, order) has at output index o (trusted scipy contract)"""
    coords = [mtx[a, 0] * o[0] + mtx[a, 1] * o[1] + mtx[a, 2] * o[2] + mtx[a, 3] for a in range(3)]
    return interp_sample(img, coords, order)


_H["sample"] = sample


def _ps_result(interp, bound):
    c = prep_slices_contract()
    cond = c.eval_clause(interp, "any(stop[a] <= 0 or start[a] >= tomogram_shape[a] for a in range(3))", bound)
    p = interp.path
    if (p.branch(cond) if isinstance(cond, Sym) else bool(cond)):
        return ((slice(None),), None)
    src = tuple(slice(fresh("src_start", "int"), fresh("src_stop", "int"), None) for _ in range(3))
    dst = tuple(slice(fresh("dst_start", "int"), fresh("dst_stop", "int"), None) for _ in range(3))
    return (src, dst)


def prep_slices_contract():
    from pyvc import contract as _C
    return _C.REGISTRY["acryo.simulator:_prep_slices"]


prep_slices_contract().result = _ps_result
_ORDER = T.OneOf(0, 1, 3)
from pyvc.contract import TArr


class TAffine(TArr):
    """homogeneous 4x4 matrix (bottom row 0 0 0 1: `affine_row` of _prep_iterators; scipy rejects anything else); the
    replay builds a rotation by a generic angle about a generic axis plus a sub-voxel offset"""

    def __init__(self):
        TArr.__init__(self, 2, "real", shape=(4, 4))

    def src(self, name, model):
        return ("np.block([[_Rotation.from_rotvec([0.3, -0.5, 0.2]).as_matrix(), np.array([[0.35], [-0.2], [0.6]])], "
                "[np.zeros((1, 3)), np.ones((1, 1))]])")


_MTX = TAffine()
_AFFINE_ROW = "mtx[3, 0] == 0 and mtx[3, 1] == 0 and mtx[3, 2] == 0 and mtx[3, 3] == 1"


def _native_sample_check(img, mtx, start, shape, order, result):
    """native: the returned fragment equals the corresponding part of scipy's affine_transform output"""
    import numpy as np
    from scipy import ndimage as ndi
    sl, frag = result
    if frag is None:
        return True
    full = ndi.affine_transform(img, mtx, mode="constant", cval=0.0, order=order, prefilter=False)
    ok = True
    for idx in np.ndindex(*frag.shape):
        p = [sl[a].start + idx[a] for a in range(3)]
        o = tuple(p[a] - start[a] for a in range(3))
        ok = ok and abs(float(frag[idx]) - float(full[o])) < 1e-4
    return ok


_REPLAY_ONE = '''
import numpy as np, re
from scipy import ndimage as ndi
from scipy.spatial.transform import Rotation
from acryo.simulator import _simulate_one
def geti(k, d):
    try:
        return int(str(model.get(k, d)))
    except Exception:
        return d
order = int(re.search(r"order=(\\d)", OB).group(1)) if re.search(r"order=(\\d)", OB) else 1
# the counter-model's geometry, with a template large enough for interpolation to have something to show
box = tuple(max(geti("img_shape_%d" % a, 5), 5) for a in range(3))
start = tuple(min(max(geti("start_%d" % a, -2), -box[a] + 1), 6) for a in range(3))
stop = tuple(start[a] + box[a] for a in range(3))
shape = tuple(max(geti("shape_%d" % a, 8), max(start[a], 0) + 3) for a in range(3))
rng = np.random.default_rng(3)
img = rng.random(box).astype(np.float32)
mtx = np.eye(4); mtx[:3, :3] = Rotation.from_rotvec([0.2, -0.3, 0.1]).as_matrix(); mtx[:3, 3] = [0.4, 0.3, -0.2]
sl, frag = _simulate_one(img, start, stop, mtx, shape, order)
full = ndi.affine_transform(img, mtx, mode="constant", cval=0.0, order=order, prefilter=False)
ok = True
if frag is None:
    ok = any(stop[a] <= 0 or start[a] >= shape[a] for a in range(3))
else:
    ok = all(sl[a].start == max(start[a], 0) and sl[a].stop == min(stop[a], shape[a]) for a in range(3)) \\
        and frag.shape == tuple(sl[a].stop - sl[a].start for a in range(3))
    worst = 0.0
    if ok:
        for idx in np.ndindex(*frag.shape):
            o = tuple(sl[a].start + idx[a] - start[a] for a in range(3))
            worst = max(worst, abs(float(frag[idx]) - float(full[o])))
        ok = worst < 1e-4
    print("template box", box, "fragment start", start, "volume", shape, "order", order, ": destination", sl,
          "| largest |fragment[p - start] - transformed template at p - start| =", round(worst, 5))
print("clause holds natively (the voxel pasted at p is the transformed template at p - start):", ok)
print("CONFIRMED" if not ok else "NOT-CONFIRMED"); sys.exit(1 if not ok else 0)
'''


@contract("acryo.simulator:_simulate_one", props=["C14"])
class simulate_one:
    """the fragment voxel placed at tomogram index p (inside the returned destination slices) is the transformed
    template at fragment index p - start, i.e. the template sampled at mtx (p - start); None iff no overlap."""
    params = dict(img=T.Arr(3, "real"), start=_I3, stop=_I3, mtx=_MTX, shape=_SHAPE, order=_ORDER)
    requires = ["all(stop[a] - start[a] == img.shape[a] for a in range(3))", _AFFINE_ROW]
    helpers = _H
    imports = NATIVE_IMPORTS
    native_helpers = dict(_native_sample_check=_native_sample_check)
    replay = staticmethod(lambda ob, meta, model: "OB = %r\n" % ob + _REPLAY_ONE)
    native_call = "_mod._simulate_one(**args)"
    native = {"none_iff_no_overlap": "iff(result[1] is None, any(stop[a] <= 0 or start[a] >= shape[a] for a in range(3)))",
              "fragment_shape": "True", "destination": "True",
              "fragment_values": "_native_sample_check(img, mtx, start, shape, order, result)"}
    ensures = {
        "none_iff_no_overlap": "iff(result[1] is None, any(stop[a] <= 0 or start[a] >= shape[a] for a in range(3)))",
        "destination": "result[1] is None or all(result[0][a].start == max(start[a], 0) and "
                       "result[0][a].stop == min(stop[a], shape[a]) for a in range(3))",
        "fragment_shape": "result[1] is None or all(result[1].shape[a] == result[0][a].stop - result[0][a].start "
                          "for a in range(3))",
        "fragment_values": "result[1] is None or forall(lambda u0, u1, u2: result[1][u0, u1, u2] == "
                           "sample(img, mtx, (result[0][0].start + u0 - start[0], result[0][1].start + u1 - start[1], "
                           "result[0][2].start + u2 - start[2]), order), "
                           "(0, result[1].shape[0]), (0, result[1].shape[1]), (0, result[1].shape[2]))",
    }


# ---------------------------------------------------------------------------
# task submission of the simulators: one paste task per molecule of every component (what is summed afterwards is the
# list of task results; dask's compute and the accumulation loop are not under contract)
from pyvc.contract import TSpec, make_obj
from pyvc import symex as _X
from contracts.C11_poses import M as _M


class TSimulator(TSpec):
    """TomogramSimulator with one component: N >= 1 molecules and a template image"""

    def fresh(self, name, path):
        import z3
        interp = path.interp
        cls = interp.resolve("acryo.simulator:TomogramSimulator")
        comp_cls = interp.resolve("acryo.simulator:Component")
        mol = TMolecules(min_n=1).fresh(name + "_mol", path)
        img = T.Arr(3, "real").fresh(name + "_template", path)
        comp = make_obj(interp, "acryo.simulator:Component", molecules=mol, image=img)
        scale = V.Sym(z3.Real(name + "_scale"))
        path.assume(scale > 0)
        return _X.Obj(cls, {"_order": 1, "_scale": scale, "_corner_safe": False, "_components": {"a": comp}})

    def src(self, name, model):
        return "None"


_SUBMITTED = [None]


def _capture_tasks(interp, f, args, kwargs):
    """stand-in for DaskTaskPool.compute while the submission is verified: remember the submitted tasks, return no
    results (the accumulation loop then has nothing to do)"""
    _SUBMITTED[0] = args[0].attrs["_tasks"]
    return []


def submitted():
    return _SUBMITTED[0]


def task_arg(k, j):
    t = _SUBMITTED[0]
    return t[k].args[j] if not hasattr(t, "fn") else t.fn(k).args[j]


def n_submitted():
    t = _SUBMITTED[0]
    return len(t) if isinstance(t, list) else t.n


_REPLAY_SIM = '''
import numpy as np
from acryo import TomogramSimulator, Molecules
rng = np.random.default_rng(0)
tmpl = rng.random((5, 5, 5)).astype(np.float32)
ok = True
for scale, pos in ((1.0, [[10, 10, 10]]), (1.0, [[10, 10, 10], [10, 20, 14], [12, 14, 22]]), (0.5, [[30, 8, 8], [4, 8, 6]])):
    sim = TomogramSimulator(order=1, scale=scale)
    sim.add_molecules(Molecules(np.array(pos, float)), tmpl)
    t3 = sim.simulate((24 if scale == 1.0 else 70, 32, 32)); p2 = sim.simulate_2d((32, 32))
    n = len(pos)
    print(n, "molecule(s), scale", scale, ": total density 3-D", round(float(t3.sum()), 3), "| 2-D", round(float(p2.sum()), 3), "| expected", round(float(n * tmpl.sum()), 3))
    ok = ok and np.allclose(t3.sum(axis=0), p2, atol=1e-3) and abs(float(t3.sum()) - n * float(tmpl.sum())) < 1e-2
print("clause holds natively (every molecule is pasted; 2-D is the z-projection of 3-D):", ok)
print("CONFIRMED" if not ok else "NOT-CONFIRMED"); sys.exit(1 if not ok else 0)
'''

_REPLAY_COLOR = '''
import numpy as np
from acryo import TomogramSimulator, Molecules
rng = np.random.default_rng(0)
tmpl = rng.random((5, 5, 5)).astype(np.float32)
pos = np.array([[10, 8, 8], [10, 20, 8], [10, 8, 22]], float)
cmapa = np.array([[1.0, 0, 0], [0, 1.0, 0], [0, 0, 1.0]])          # molecule i is painted in channel i only
sim = TomogramSimulator(order=1, scale=1.0)
sim.add_molecules(Molecules(pos), tmpl)
out = sim.simulate((20, 30, 30), colormap=cmapa)
ok = True
for i, p in enumerate(pos.astype(int)):
    box = out[:, p[0] - 3:p[0] + 4, p[1] - 3:p[1] + 4, p[2] - 3:p[2] + 4].sum(axis=(1, 2, 3))
    print("molecule", i, "painted with", cmapa[i], ": channel sums around it", np.round(box, 2))
    ok = ok and box[i] > 1.0 and all(abs(box[c]) < 1e-6 for c in range(3) if c != i)
print("clause holds natively (every molecule pasted once, with its own colour):", ok)
print("CONFIRMED" if not ok else "NOT-CONFIRMED"); sys.exit(1 if not ok else 0)
'''

_NCOMP = "self._components['a'].molecules._pos.shape[0]"
for _meth, _params, _req, _extra in (
        ("_simulate", dict(shape=_SHAPE), [], {}), ("simulate_2d", dict(shape=T.Tuple(T.Int(lo=1), T.Int(lo=1))), [],
         # the virtual 3-D volume that is projected: the requested plane, and tall enough that no fragment is cut at the top
         {"projected_volume_holds_every_fragment":
          "forall(lambda i: task_arg(i, 4)[1] == shape[0] and task_arg(i, 4)[2] == shape[1] and "
          "task_arg(i, 4)[0] >= task_arg(i, 2)[0], (0, %s))" % "self._components['a'].molecules._pos.shape[0]"}),
        ("_simulate_with_color", dict(shape=_SHAPE, colormap=T.Arr(2, "real")),
         ["colormap.shape[1] == 3", "colormap.shape[0] == " + _NCOMP],
         {"colour_i_is_row_i_of_the_colormap":
          "forall(lambda i: all(task_arg(i, 6)[c] == colormap[i, c] for c in range(3)), (0, %s))" % _NCOMP})):
    @contract(f"acryo.simulator:TomogramSimulator.{_meth}", props=["C14"])
    class submit_tasks:
        """every molecule of the component gets exactly one paste task, in molecule order, with that molecule's own
        inverse orientation in the affine matrix (none skipped, none duplicated)"""
        params = dict(self=TSimulator(), **_params)
        requires = _req
        helpers = dict(submitted=submitted, task_arg=task_arg, n_submitted=n_submitted, M=_M)
        replay = staticmethod(lambda ob, meta, model: _REPLAY_COLOR if "_simulate_with_color" in ob else _REPLAY_SIM)
        setup = staticmethod(lambda interp: interp.call_hooks.__setitem__("acryo._dask:_DaskComputable.compute", _capture_tasks))
        ensures = {
            **_extra,
            "one_task_per_molecule": "n_submitted() == self._components['a'].molecules._pos.shape[0]",
            "task_i_is_molecule_i": "forall(lambda i: all(task_arg(i, 3)[a, b] == M(self._components['a'].molecules._rotator, i)[b][a] "
                                    "for a in range(3) for b in range(3)), (0, self._components['a'].molecules._pos.shape[0]))",
        }
