"""C06: the flat candidate index i = k*T + j (rotation-major, template-minor) is decoded to rotation k, template j."""
from pyvc.contract import contract, T, fresh_array, make_obj
from pyvc import values as V

_ALIGN = "acryo.alignment._base:BaseAlignmentModel.align"

_SELF = T.Obj("acryo.alignment._base:RotationImplemented", dict(
    _n_templates=T.Int(lo=1), _n_rotations=T.Int(lo=1), quaternions=T.Arr(2, "real")))


def _replay_model_align(ob_name, meta, model):
    """public-entry-point replay: a real ZNCCAlignment with T templates and K rotations is given template j rotated by
    rotation k; the clause (label == j, quat == quaternions[k]) is evaluated on the real result"""
    return '''
import numpy as np
from scipy import ndimage as ndi
from scipy.spatial.transform import Rotation
from acryo.alignment import ZNCCAlignment
from acryo._utils import compose_matrices
T_ = int(model.get("self__n_templates", 2)); K_ = int(model.get("self__n_rotations", 3))
j = int(model.get("_j", 0)); k = int(model.get("_k", 1))
T_ = max(T_, j + 1); K_ = max(K_, k + 1)
if T_ * K_ > 64:
    print("NO-FAILING-INPUT: counter-model too large to replay (T=%d, K=%d)" % (T_, K_)); sys.exit(2)
rng = np.random.default_rng(1234)
shape = (17, 17, 17)
zz, yy, xx = np.indices(shape)
def blob(c, s):
    return np.exp(-((zz - c[0]) ** 2 + (yy - c[1]) ** 2 + (xx - c[2]) ** 2) / (2 * s * s))
templates = []
for t in range(T_):
    img = np.zeros(shape)
    for _ in range(4):
        img += rng.uniform(0.5, 1.5) * blob(rng.uniform(4, 12, size=3), rng.uniform(1.0, 1.8))
    templates.append(img.astype(np.float32))
# K distinct searched rotations (the first is the identity)
rots = [Rotation.identity()] + [Rotation.from_rotvec(v) for v in rng.normal(size=(K_ - 1, 3)) * 0.5]
rotations = Rotation.concatenate(rots) if K_ > 1 else None
model_ = ZNCCAlignment(templates if T_ > 1 else templates[0], rotations=rotations)
# sub-volume = template j rotated by searched rotation k (same convention as the model's candidates)
mtx = compose_matrices(np.array(shape) / 2 - 0.5, [rots[k].inv()])[0]
img = ndi.affine_transform(templates[j], mtx, order=3, mode="constant", cval=0.0)
res = model_.align(img.astype(np.float32), (1.0, 1.0, 1.0))
qk = rots[k].as_quat()
quat_ok = min(np.abs(res.quat - qk).max(), np.abs(res.quat + qk).max()) < 1e-4
label_ok = int(res.label) == j
print("T=%d K=%d truth (j=%d, k=%d): reported label=%d quat=%s (expected quat %s)" % (T_, K_, j, k, res.label, np.round(res.quat, 4), np.round(qk, 4)))
ok = quat_ok and label_ok
print("clause holds natively:", ok)
print("CONFIRMED" if not ok else "NOT-CONFIRMED"); sys.exit(1 if not ok else 0)
'''


@contract(_ALIGN, props=["C06"])
class base_align:
    """Contract of the argmax step as the subclass uses it: the label is the flat index of a best candidate
    (its own body is verified below through _optimize_multiple)."""
    verify = False
    params = dict(self=_SELF)
    result = lambda interp, bound: make_obj(
        interp, "acryo.alignment._base:AlignmentResult",
        label=V.fresh("iopt", "int"), shift=fresh_array("shift", 1, "real", shape=(3,)),
        quat=fresh_array("quat", 1, "real", shape=(4,)), score=V.fresh("score", "real"))
    ensures = {"label_range": "0 <= result.label < self.niter"}


@contract("acryo.alignment._base:RotationImplemented.align", props=["C06"])
class rot_align:
    """Property clause: for all j < T, k < K: if the best candidate is i = k*T + j then the reported rotation is
    exactly quaternions[k] and the label is exactly j; shift and score are that candidate's."""
    params = dict(self=_SELF, img=T.Arr(3, "real"), max_shifts=T.Tuple(T.Real(lo=0), T.Real(lo=0), T.Real(lo=0)),
                  quaternion=T.Const(None), pos=T.Const(None), backend=T.Const(None),
                  _j=T.Int(lo=0), _k=T.Int(lo=0))
    requires = ["_j < self._n_templates", "_k < self._n_rotations",
                "self.quaternions.shape[0] == self._n_rotations", "self.quaternions.shape[1] == 4"]
    replay = staticmethod(_replay_model_align)
    ensures = {
        "rotation": "implies(called('BaseAlignmentModel.align').label == _k * self._n_templates + _j, "
                    "all(result.quat[c] == self.quaternions[_k, c] for c in range(4)))",
        "template_label": "implies(called('BaseAlignmentModel.align').label == _k * self._n_templates + _j, "
                          "result.label == _j)",
        "passthrough": "result.shift is called('BaseAlignmentModel.align').shift and "
                       "result.score == called('BaseAlignmentModel.align').score",
    }


@contract("acryo.alignment._base:RotationImplemented.niter", props=["C06"])
class rot_niter:
    inline = True
    params = dict(self=_SELF)
    ensures = {"count": "result == self._n_templates * self._n_rotations"}


# ---------------------------------------------------------------------------
# the argmax over candidates (loop over a symbolic number of candidates, summarised as a map)
from contracts.common import TSeqOfArrays

_BASE = T.Obj("acryo.alignment._base:BaseAlignmentModel", {})
_OPT = "BaseAlignmentModel._optimize"


@contract("acryo.alignment._base:BaseAlignmentModel._optimize", props=["C06"])
class abstract_optimize:
    """abstract method: any (shift, quaternion, score) triple (the concrete models are C04/C05's subject)"""
    trusted = True
    params = dict(self=_BASE)
    result = lambda interp, bound: (fresh_array("cand_shift", 1, "real", shape=(3,)),
                                    fresh_array("cand_quat", 1, "real", shape=(4,)), V.fresh("cand_score", "real"))
    ensures = {}


@contract("acryo.alignment._base:BaseAlignmentModel.pre_transform", props=["C06"])
class abstract_pre_transform:
    trusted = True
    params = dict(self=_BASE)
    result = lambda interp, bound: fresh_array("pre_transformed", 3, "real", path=interp.path)
    ensures = {}


def _replay_optimize_multiple(ob_name, meta, model):
    """replay on the real BaseAlignmentModel machinery with a tiny concrete model whose candidates are all distinct"""
    return '''
import numpy as np
from acryo.alignment._base import RotationImplemented, BaseAlignmentModel
N = int(model.get("N_candidates", 4)); N = min(max(N, 3), 12)
rng = np.random.default_rng(7)
class M(RotationImplemented):
    def pre_transform(self, image, backend):
        return image
    def _optimize(self, subvolume, template, max_shifts, quaternion, pos, backend):
        t = float(template.sum())
        score = -abs(float(subvolume.sum()) - t)            # best candidate: the template the image was made from
        return np.full(3, t, dtype=np.float32), np.array([t, 2 * t, 3 * t, 1.0], dtype=np.float32), score
    def _score(self, *a, **k):
        return 0.0
templates = [np.full((3, 3, 3), 1.0 + i, dtype=np.float32) for i in range(N)]
ok = True
for j in range(N):
    res = BaseAlignmentModel.align(M(templates), templates[j].copy(), (1.0, 1.0, 1.0))   # the argmax step itself
    t = float(templates[j].sum())
    good = (int(res.label) == j and abs(float(res.score)) < 1e-6 and np.allclose(res.shift, t)
            and np.allclose(res.quat, [t, 2 * t, 3 * t, 1.0]))
    print("truth", j, "->", int(res.label), float(res.score), res.shift, res.quat, "ok" if good else "WRONG")
    ok = ok and good
# every candidate is scored on the sub-volume cut out by its own rotated mask: a blob in one corner of the box with a
# soft mask around it, two searched rotations (identity, half turn); the sub-volume is the template in the orientation
# of searched rotation 1 plus density elsewhere in the box
from scipy.spatial.transform import Rotation
from acryo.backend import Backend as _B
zz, yy, xx = np.indices((9, 9, 9))
d2 = (zz - 2) ** 2 + (yy - 2) ** 2 + (xx - 2) ** 2
tmpl = (np.exp(-d2 / 2.0) + 0.05).astype(np.float32)
soft = np.exp(-d2 / 8.0).astype(np.float32)
class MR(RotationImplemented):
    def pre_transform(self, image, backend):
        return image
    def _optimize(self, subvolume, template, max_shifts, quaternion, pos, backend):
        score = -float(((np.asarray(subvolume) - np.asarray(template)) ** 2).sum())
        return np.zeros(3, np.float32), np.array([0, 0, 0, 1], np.float32), score
    def _score(self, *a, **k):
        return 0.0
for axis in "xyz":
    rots = Rotation.concatenate([Rotation.identity(), Rotation.from_euler(axis, 180, degrees=True)])
    m = MR(tmpl, soft, rotations=rots)
    cand, masks = m._get_template_and_mask_input(_B())
    img = (np.asarray(cand[1]) + 0.3 * (1 - np.asarray(masks[1]))).astype(np.float32)
    res = m.align(img, (1.0, 1.0, 1.0))
    good = np.allclose(np.abs(res.quat), np.abs(rots[1].as_quat()), atol=1e-5)
    print("half turn about", axis, ": particle in the orientation of searched rotation 1; reported quaternion", np.round(res.quat, 3),
          "ok" if good else "WRONG (scored under another candidate's mask)")
    ok = ok and good
print("clause holds natively:", ok)
print("CONFIRMED" if not ok else "NOT-CONFIRMED"); sys.exit(1 if not ok else 0)
'''


@contract("acryo.alignment._base:BaseAlignmentModel._optimize_multiple", props=["C06"])
class optimize_multiple:
    replay = staticmethod(_replay_optimize_multiple)
    """Property clause: the result is the candidate with the highest score among ALL N candidates (every candidate i
    is optimised against template_list[i] with mask_list[i]); label = its index, shift/quat/score are that candidate's."""
    params = dict(self=_BASE, subvolume=T.Arr(3, "real"), template_list=TSeqOfArrays(3, "N_candidates"),
                  mask_list=TSeqOfArrays(3, "N_candidates"), max_shifts=T.Tuple(T.Real(lo=0), T.Real(lo=0), T.Real(lo=0)),
                  quaternion=T.Vec(4), pos=T.Vec(3), backend=T.Backend())
    # caller (align): the sub-volume, every mask and every template have the model's input shape
    requires = ["all(subvolume.shape[a] == mask_list.shape[a + 1] and subvolume.shape[a] == template_list.shape[a + 1] "
                "for a in range(3))"]
    ensures = {
        "label_range": "0 <= result.label < template_list.shape[0]",
        "maximal": "forall(lambda j: called_at('%s', j)[2] <= result.score, (0, template_list.shape[0]))" % _OPT,
        "is_that_candidate": "result.score == called_at('%s', result.label)[2] and "
                             "all(result.shift[c] == called_at('%s', result.label)[0][c] for c in range(3)) and "
                             "all(result.quat[c] == called_at('%s', result.label)[1][c] for c in range(4))" % (_OPT, _OPT, _OPT),
        "candidate_inputs": "forall(lambda j: called_args_at('%s', j)['template'][0, 0, 0] == template_list[j, 0, 0, 0], "
                            "(0, template_list.shape[0]))" % _OPT,
        # candidate j sees the sub-volume cut out by ITS OWN (rotated) mask, pre-transformed
        "own_mask_per_candidate":
            "forall(lambda j: arr_eq(called_args_at('%s', j)['subvolume'], called_at('pre_transform', j)) and "
            "forall(lambda z, y, x: called_args_at('pre_transform', j)['image'][z, y, x] == subvolume[z, y, x] * mask_list[j, z, y, x], "
            "(0, subvolume.shape[0]), (0, subvolume.shape[1]), (0, subvolume.shape[2])), (0, template_list.shape[0]))" % _OPT,
    }


# ---------------------------------------------------------------------------
# candidate generation: (rotation-major, template-minor) order, K*T templates and K*T masks
from pyvc import symex as _X
from pyvc.rotation import quat_to_matrix


class _TRotModel(T.Obj):
    """a RotationImplemented model with K rotations and T templates (symbolic), empty template cache"""

    def __init__(self, multi_template):
        self.multi = multi_template
        self.clskey = "acryo.alignment._base:RotationImplemented"
        self._src = None
        self.attrs = {}

    def cases(self):
        return [self]

    def fresh(self, name, path):
        import z3
        from pyvc.values import Sym
        from pyvc.arrays import SArr
        interp = path.interp
        cls = interp.resolve(self.clskey)
        K = Sym(z3.Int("K_rotations"))
        Tn = Sym(z3.Int("T_templates")) if self.multi else 1
        path.assume(K >= 1)
        if self.multi:
            path.assume(Tn >= 2)
        s = tuple(Sym(z3.Int(f"box_{a}")) for a in range(3))
        for x in s:
            path.assume(x >= 1)
        q = z3.Function("quaternions", z3.IntSort(), z3.IntSort(), z3.RealSort())
        quats = SArr((K, 4), lambda idx: Sym(q(V.lift(idx[0]), V.lift(idx[1]))), "real")
        if self.multi:
            tf = z3.Function("templates", *([z3.IntSort()] * 4), z3.RealSort())
            tmpl = SArr((Tn,) + s, lambda idx: Sym(tf(*[V.lift(i) for i in idx])), "real")
        else:
            tf = z3.Function("template", *([z3.IntSort()] * 3), z3.RealSort())
            tmpl = SArr(s, lambda idx: Sym(tf(*[V.lift(i) for i in idx])), "real")
        mf = z3.Function("mask", *([z3.IntSort()] * 3), z3.RealSort())
        mask = SArr(s, lambda idx: Sym(mf(*[V.lift(i) for i in idx])), "real")
        cache = interp.instantiate(interp.resolve("acryo.alignment._base:TemplateMaskCache"), [], {})
        return _X.Obj(cls, {"quaternions": quats, "_n_rotations": K, "_n_templates": Tn, "_template": tmpl,
                            "_mask": mask, "_ndim": 3, "_template_mask_cache": cache})

    def src(self, name, model):
        return "None"


def expected_matrix(self, k, a, b):
    """entry (a, b) of the affine matrix that produces candidate rotation k: T(c) R_k^-1 T(-c), c = shape/2 - 0.5"""
    quats = self.attrs["quaternions"]
    q = tuple(quats.at((k, c)) for c in range(4))
    m = quat_to_matrix(q)
    rinv = [[m[j][i] for j in range(3)] for i in range(3)]
    shape = self.attrs["_template"].shape[-3:]
    c = [s / 2 - 0.5 for s in shape]
    if a == 3:
        return 1 if b == 3 else 0
    if b < 3:
        return rinv[a][b]
    return c[a] - sum(rinv[a][j] * c[j] for j in range(3))


_AT = "Backend.affine_transform"


@contract("acryo.backend._api:Backend.affine_transform", props=["C06"])
class backend_affine:
    """thin wrapper over scipy.ndimage.affine_transform (trusted); as a modular call it exposes its arguments"""
    trusted = True
    params = dict(self=T.Backend())
    result = lambda interp, bound: fresh_array("affine_out", 3, "real",
                                               shape=tuple(bound["output_shape"]) if bound.get("output_shape") is not None
                                               else tuple(__import__("pyvc.arrays", fromlist=["x"]).from_nested(bound["img"]).shape))
    ensures = {}


abstract_pre_transform.result = None
from pyvc import contract as _C
_C.REGISTRY["acryo.alignment._base:BaseAlignmentModel.pre_transform"].result = \
    lambda interp, bound: fresh_array("pre_transformed", 3, "real",
                                      shape=tuple(__import__("pyvc.arrays", fromlist=["x"]).from_nested(bound["image"]).shape))


def _replay_candidates(ob_name, meta, model):
    """public-entry replay: a real ZNCCAlignment with T templates and K rotations; its candidate stacks are compared
    with independently transformed templates / masks (count and rotation-major, template-minor order)"""
    return '''
import numpy as np
from scipy import ndimage as ndi
from scipy.spatial.transform import Rotation
from acryo.alignment import ZNCCAlignment
from acryo._utils import compose_matrices
T_ = min(max(int(model.get("T_templates", 2)), 2), 4); K_ = min(max(int(model.get("K_rotations", 2)), 2), 4)
rng = np.random.default_rng(3)
shape = (9, 9, 9)
templates = [ndi.gaussian_filter(rng.normal(size=shape), 1.0).astype(np.float32) for _ in range(T_)]
mask = np.ones(shape, dtype=np.float32); mask[:2] = 0.5
rots = [Rotation.identity()] + [Rotation.from_rotvec(v) for v in rng.normal(size=(K_ - 1, 3)) * 0.6]
m = ZNCCAlignment(templates, mask, rotations=Rotation.concatenate(rots))
tmpl, msk = m._get_template_and_mask_input()
ok = tmpl.shape[0] == K_ * T_ and msk.shape[0] == K_ * T_
print("T=%d K=%d: %d candidate templates, %d candidate masks (expected %d each)" % (T_, K_, tmpl.shape[0], msk.shape[0], K_ * T_))
if ok:
    mats = compose_matrices(np.array(shape) / 2 - 0.5, [r.inv() for r in rots])
    cval = float(np.percentile(np.stack(templates), 1))
    for p in range(K_ * T_):
        k, j = divmod(p, T_)
        filt = ndi.spline_filter(templates[j] * mask, order=3, mode="constant", output=np.float32)
        want = ndi.affine_transform(filt, mats[k], order=3, cval=cval, prefilter=False)
        got = np.fft.ifftn(tmpl[p]).real
        wantm = ndi.affine_transform(mask, mats[k], order=3, mode="nearest", prefilter=False)
        good = np.allclose(got, want, atol=1e-3) and np.allclose(msk[p], wantm, atol=1e-4)
        if not good:
            print("candidate", p, "is not (rotation %d, template %d)" % (k, j))
        ok = ok and good
print("clause holds natively:", ok)
print("CONFIRMED" if not ok else "NOT-CONFIRMED"); sys.exit(1 if not ok else 0)
'''


for _multi in (True, False):
    # (C01: a candidate rotated about a point other than the box centre makes `align` report a shift that absorbs the
    # offset -- the molecule then misses the found pose)
    @contract("acryo.alignment._base:RotationImplemented._get_template_and_mask_input", props=["C06", "C01"]) if _multi else (lambda c: c)
    class template_and_mask_input:
        """K > 1 rotations, T >= 2 templates: K*T candidate templates and K*T candidate masks; candidate p is template
        (p % T) and the mask, both transformed with the matrix of rotation (p // T) -- rotation-major, template-minor."""
        params = dict(self=_TRotModel(True), backend=T.Backend())
        requires = ["self._n_rotations > 1"]
        replay = staticmethod(_replay_candidates)
        helpers = dict(expected_matrix=expected_matrix)
        ensures = {
            "counts": "result[0].shape[0] == self._n_rotations * self._n_templates and "
                      "result[1].shape[0] == self._n_rotations * self._n_templates",
            "template_candidates":
                "forall(lambda p: all(called_args_at('%s', p, 0)['matrix'][a, b] == "
                "expected_matrix(self, p // self._n_templates, a, b) for a in range(4) for b in range(4)) and "
                "called_args_at('%s', p, 0)['img'][0, 0, 0] == self._template[p %% self._n_templates, 0, 0, 0] * self._mask[0, 0, 0], "
                "(0, self._n_rotations * self._n_templates))" % (_AT, _AT),
            "mask_candidates":
                "forall(lambda p: all(called_args_at('%s', p, 1)['matrix'][a, b] == "
                "expected_matrix(self, p // self._n_templates, a, b) for a in range(4) for b in range(4)), "
                "(0, self._n_rotations * self._n_templates))" % _AT,
        }
