"""C10: results do not depend on scheduling: tasks only read shared state (frame clauses), memoised helper results are
never updated in place, lazily constructed arrays declare the shape they yield."""
from pyvc.contract import contract, T, fresh_array, TSpec, make_obj
from pyvc import values as V
from pyvc import symex as _X


class TCache(TSpec):
    """the per-model template cache as it is after model construction: one entry, keyed by the Backend instance that
    was used to pre-transform the template"""

    def fresh(self, name, path):
        interp = path.interp
        cls = interp.resolve("acryo.alignment._base:TemplateMaskCache")
        b0 = T.Backend().fresh(name + "_b0", path)
        tmpl = T.Arr(3, "real").fresh(name + "_template", path)
        mask = T.Arr(3, "real").fresh(name + "_mask", path)
        return _X.Obj(cls, {"_dict": {b0: (tmpl, mask)}})

    def src(self, name, model):
        return "None"


def _replay_cache(ob_name, meta, model):
    return '''
import numpy as np
from acryo.alignment import ZNCCAlignment
rng = np.random.default_rng(0)
tmpl = rng.normal(size=(8, 8, 8)).astype(np.float32)
m = ZNCCAlignment(tmpl)
n0 = len(m._template_mask_cache._dict)
for _ in range(3):
    m.align(rng.normal(size=(8, 8, 8)).astype(np.float32), (1.0, 1.0, 1.0))     # what every dask task does
n1 = len(m._template_mask_cache._dict)
print("cache entries before / after three alignments:", n0, n1)
ok = n1 == n0
print("clause holds natively (tasks do not write the shared cache):", ok)
print("CONFIRMED" if not ok else "NOT-CONFIRMED"); sys.exit(1 if not ok else 0)
'''


@contract("acryo.alignment._base:TemplateMaskCache.get", props=["C10"])
class cache_get:
    """Every alignment task looks the pre-transformed template up with its own Backend() instance.  For an equivalent
    backend (same array module) the lookup must be a pure read of the shared cache: it returns the cached pair and
    writes nothing (tasks that only read shared state are schedule-independent; a write races with the iteration in
    another worker thread)."""
    params = dict(self=TCache(), backend=T.Backend())
    replay = staticmethod(_replay_cache)
    ensures = {
        "pure_read": "writes_to(self._dict) == 0",
        "hit": "result is not None and len(self._dict) == 1",
    }
