"""C10: results do not depend on scheduling: tasks only read shared state (frame clauses), memoised helper results are
never updated in place, lazily constructed arrays declare the shape they yield."""
from pyvc.contract import contract, T, fresh_array, TSpec, make_obj
from pyvc import values as V
from pyvc import symex as _X


class TCache(TSpec):
    """the per-model template cache as it is after model construction: one entry, keyed by the Backend instance that
    was used to pre-transform the template"""

    def fresh(self, name, path):
        interp = path.interp
        cls = interp.resolve("acryo.alignment._base:TemplateMaskCache")
        b0 = T.Backend().fresh(name + "_b0", path)
        tmpl = T.Arr(3, "real").fresh(name + "_template", path)
        mask = T.Arr(3, "real").fresh(name + "_mask", path)
        return _X.Obj(cls, {"_dict": {b0: (tmpl, mask)}})

    def src(self, name, model):
        return "None"


def _replay_cache(ob_name, meta, model):
    return '''
import numpy as np
from acryo.alignment import ZNCCAlignment
rng = np.random.default_rng(0)
tmpl = rng.normal(size=(8, 8, 8)).astype(np.float32)
m = ZNCCAlignment(tmpl)
n0 = len(m._template_mask_cache._dict)
for _ in range(3):
    m.align(rng.normal(size=(8, 8, 8)).astype(np.float32), (1.0, 1.0, 1.0))     # what every dask task does
n1 = len(m._template_mask_cache._dict)
print("cache entries before / after three alignments:", n0, n1)
ok = n1 == n0
print("clause holds natively (tasks do not write the shared cache):", ok)
print("CONFIRMED" if not ok else "NOT-CONFIRMED"); sys.exit(1 if not ok else 0)
'''


@contract("acryo.alignment._base:TemplateMaskCache.get", props=["C10"])
class cache_get:
    """Every alignment task looks the pre-transformed template up with its own Backend() instance.  For an equivalent
    backend (same array module) the lookup must be a pure read of the shared cache: it returns the cached pair and
    writes nothing (tasks that only read shared state are schedule-independent; a write races with the iteration in
    another worker thread)."""
    params = dict(self=TCache(), backend=T.Backend())
    replay = staticmethod(_replay_cache)
    inline = True       # callers execute the lookup itself (a dictionary read through Backend.__hash__ / __eq__)
    ensures = {
        "pure_read": "writes_to(self._dict) == 0",
        "hit": "result is not None and len(self._dict) == 1",
    }


# ---------------------------------------------------------------------------
# declared shape of the lazily constructed correlation landscape
from pyvc.values import ceil_ as _ceil, trunc as _trunc, smax as _smax, smin as _smin

_MS = T.Tuple(T.Real(lo=0), T.Real(lo=0), T.Real(lo=0))
_IMG = T.Arr(3, "real")
_MODELS = ("ZNCCAlignment", "NCCAlignment", "PCCAlignment", "FSCAlignment")


def lds_len(kind, m, up, s):
    """length of one landscape axis as the alignment models compute it (box length s, search range m px, factor up)"""
    if up > 1:
        return 2 * _trunc(m * up) + 1                      # the up-sampling mesh: linspace with 2*int(m*up)+1 points
    if kind == "FSCAlignment":
        return 2 * _ceil(m) + 1                            # phase-ramp scan over -ceil(m)..ceil(m)
    if kind == "PCCAlignment":                             # window of the shifted power spectrum, clipped to the box
        return _smin(s // 2 + _trunc(m) + 1, s) - _smax(s // 2 - _trunc(m), 0)
    return 2 * _trunc(m) + 1                               # cropped padded correlation


_HL = dict(lds_len=lds_len, trunc=_trunc, ceil=_ceil)

for _name in ("zncc_landscape_with_crop", "ncc_landscape_with_crop"):
    @contract(f"acryo.backend._zncc:{_name}", props=["C10", "C05"])
    class landscape_with_crop:
        params = dict(img0=_IMG, img1=_IMG, max_shifts=_MS, backend=T.Backend())
        requires = ["all(img0.shape[a] == img1.shape[a] for a in range(3))"]
        helpers = _HL
        result = lambda interp, bound: fresh_array("landscape", 3, "real", path=interp.path)
        ensures = {"shape": "all(result.shape[a] == 2 * trunc(max_shifts[a]) + 1 for a in range(3))"}


@contract("acryo.backend._pcc:pcc_landscape", props=["C10", "C05"])
class pcc_landscape:
    params = dict(f0=_IMG, f1=_IMG, max_shifts=_MS, backend=T.Backend())
    requires = ["all(f0.shape[a] == f1.shape[a] for a in range(3))"]
    helpers = _HL
    result = lambda interp, bound: fresh_array("landscape", 3, "real", path=interp.path)
    ensures = {"shape": "all(result.shape[a] == lds_len('PCCAlignment', max_shifts[a], 1, f0.shape[a]) for a in range(3))"}


class TAlignModel(TSpec):
    """a constructed single-template, no-rotation alignment model of one of the four concrete classes: box shape S,
    template cache holding the one entry that __init__ stored (pre-transformed template and mask, both of shape S)"""

    def __init__(self, kinds=_MODELS, multi=False, wedge="none"):
        self.kinds, self.multi, self.wedge = kinds, multi, wedge

    def cases(self):
        out = [_TAlignModelCase(k, self.multi) for k in self.kinds]
        for c in out:
            c.wedge = self.wedge
        return out


class _TAlignModelCase(TSpec):
    def __init__(self, kind, multi, n_templates=None):
        self.kind, self.multi, self.n_templates = kind, multi, n_templates
        self.value = kind + (" (several candidates)" if multi else "")

    def fresh(self, name, path):
        import z3
        from pyvc.values import Sym
        interp = path.interp
        cls = interp.resolve(f"acryo.alignment._concrete:{self.kind}")
        s = tuple(Sym(z3.Int(f"{name}_box_{a}")) for a in range(3))
        for x in s:
            path.assume(x >= 1)
        if self.multi and self.n_templates is not None:
            nt, nr = self.n_templates, Sym(z3.Int(f"{name}_K"))      # the templates are given: T is their number
            path.assume(nr >= 1)
            path.assume(nr * nt > 1)
            lead = (nr * nt,)
        elif self.multi:
            nt, nr = Sym(z3.Int(f"{name}_T")), Sym(z3.Int(f"{name}_K"))
            path.assume(nt >= 1)
            path.assume(nr >= 1)
            path.assume(nt * nr > 1)
            lead = (nt * nr,)
        else:
            nt, nr, lead = 1, 1, ()
        tmpl = fresh_array(name + "_template", 3, "real", shape=s)
        mask = fresh_array(name + "_mask", 3, "real", shape=s)
        tin = fresh_array(name + "_template_input", 3 + len(lead), "real", shape=lead + s)
        min_ = fresh_array(name + "_mask_input", 3 + len(lead), "real", shape=lead + s)
        b0 = T.Backend().fresh(name + "_b0", path)
        cache = _X.Obj(interp.resolve("acryo.alignment._base:TemplateMaskCache"), {"_dict": {b0: (tin, min_)}})
        if getattr(self, "wedge", "none") == "single":
            lo, hi = Sym(z3.Real(f"{name}_tilt_lo")), Sym(z3.Real(f"{name}_tilt_hi"))
            path.assume(V.sand(V.compare("<=", -90, lo), V.compare("<", lo, hi), V.compare("<=", hi, 90)))
            wedge = _X.Obj(interp.resolve("acryo.tilt._single:SingleAxisY"), {"_tilt_range": (lo, hi)})
        else:
            wedge = _X.Obj(interp.resolve("acryo.tilt._base:NoWedge"), {})
        cutoff = Sym(z3.Real(f"{name}_cutoff"))
        if self.multi:
            quats = fresh_array(name + "_quaternions", 2, "real", shape=(nr, 4))
        else:
            from pyvc import arrays as _A
            quats = _A.from_nested([[0, 0, 0, 1]])             # no rotation search: the identity
        return _X.Obj(cls, {"_n_templates": nt, "_n_rotations": nr, "_template": tmpl, "_mask": mask, "_ndim": 3,
                            "_template_mask_cache": cache, "_tilt_model": wedge, "_cutoff": cutoff, "quaternions": quats})

    def src(self, name, model):
        s = tuple(max(int(model.get(f"{name}_box_{a}", 9)), 1) for a in range(3))
        return f"_make_model({self.kind!r}, {s!r})"


_MODEL_IMPORTS = '''
import numpy as np
import acryo.alignment as _alm
def _make_model(kind, shape):
    rng = np.random.default_rng(5)
    return getattr(_alm, kind)(rng.normal(size=shape).astype(np.float32))
'''


def _inline(key):
    def hook(interp, f, args, kwargs):
        return interp.exec_function(f, args, kwargs)
    return hook


def cls_kind(obj):
    return obj.cls.name if hasattr(obj, "cls") else type(obj).__name__


@contract("acryo.alignment._base:BaseAlignmentModel.landscape", props=["C10"])
class model_landscape:
    """What one landscape task does with the model it shares with all other tasks: it only reads the model (the
    template cache is hit, nothing is stored), and the array it returns has the model's landscape shape."""
    params = dict(self=T.OneOf(TAlignModel(), TAlignModel(multi=True)), img=_IMG, max_shifts=_MS,
                  quaternion=T.OneOf(None, T.Arr(1, "real", shape=(4,))),
                  pos=T.Const(None), upsample=T.Int(lo=1), backend=T.Const(None))
    requires = ["all(img.shape[a] == self._template.shape[a] for a in range(3))"]
    helpers = dict(_HL, cls_kind=cls_kind)
    native_helpers = dict(cls_kind=lambda o: type(o).__name__)
    imports = _MODEL_IMPORTS
    native_call = ("args['self'].landscape(args['img'], args['max_shifts'], quaternion=args['quaternion'], "
                   "upsample=args['upsample'])")
    native = {"reads_shared_cache_only": "len(self._template_mask_cache._dict) == 1",
              "shape": "all(result.shape[result.ndim - 3 + a] == lds_len(cls_kind(self), max_shifts[a], upsample, img.shape[a]) for a in range(3))",
              "candidates": "result.ndim == 3 or result.shape[0] == self.niter"}
    setup = staticmethod(lambda interp: interp.call_hooks.__setitem__(
        "acryo.alignment._base:RotationImplemented._get_template_and_mask_input",
        _inline("acryo.alignment._base:RotationImplemented._get_template_and_mask_input")))
    result = lambda interp, bound: fresh_array(
        "landscape", 3 if (bound["self"].attrs["_n_templates"] == 1 and bound["self"].attrs["_n_rotations"] == 1) is True else 4,
        "real", path=interp.path)
    ensures = {
        "reads_shared_cache_only": "writes_to(self._template_mask_cache._dict) == 0",
        "shape": "all(result.shape[result.ndim - 3 + a] == lds_len(cls_kind(self), max_shifts[a], upsample, img.shape[a]) for a in range(3))",
        # one landscape per candidate (template x rotation) when there are several, a bare 3-d landscape otherwise
        "candidates": "(result.ndim == 3 and self._n_templates * self._n_rotations == 1) or "
                      "(result.ndim == 4 and result.shape[0] == self._n_templates * self._n_rotations)",
    }


# the declared landscape shape ------------------------------------------------------------------------------
def _shape3(interp, bound):
    import z3
    from pyvc.values import Sym
    out = tuple(Sym(z3.Int(V.fresh_name("lds_shape"))) for _ in range(3))
    for x in out:
        interp.path.assume(x >= 1)
    return out


for _key, _kinds in (("acryo.alignment._base:BaseAlignmentModel._landscape_shape", ("ZNCCAlignment", "NCCAlignment")),
                     ("acryo.alignment._concrete:PCCAlignment._landscape_shape", ("PCCAlignment",)),
                     ("acryo.alignment._concrete:FSCAlignment._landscape_shape", ("FSCAlignment",))):
    @contract(_key, props=["C10"])
    class landscape_shape:
        """the shape a model announces for its landscape is the shape `landscape` is proved to return"""
        params = dict(self=TAlignModel(_kinds), max_shifts=_MS, upsample=T.Int(lo=1))
        helpers = dict(_HL, cls_kind=cls_kind)
        native_helpers = dict(cls_kind=lambda o: type(o).__name__)
        imports = _MODEL_IMPORTS
        native_call = "args['self']._landscape_shape(args['max_shifts'], args['upsample'])"
        result = _shape3
        ensures = {"announced": "len(result) == 3 and all(result[a] == lds_len(cls_kind(self), max_shifts[a], upsample, "
                                "self._template.shape[a]) for a in range(3))"}


# ---------------------------------------------------------------------------
# the lazily constructed landscape: one task per molecule, declared shape == computed shape
from contracts.common import TLoader, TMolecules, NATIVE_IMPORTS
from pyvc import loops as _loops
from pyvc.arrays import SArr as _SArr


@contract("acryo.loader._misc:dict_iterrows", props=["C10", "C03"])
class dict_iterrows:
    """generator driven by next()/StopIteration (outside the executor's subset): trusted to yield, for i = 0.. up to the
    shortest value, the row {key: value[i]} -- always in the SAME dict object (aliasing modelled, see below)"""
    trusted = True

    @staticmethod
    def result(interp, bound):
        d = bound["d"]
        gets, ns = {}, []
        for k, v in d.items():
            si = _loops.siter(v)
            if si is None:
                seq = list(interp.iterate(v))
                si = (len(seq), (lambda seq: lambda i: _loops._seq_get(seq, i))(seq))
            ns.append(si[0])
            gets[k] = si[1]
        if any(not V.is_sym(m) and m == 0 for m in ns):
            return []
        n = ns[0]
        for m in ns[1:]:
            if not (V.is_sym(n) and V.is_sym(m) and n.t.eq(m.t)) and not (not V.is_sym(n) and not V.is_sym(m) and n == m):
                n = V.smin(n, m)
        if not V.is_sym(n):
            return [{k: g(i) for k, g in gets.items()} for i in range(n)]
        out = _loops.SList(n, lambda i: {k: g(i) for k, g in gets.items()})
        # the generator yields ONE dict object that it updates in place before every yield: consumed step by step
        # (zip / for) the i-th value is row i, but materialised (list(...), tuple(...)) every element is that same
        # object in its final state, i.e. the last row
        out.aliased = True
        return out
    ensures = {}


class TModelFactory(TSpec):
    """`alignment_model`: a callable (template, mask) -> constructed model of one concrete class whose box is the
    template's shape"""

    def __init__(self, kinds=_MODELS, multi_cases=(False, True)):
        self.kinds, self.multi_cases = kinds, multi_cases

    def cases(self):
        return [_TModelFactoryCase(k, m) for k in self.kinds for m in self.multi_cases]


class _TModelFactoryCase(TSpec):
    def __init__(self, kind, multi=False):
        self.kind, self.multi = kind, multi
        self.value = kind + ("*" if multi else "")

    def fresh(self, name, path):
        kind = self.kind

        multi = self.multi

        def factory(template, mask=None, **kw):
            if isinstance(template, (list, tuple)):
                # a list of templates: the model holds exactly these (T = len(list)), boxes of the first one's shape
                m = _TAlignModelCase(kind, multi, n_templates=len(template) if multi else None).fresh(name + "_model", path)
                s = tuple(template[0].shape)
            else:
                m = _TAlignModelCase(kind, multi).fresh(name + "_model", path)
                s = tuple(template.shape)
            for a in range(3):
                path.assume(V.compare("==", m.attrs["_template"].shape[a], s[a]))
            return m
        factory._pyvc_native = True
        return factory

    def src(self, name, model):
        return f"getattr(_alm, {self.kind!r})"


def _replay_construct_landscape(ob_name, meta, model):
    kind = meta["case_tags"].get("alignment_model", "ZNCCAlignment") if "case_tags" in meta else "ZNCCAlignment"
    return f'''
import numpy as np
from fractions import Fraction
from acryo import SubtomogramLoader, Molecules
import acryo.alignment as _alm
kind = {kind!r}
def num(k, d):
    v = model.get(k, d)
    return float(Fraction(str(v))) if not isinstance(v, (int, float)) else float(v)
up = int(min(max(num("upsample", 1), 1), 4))
scale = num("self_scale", 1.0)
ms = model.get("max_shifts", None)
if ms is None:
    ms = tuple(num("max_shifts_%d" % a, 1.5) for a in range(3))
else:
    ms = num("max_shifts", 1.5)
box = tuple(int(min(max(num("template_shape_%d" % a, 7), 3), 9)) for a in range(3))
# keep the search range of the replay small (the declared/computed mismatch does not depend on its size)
lim = 3.5 * scale
ms = tuple(min(m, lim) for m in ms) if isinstance(ms, tuple) else min(ms, lim)
rng = np.random.default_rng(0)
tomo = rng.normal(size=(32, 32, 32)).astype(np.float32)
mole = Molecules(np.array([[16, 16, 16], [15, 16, 17]]) * scale)
loader = SubtomogramLoader(tomo, mole, order=1, scale=scale)
tmpl = rng.normal(size=box).astype(np.float32)
arr = loader.construct_landscape(tmpl, max_shifts=ms, alignment_model=getattr(_alm, kind), upsample=up)
declared = tuple(arr.shape)
computed = tuple(arr.compute().shape)
print(kind, "max_shifts", ms, "scale", scale, "upsample", up, "box", box, ": declared", declared, "computed", computed)
ok = declared == computed
# which molecule does task i belong to?  a probe model writes the arguments it receives into its landscape
from scipy.spatial.transform import Rotation
class Probe(_alm.ZNCCAlignment):
    def landscape(self, img, max_shifts, quaternion=None, pos=None, upsample=1, backend=None):
        out = np.zeros(self._landscape_shape(max_shifts, upsample), np.float32)
        out.flat[0:3] = pos; out.flat[3:7] = quaternion; out.flat[7] = float(np.asarray(img).mean())
        return out
zz = np.indices((32, 32, 32))[0].astype(np.float32)                 # voxel value = z coordinate
mole4 = Molecules(np.array([[8, 16, 16], [12, 15, 17], [18, 16, 15], [23, 17, 16]]) * scale, Rotation.random(4, random_state=3))
ld4 = SubtomogramLoader(zz, mole4, order=1, scale=scale, output_shape=(5, 5, 5))
got = ld4.construct_landscape(np.ones((5, 5, 5), np.float32), max_shifts=3.0 * scale, alignment_model=Probe).compute()
for i in range(4):
    row = got[i].ravel()
    good = np.allclose(row[0:3], mole4.pos[i] / scale, atol=1e-4) and np.allclose(row[3:7], mole4.quaternion()[i], atol=1e-5) \
        and abs(row[7] - mole4.pos[i, 0] / scale) < 0.75
    print("task", i, "got position", np.round(row[0:3], 2), "quaternion", np.round(row[3:7], 3), "sub-volume mean z", round(float(row[7]), 2), "->", "molecule %d" % i if good else "NOT molecule %d" % i)
    ok = ok and good
print("clause holds natively (declared shape == computed shape; task i is molecule i):", ok)
print("CONFIRMED" if not ok else "NOT-CONFIRMED"); sys.exit(1 if not ok else 0)
'''


_NMOL = "self._molecules._pos.shape[0]"
_LS = "BaseAlignmentModel.landscape"


@contract("acryo.loader._base:LoaderBase.construct_landscape", props=["C10", "C03"])
class construct_landscape:
    """The lazy landscape stack reports the shape that computing it yields (the from_delayed obligation
    `safety.declared_shape`: dask never checks it), for every search range, scale, up-sampling factor and model; task i
    is molecule i: its sub-volume, its orientation and its position."""
    params = dict(self=TLoader(TMolecules(), order=1), template=_IMG, mask=T.Const(None),
                  max_shifts=T.OneOf(T.Real(lo=0), _MS), alignment_model=TModelFactory(), upsample=T.Int(lo=1))
    helpers = dict(_HL, qrow=lambda rot, i, c: rot.as_quat()[i, c])
    replay = staticmethod(_replay_construct_landscape)
    # (no molecule at all: dask cannot stack an empty list -- the same error for every scheduler)
    may_raise = {"SubvolumeOutOfBoundError": "True", "ValueError": f"{_NMOL} == 0"}
    ensures = {
        "one_row_per_molecule": f"result.shape[0] == {_NMOL}",
        "task_i_loads_subvolume_i":
            f"forall(lambda i: arr_eq(called_args_at('{_LS}', i)['img'], called('construct_loading_tasks')._arrays[i]), (0, {_NMOL}))",
        "task_i_gets_position_i":
            f"forall(lambda i: all(called_args_at('{_LS}', i)['pos'][a] == self._molecules._pos[i, a] / self._scale "
            f"for a in range(3)), (0, {_NMOL}))",
        "task_i_gets_orientation_i":
            f"forall(lambda i: all(called_args_at('{_LS}', i)['quaternion'][c] == qrow(self._molecules._rotator, i, c) "
            f"for c in range(4)), (0, {_NMOL}))",
        "same_range_and_factor":
            f"forall(lambda i: called_args_at('{_LS}', i)['upsample'] == upsample, (0, {_NMOL}))",
    }


# ---------------------------------------------------------------------------
# memoised helper grids are shared between all tasks (functools.lru_cache): their callers, verified for other
# properties, also count here -- but only with their frame obligations (`frame.cached_result_mutated` fails when a
# caller updates a memoised array in place; `frame.cached_results_read_only` records the memoised helpers a path used)
import contracts.C05_range, contracts.C08_wedge, contracts.C16_lowpass   # noqa: E402
from pyvc.contract import REGISTRY as _REG

CACHED_HELPER_CALLERS = [
    "acryo.tilt._single:SingleAxis.create_mask",            # get_norms_y / get_norms_x / get_indices
    "acryo.backend._missing_wedge:missing_wedge_mask",     # _get_unrotated_normals / _get_indices
    "acryo._utils:missing_wedge_mask",
    "acryo._utils:lowpass_filter", "acryo.backend._bandpass:lowpass_filter",            # nd_butterworth_weight
    "acryo._utils:lowpass_filter_ft", "acryo.backend._bandpass:lowpass_filter_ft",
    "acryo.backend._zncc:ncc_landscape",                    # _get_padding_width
]
for _k in CACHED_HELPER_CALLERS:
    if _k in _REG:
        if "C10" not in _REG[_k].props:
            _REG[_k].props.append("C10")
        _REG[_k].only["C10"] = ["frame."]


# ---------------------------------------------------------------------------
# alignment tasks only READ the model they share: the cached (pre-transformed) template and mask are never updated in
# place by the per-molecule optimisation of any concrete model
class TCachedEntry(TSpec):
    """the cached template (index 0) / mask (index 1) of the model built for `self` -- the very array objects that every
    task of one loader.align call receives"""

    def __init__(self, index):
        self.index = index

    def fresh(self, name, path):
        model = path._c10_model
        entry = list(model.attrs["_template_mask_cache"].attrs["_dict"].values())[0]
        return entry[self.index]

    def src(self, name, model):
        return "None"


class _TSharedModelCase(_TAlignModelCase):
    def fresh(self, name, path):
        m = _TAlignModelCase.fresh(self, name, path)
        path._c10_model = m
        for arr in list(m.attrs["_template_mask_cache"].attrs["_dict"].values())[0]:
            arr.frozen = True                      # shared between tasks: an in-place update is a frame violation
        path.interp.cached_calls.add("<shared> TemplateMaskCache entry (pre-transformed template, mask)")
        return m


class TSharedModel(TAlignModel):
    def cases(self):
        out = [_TSharedModelCase(k, self.multi) for k in self.kinds]
        for c in out:
            c.wedge = self.wedge
            if self.wedge != "none":
                c.value = c.value + "+wedge"
        return out


_REPLAY_SHARED = '''
import numpy as np
from scipy.spatial.transform import Rotation
import acryo.alignment as _alm
kind = %r
rng = np.random.default_rng(3)
shape = (12, 12, 12)
zz, yy, xx = np.indices(shape)
tmpl = (np.exp(-((zz - 5) ** 2 + (yy - 6) ** 2 + (xx - 4) ** 2) / 6.0) + 0.6 * np.exp(-((zz - 7) ** 2 + (yy - 3) ** 2 + (xx - 8) ** 2) / 4.0)).astype(np.float32)
imgs = [(tmpl + 0.3 * rng.normal(size=shape)).astype(np.float32) for _ in range(4)]
quats = Rotation.random(4, random_state=5).as_quat()
def run(order):
    model = getattr(_alm, kind)(tmpl, tilt=(-60, 60))
    out = {}
    for i in order:
        r = model.align(imgs[i], (2.0, 2.0, 2.0), quaternion=quats[i], pos=np.zeros(3))
        out[i] = (np.asarray(r.shift, dtype=float), float(r.score))
    return out
a, b = run([0, 1, 2, 3]), run([3, 2, 1, 0])
ok = all(np.allclose(a[i][0], b[i][0]) and abs(a[i][1] - b[i][1]) < 1e-6 for i in range(4))
for i in range(4):
    print("molecule", i, "forward order:", np.round(a[i][0], 3), round(a[i][1], 5), "| reversed order:", np.round(b[i][0], 3), round(b[i][1], 5))
print("clause holds natively (results do not depend on the order in which tasks use the shared model):", ok)
print("CONFIRMED" if not ok else "NOT-CONFIRMED"); sys.exit(1 if not ok else 0)
'''


def _replay_shared(ob_name, meta, model):
    kind = "ZNCCAlignment"
    for k in _MODELS:
        if f"self={k}]" in ob_name or f"self={k}," in ob_name:
            kind = k
    return _REPLAY_SHARED % kind


@contract("acryo.alignment._base:BaseAlignmentModel._optimize_single", props=["C10"])
class optimize_single_shared:
    """one alignment task of a single-template model: the sub-volume is masked, pre-transformed and optimised against
    the cached template; the cached arrays are left untouched (frame obligation frame.cached_results_read_only)"""
    params = dict(self=TSharedModel(), subvolume=_IMG, template=TCachedEntry(0), mask=TCachedEntry(1), max_shifts=_MS,
                  quaternion=T.Arr(1, "real", shape=(4,)), pos=T.Arr(1, "real", shape=(3,)), backend=T.Backend())
    requires = ["all(subvolume.shape[a] == self._template.shape[a] for a in range(3))"]
    replay = staticmethod(_replay_shared)
    only = {"C10": ["frame.", "ensures."]}
    ensures = {"single_label": "result.label == 0"}
