"""C02 (and C14): crop window arithmetic."""
from pyvc.contract import contract, T


@contract("acryo._utils:make_slice_and_pad", props=["C02", "C14"])
class make_slice_and_pad:
    """Requires come from both call sites (prepare_affine*: x1 = x0 + s + 2*order + 1 > x0; simulator._prep_slices:
    stop = start + size > start)."""
    params = dict(z0=T.Int(), z1=T.Int(), size=T.Int())
    requires = ["z0 < z1", "size >= 1"]   # tomogram axes are non-empty
    # property: "a window with no overlap raises the out-of-bound error" (and, conversely, partial overlap does not)
    raises = {"SubvolumeOutOfBoundError": "z1 <= 0 or z0 >= size"}
    result = T.Tuple(T.Slice(), T.Tuple(T.Int(), T.Int()), T.Bool())
    ensures = {
        "slice": "result[0].start == max(z0, 0) and result[0].stop == min(z1, size) and result[0].step is None",
        "non_empty": "result[0].start < result[0].stop",
        "pads": "result[1][0] == max(-z0, 0) and result[1][1] == max(z1 - size, 0)",
        "length": "(result[0].stop - result[0].start) + result[1][0] + result[1][1] == z1 - z0",
        "flag": "iff(result[2], result[1][0] != 0 or result[1][1] != 0)",
    }
