"""C02 (and C14): crop window arithmetic."""
from pyvc.contract import contract, T


@contract("acryo._utils:make_slice_and_pad", props=["C02", "C14"])
class make_slice_and_pad:
    """Requires come from both call sites (prepare_affine*: x1 = x0 + s + 2*order + 1 > x0; simulator._prep_slices:
    stop = start + size > start)."""
    params = dict(z0=T.Int(), z1=T.Int(), size=T.Int())
    requires = ["z0 < z1", "size >= 1"]   # tomogram axes are non-empty
    # property: "a window with no overlap raises the out-of-bound error" (and, conversely, partial overlap does not)
    raises = {"SubvolumeOutOfBoundError": "z1 <= 0 or z0 >= size"}
    result = T.Tuple(T.Slice(), T.Tuple(T.Int(), T.Int()), T.Bool())
    ensures = {
        "slice": "result[0].start == max(z0, 0) and result[0].stop == min(z1, size) and result[0].step is None",
        "non_empty": "result[0].start < result[0].stop",
        "pads": "result[1][0] == max(-z0, 0) and result[1][1] == max(z1 - size, 0)",
        "length": "(result[0].stop - result[0].start) + result[1][0] + result[1][1] == z1 - z0",
        "flag": "iff(result[2], result[1][0] != 0 or result[1][1] != 0)",
    }


# ---------------------------------------------------------------------------
from pyvc.values import trunc, sand, sor, implies, compare, smin, smax


def pad_of(order):
    """voxels of margin the implementation keeps around the box on each side (derived from the code)"""
    return smax(order, 1)


def win0(c, s, order):
    """first tomogram index of the crop window on one axis (as the code computes it)"""
    return trunc(c - s / 2 - pad_of(order))


def margin(order):
    """stencil half-width beyond the two bracketing nodes: spline order 3 reads one more node on each side"""
    return 1 if order == 3 else 0


def sq(x):
    return x * x


def sample(mtx, a, k):
    """coordinate, on axis a of the cropped block, that affine_transform reads for output voxel k"""
    return mtx[a, 0] * k[0] + mtx[a, 1] * k[1] + mtx[a, 2] * k[2] + mtx[a, 3]


def in_ball(k, shape):
    r = smin(smin(shape[0], shape[1]), shape[2]) / 2
    return sq(k[0] - (shape[0] - 1) / 2) + sq(k[1] - (shape[1] - 1) / 2) + sq(k[2] - (shape[2] - 1) / 2) <= sq(r)


def cs3(a, b):
    """Cauchy-Schwarz instance for 3-vectors (proved as lemma `cauchy_schwarz3`, then used as an instance)"""
    return sq(a[0] * b[0] + a[1] * b[1] + a[2] * b[2]) <= (sq(a[0]) + sq(a[1]) + sq(a[2])) * (sq(b[0]) + sq(b[1]) + sq(b[2]))


def cs_unit(r, d):
    """lemma: for a unit vector r, (r.d)^2 <= d.d   (Cauchy-Schwarz with |r| = 1)"""
    return implies(sq(r[0]) + sq(r[1]) + sq(r[2]) == 1,
                   sq(r[0] * d[0] + r[1] * d[1] + r[2] * d[2]) <= sq(d[0]) + sq(d[1]) + sq(d[2]))


def abs_le(x, y):
    """lemma: x^2 <= y^2 and y >= 0  =>  -y <= x <= y"""
    return implies(sand(sq(x) <= sq(y), y >= 0), sand(-y <= x, x <= y))


_LEMMAS = {"cs_unit": ("r0 r1 r2 d0 d1 d2", "cs_unit((r0, r1, r2), (d0, d1, d2))"),
           "abs_le": ("x y", "abs_le(x, y)")}


def centred(k, shape):
    return (k[0] - (shape[0] - 1) / 2, k[1] - (shape[1] - 1) / 2, k[2] - (shape[2] - 1) / 2)


def row(m, a):
    return (m[a, 0], m[a, 1], m[a, 2])


def dot3(a, b):
    return a[0] * b[0] + a[1] * b[1] + a[2] * b[2]


_H = dict(cs_unit=cs_unit, abs_le=abs_le, pad_of=pad_of, dot3=dot3, cs3=cs3, centred=centred, row=row, win0=win0, margin=margin, sample=sample, in_ball=in_ball, sq=sq)


# (C10 "however the tomogram is chunked, numpy or dask": the block handed to the interpolation is the tomogram window
# for every array -- operations that depend on the chunking, e.g. map_blocks, are modelled over an arbitrary chunking)
@contract("acryo._utils:prepare_affine", props=["C02", "C10"])
class prepare_affine:
    only = {"C10": ["ensures.block_is_window", "no_exception"]}
    """C02: voxel k of the subtomogram samples tomogram coordinate center + R (k - (shape-1)/2) (z,y,x order);
    the cropped+padded block is the tomogram window [x0, x1) and every coordinate read for a voxel of the inscribed
    ball lies (with its interpolation stencil) inside that window."""
    params = dict(img=T.Arr(3, "real"), center=T.Tuple(T.Real(), T.Real(), T.Real()),
                  output_shape=T.Tuple(T.Int(lo=1), T.Int(lo=1), T.Int(lo=1)), rot=T.Rot(),
                  order=T.OneOf(0, 1, 3))
    helpers = _H
    requires = []
    raises = {"SubvolumeOutOfBoundError":
              "any(win0(c, s, order) + s + 2 * pad_of(order) + 1 <= 0 or win0(c, s, order) >= s0 "
              "for c, s, s0 in zip(center, output_shape, img.shape))"}
    native_call = "(lambda r: (np.asarray(r[0]), np.asarray(r[1])))(_mod.prepare_affine(**args))"
    ensures = {
        "block_shape": "all(result[0].shape[a] == output_shape[a] + 2 * pad_of(order) + 1 for a in range(3))",
        "block_is_window":
            "forall(lambda u0, u1, u2: implies("
            "0 <= u0 + win0(center[0], output_shape[0], order) < img.shape[0] and "
            "0 <= u1 + win0(center[1], output_shape[1], order) < img.shape[1] and "
            "0 <= u2 + win0(center[2], output_shape[2], order) < img.shape[2], "
            "result[0][u0, u1, u2] == img[u0 + win0(center[0], output_shape[0], order), "
            "u1 + win0(center[1], output_shape[1], order), u2 + win0(center[2], output_shape[2], order)]), "
            "(0, result[0].shape[0]), (0, result[0].shape[1]), (0, result[0].shape[2]))",
        "matrix_linear": "all(close(result[1][a, b], rot.as_matrix()[a, b]) for a in range(3) for b in range(3))",
        "matrix_offset":
            "all(close(result[1][a, 3], center[a] - win0(center[a], output_shape[a], order) "
            "- sum(rot.as_matrix()[a, b] * (output_shape[b] - 1) / 2 for b in range(3))) for a in range(3))",
        "matrix_affine_row": "result[1][3, 0] == 0 and result[1][3, 1] == 0 and result[1][3, 2] == 0 and result[1][3, 3] == 1",
        # (iii) every coordinate read for a voxel k of the inscribed ball whose tomogram coordinate is interpolable
        # lies, with its stencil, inside the block (scipy's mode='constant' returns cval outside [0, n-1])
        "sample_in_window": {
            "vars": {"k0": "real", "k1": "real", "k2": "real"},
            "assume": "in_ball((k0, k1, k2), output_shape) and "
                      "all(margin(order) <= sample(result[1], a, (k0, k1, k2)) + win0(center[a], output_shape[a], order) "
                      "<= img.shape[a] - 1 - margin(order) for a in range(3))",
            "steps": [
                # Cauchy-Schwarz instances (the general statement is lemma `cauchy_schwarz3` below)
                ("all(cs3(row(rot.as_matrix(), a), centred((k0, k1, k2), output_shape)) for a in range(3))", "cone0"),
                ("all(sq(dot3(row(rot.as_matrix(), a), centred((k0, k1, k2), output_shape))) <= "
                 "sq(min(output_shape) / 2) for a in range(3))", "cone0+opt"),
                ("all(-output_shape[a] / 2 <= dot3(row(rot.as_matrix(), a), centred((k0, k1, k2), output_shape)) "
                 "<= output_shape[a] / 2 for a in range(3))", "cone0"),
                "all(sample(result[1], a, (k0, k1, k2)) == center[a] - win0(center[a], output_shape[a], order) + "
                "dot3(row(rot.as_matrix(), a), centred((k0, k1, k2), output_shape)) for a in range(3))",
            ],
            "show": "all(margin(order) <= sample(result[1], a, (k0, k1, k2)) <= result[0].shape[a] - 1 - margin(order) "
                    "for a in range(3))",
        },
    }


# ---------------------------------------------------------------------------
# corner-safe variant: the window is the bounding cube of the box diagonal, so the rule holds for the WHOLE box
from pyvc.stubs import _sqrt
from pyvc.values import to_real


def diag(shape):
    """length of the box diagonal, as the code computes it"""
    return _sqrt(to_real(sq(shape[0]) + sq(shape[1]) + sq(shape[2])))


def cs_pad(order):
    """margin kept around the diagonal cube on each side (derived from the code)"""
    return smax(order, 1)


def cs_extra():
    """additional voxels at the upper end of the window (derived from the code)"""
    return 2


def cs_win0(c, shape, order):
    return trunc(c - diag(shape) / 2 - cs_pad(order))


def cs_len(c, shape, order):
    return trunc(cs_win0(c, shape, order) + diag(shape) + 2 * cs_pad(order) + cs_extra()) - cs_win0(c, shape, order)


def in_box(k, shape):
    return sand(*[sand(k[a] >= 0, k[a] <= shape[a] - 1) for a in range(3)])


_HC = dict(_H, diag=diag, cs_pad=cs_pad, cs_win0=cs_win0, cs_len=cs_len, in_box=in_box, sqrt=_sqrt, cs_extra=cs_extra)


@contract("acryo._utils:prepare_affine_cornersafe", props=["C02"])
class prepare_affine_cornersafe:
    params = dict(img=T.Arr(3, "real"), center=T.Tuple(T.Real(), T.Real(), T.Real()),
                  output_shape=T.Tuple(T.Int(lo=1, cands=(3, 4)), T.Int(lo=1, cands=(3, 5)), T.Int(lo=1, cands=(3, 1))),
                  rot=T.Rot(),
                  order=T.OneOf(0, 1, 3))
    helpers = _HC
    requires = []
    raises = {"SubvolumeOutOfBoundError":
              "any(cs_win0(c, output_shape, order) + cs_len(c, output_shape, order) <= 0 or "
              "cs_win0(c, output_shape, order) >= s0 for c, s0 in zip(center, img.shape))"}
    native_call = "(lambda r: (np.asarray(r[0]), np.asarray(r[1])))(_mod.prepare_affine_cornersafe(**args))"
    lemmas = _LEMMAS
    ensures = {
        "block_shape": "all(result[0].shape[a] == cs_len(center[a], output_shape, order) for a in range(3))",
        "block_is_window":
            "forall(lambda u0, u1, u2: implies("
            "0 <= u0 + cs_win0(center[0], output_shape, order) < img.shape[0] and "
            "0 <= u1 + cs_win0(center[1], output_shape, order) < img.shape[1] and "
            "0 <= u2 + cs_win0(center[2], output_shape, order) < img.shape[2], "
            "result[0][u0, u1, u2] == img[u0 + cs_win0(center[0], output_shape, order), "
            "u1 + cs_win0(center[1], output_shape, order), u2 + cs_win0(center[2], output_shape, order)]), "
            "(0, result[0].shape[0]), (0, result[0].shape[1]), (0, result[0].shape[2]))",
        "matrix_linear": "all(close(result[1][a, b], rot.as_matrix()[a, b]) for a in range(3) for b in range(3))",
        "matrix_offset":
            "all(close(result[1][a, 3], center[a] - cs_win0(center[a], output_shape, order) "
            "- sum(rot.as_matrix()[a, b] * (output_shape[b] - 1) / 2 for b in range(3))) for a in range(3))",
        "matrix_affine_row": "result[1][3, 0] == 0 and result[1][3, 1] == 0 and result[1][3, 2] == 0 and result[1][3, 3] == 1",
        # with corner_safe the rule holds for the whole box: every voxel 0 <= k <= shape-1
        "sample_in_window": {
            "vars": {"k0": "real", "k1": "real", "k2": "real"},
            "assume": "in_box((k0, k1, k2), output_shape) and "
                      "all(margin(order) <= sample(result[1], a, (k0, k1, k2)) + cs_win0(center[a], output_shape, order) "
                      "<= img.shape[a] - 1 - margin(order) for a in range(3))",
            "use": ["all(cs_unit(row(rot.as_matrix(), a), centred((k0, k1, k2), output_shape)) for a in range(3))",
                    "all(abs_le(2 * dot3(row(rot.as_matrix(), a), centred((k0, k1, k2), output_shape)), diag(output_shape)) "
                    "for a in range(3))"],
            "steps": [
                # a voxel of the box is within (s_a - 1)/2 of the centre on every axis
                ("all(sq(centred((k0, k1, k2), output_shape)[a]) <= sq((output_shape[a] - 1) / 2) for a in range(3))", "cone0"),
                # (s-1)^2 <= s^2 - 1 for s >= 1
                ("all(sq((output_shape[a] - 1) / 2) <= (sq(output_shape[a]) - 1) / 4 for a in range(3))", "cone0"),
                # rotation rows are unit vectors (SO(3) invariant), so (row . D)^2 <= |D|^2 by the lemma instance
                ("all(sq(dot3(row(rot.as_matrix(), a), centred((k0, k1, k2), output_shape))) <= "
                 "sq(centred((k0, k1, k2), output_shape)[0]) + sq(centred((k0, k1, k2), output_shape)[1]) + "
                 "sq(centred((k0, k1, k2), output_shape)[2]) for a in range(3))", "ufabs"),
                ("all(sq(dot3(row(rot.as_matrix(), a), centred((k0, k1, k2), output_shape))) <= "
                 "(sq(output_shape[0]) + sq(output_shape[1]) + sq(output_shape[2]) - 3) / 4 for a in range(3))", "ufabs"),
                # diag^2 == s0^2 + s1^2 + s2^2  (sqrt axiom)
                ("sq(diag(output_shape)) == sq(output_shape[0]) + sq(output_shape[1]) + sq(output_shape[2])", "ring"),
                ("all(sq(2 * dot3(row(rot.as_matrix(), a), centred((k0, k1, k2), output_shape))) <= sq(diag(output_shape)) "
                 "for a in range(3))", "ring"),
                ("all(-diag(output_shape) / 2 <= dot3(row(rot.as_matrix(), a), centred((k0, k1, k2), output_shape)) "
                 "<= diag(output_shape) / 2 for a in range(3))", "all+opt"),
                "all(sample(result[1], a, (k0, k1, k2)) == center[a] - cs_win0(center[a], output_shape, order) + "
                "dot3(row(rot.as_matrix(), a), centred((k0, k1, k2), output_shape)) for a in range(3))",
            ],
            "show": "all(margin(order) <= sample(result[1], a, (k0, k1, k2)) <= result[0].shape[a] - 1 - margin(order) "
                    "for a in range(3))",
        },
    }


# modular results for callers (the loader's task construction)
from pyvc.contract import fresh_array as _fa
from pyvc import contract as _C2


def _prep_result(interp, bound):
    return (_fa("cropped_block", 3, "real", path=interp.path), _fa("affine_mtx", 2, "real", shape=(4, 4)))


for _k in ("acryo._utils:prepare_affine", "acryo._utils:prepare_affine_cornersafe"):
    _C2.REGISTRY[_k].result = _prep_result
    _C2.REGISTRY[_k].call_ensures = ["block_shape"]


def _oob_args(interp, bound):
    from pyvc.values import fresh
    return [slice(fresh("oob_start", "int"), fresh("oob_stop", "int")), fresh("oob_size", "int")]


for _k in ("acryo._utils:make_slice_and_pad", "acryo._utils:prepare_affine", "acryo._utils:prepare_affine_cornersafe"):
    _C2.REGISTRY[_k].raise_args = _oob_args
