"""C01: alignment results are turned into the pose update the results denote (and C03: row i stays molecule i)."""
from pyvc.contract import contract, T, fresh_array, make_obj
from pyvc import values as V
from pyvc.rotation import quat_to_matrix
from contracts.common import TMolecules, TLoader, TAlignResults, NATIVE_IMPORTS
from contracts.C11_poses import M, matmul3, mateq, matvec, _fresh_mol
from pyvc import contract as _C

_C.REGISTRY["acryo.molecules.core:Molecules.linear_transform"].result = \
    lambda interp, bound: _fresh_mol(interp, bound["self"], True, new_pos=True, new_rot=True)
_C.REGISTRY["acryo.molecules.core:Molecules.linear_transform"].call_ensures = ["position", "orientation"]


def qmat(quat):
    """matrix of scipy's Rotation.from_quat(q) for q = (x, y, z, w)"""
    return quat_to_matrix(tuple(quat[c] for c in range(4)))


_H = dict(M=M, matmul3=matmul3, mateq=mateq, matvec=matvec, qmat=qmat)
_N = "self._molecules._pos.shape[0]"
_SHAPE = T.Tuple(T.Int(lo=1), T.Int(lo=1), T.Int(lo=1))


def _aligned_loader(interp, bound, extra_cols):
    from pyvc import symex as _X
    from pyvc.rotation import RotV
    from pyvc.frames import FrameV
    me = bound["self"]
    n = me.attrs["_molecules"].attrs["_pos"].shape[0]
    nm = V.fresh_name("aligned")
    feats = list(me.attrs["_molecules"].attrs["_features"].cols) if me.attrs["_molecules"].attrs["_features"] is not None else []
    cols = feats + ["score", "align-dz", "align-dy", "align-dx", "align-dzrot", "align-dyrot", "align-dxrot"] + list(extra_cols)
    mol = _X.Obj(me.attrs["_molecules"].cls, {"_pos": fresh_array(nm + "_pos", 2, "real", shape=(n, 3)),
                                              "_rotator": RotV.symbolic(nm + "_rot", None, so3=False, n=n),
                                              "_features": FrameV.symbolic(nm + "_feat", n, cols)})
    attrs = dict(me.attrs)
    attrs.update(_molecules=mol, _output_shape=tuple(bound["shape"]))
    return _X.Obj(me.cls, attrs)


@contract("acryo.loader._base:LoaderBase._post_align", props=["C01", "C03"])
class post_align:
    """Row i of the output belongs to molecule i and carries result i: position pos_i + scale * M_i s_i, orientation
    M_i R_i (R_i = rotation of result i), features score / align-d* / align-d*rot of result i next to the molecule's
    own feature row; the input loader and its molecules are not modified."""
    params = dict(self=TLoader(TMolecules(features=["f0"])), results=TAlignResults("self_mole_N"), shape=_SHAPE)
    helpers = _H
    imports = NATIVE_IMPORTS

    @staticmethod
    def result(interp, bound):
        """for callers (loader.align): a new loader of the same kind whose molecules are constrained by the clauses"""
        return _aligned_loader(interp, bound, [])
    call_ensures = ["count", "position", "orientation", "score_feature", "output_shape"]
    native_call = "args['self']._post_align(args['results'], args['shape'])"
    native = {
        "count": "len(result.molecules) == len(self.molecules)",
        "position": "np.allclose(result.molecules.pos, self.molecules.pos + self.scale * np.einsum('nab,nb->na', "
                    "self.molecules.rotator.as_matrix(), np.stack([r.shift for r in results])), atol=1e-3)",
        "orientation": "np.allclose(result.molecules.rotator.as_matrix(), self.molecules.rotator.as_matrix() @ "
                       "_Rotation.from_quat(np.stack([r.quat for r in results])).as_matrix(), atol=1e-4)",
        "score_feature": "np.allclose(result.molecules.features['score'].to_numpy(), [r.score for r in results], atol=1e-5)",
        "shift_features": "True", "own_features_kept": "list(result.molecules.features['f0']) == list(self.molecules.features['f0'])",
        "output_shape": "tuple(result.output_shape) == tuple(shape)", "frame": "True",
    }
    ensures = {
        "count": "result._molecules._pos.shape[0] == %s" % _N,
        "position": "forall(lambda i: all(result._molecules._pos[i, a] == old(self._molecules)._pos[i, a] + self._scale * "
                    "matvec(M(old(self._molecules)._rotator, i), (results[i].shift[0], results[i].shift[1], results[i].shift[2]))[a] "
                    "for a in range(3)), (0, %s))" % _N,
        "orientation": "forall(lambda i: mateq(M(result._molecules._rotator, i), "
                       "matmul3(M(old(self._molecules)._rotator, i), qmat(results[i].quat))), (0, %s))" % _N,
        "score_feature": "forall(lambda i: result._molecules._features['score'].arr[i] == results[i].score, (0, %s))" % _N,
        "shift_features": "forall(lambda i: result._molecules._features['align-dz'].arr[i] == results[i].shift[0] * self._scale and "
                          "result._molecules._features['align-dy'].arr[i] == results[i].shift[1] * self._scale and "
                          "result._molecules._features['align-dx'].arr[i] == results[i].shift[2] * self._scale, (0, %s))" % _N,
        "own_features_kept": "forall(lambda i: result._molecules._features.rowid[i] == self._molecules._features.rowid[i] and "
                             "result._molecules._features['f0'].arr[i] == self._molecules._features['f0'].arr[i], (0, %s))" % _N,
        "output_shape": "result._output_shape == shape",
        "frame": "writes_to(self) == 0 and writes_to(self._molecules) == 0 and result is not self",
    }


@contract("acryo.loader._base:LoaderBase._post_align_multi_templates", props=["C01", "C03", "C06"])
class post_align_multi:
    """the multi-template / rotation-search write-back: same pose update and features as _post_align (scale applied to
    the pixel shift) and, in addition, the label column: label of result i, reduced modulo `remainder` when the
    candidates were K rotations x `remainder` templates (template-minor order)"""
    params = dict(self=TLoader(TMolecules(features=["f0"])), results=TAlignResults("self_mole_N"), shape=_SHAPE,
                  remainder=T.OneOf(-1, T.Int(lo=2)), label_name=T.Const("labels"))
    requires = ["forall(lambda i: results[i].label >= 0, (0, %s))" % _N]
    helpers = _H
    imports = NATIVE_IMPORTS
    result = staticmethod(lambda interp, bound: _aligned_loader(interp, bound, [bound["label_name"]]))
    call_ensures = ["count", "position", "orientation", "score_feature", "label_feature"]
    native_call = "args['self']._post_align_multi_templates(args['results'], args['shape'], args['remainder'], args['label_name'])"
    native = {
        "count": "len(result.molecules) == len(self.molecules)",
        "position": "np.allclose(result.molecules.pos, self.molecules.pos + self.scale * np.einsum('nab,nb->na', "
                    "self.molecules.rotator.as_matrix(), np.stack([r.shift for r in results])), atol=1e-3)",
        "orientation": "np.allclose(result.molecules.rotator.as_matrix(), self.molecules.rotator.as_matrix() @ "
                       "_Rotation.from_quat(np.stack([r.quat for r in results])).as_matrix(), atol=1e-4)",
        "score_feature": "np.allclose(result.molecules.features['score'].to_numpy(), [r.score for r in results], atol=1e-5)",
        "shift_features": "np.allclose(result.molecules.features['align-dz'].to_numpy(), [r.shift[0] * self.scale for r in results], atol=1e-4)",
        "label_feature": "list(result.molecules.features['labels']) == [(r.label % remainder if remainder > 1 else r.label) for r in results]",
        "own_features_kept": "list(result.molecules.features['f0']) == list(self.molecules.features['f0'])",
        "frame": "True",
    }
    ensures = {
        "count": "result._molecules._pos.shape[0] == %s" % _N,
        "position": "forall(lambda i: all(result._molecules._pos[i, a] == old(self._molecules)._pos[i, a] + self._scale * "
                    "matvec(M(old(self._molecules)._rotator, i), (results[i].shift[0], results[i].shift[1], results[i].shift[2]))[a] "
                    "for a in range(3)), (0, %s))" % _N,
        "orientation": "forall(lambda i: mateq(M(result._molecules._rotator, i), "
                       "matmul3(M(old(self._molecules)._rotator, i), qmat(results[i].quat))), (0, %s))" % _N,
        "score_feature": "forall(lambda i: result._molecules._features['score'].arr[i] == results[i].score, (0, %s))" % _N,
        "shift_features": "forall(lambda i: result._molecules._features['align-dz'].arr[i] == results[i].shift[0] * self._scale and "
                          "result._molecules._features['align-dy'].arr[i] == results[i].shift[1] * self._scale and "
                          "result._molecules._features['align-dx'].arr[i] == results[i].shift[2] * self._scale, (0, %s))" % _N,
        "label_feature": "forall(lambda i: result._molecules._features['labels'].arr[i] == "
                         "(results[i].label %% remainder if remainder > 1 else results[i].label), (0, %s))" % _N,
        "own_features_kept": "forall(lambda i: result._molecules._features['f0'].arr[i] == self._molecules._features['f0'].arr[i], (0, %s))" % _N,
        "frame": "writes_to(self) == 0 and writes_to(self._molecules) == 0 and result is not self",
    }


# ---------------------------------------------------------------------------
# C03 / C02: per-molecule task construction
_PA = "acryo._utils:prepare_affine"


@contract("acryo.backend._api:Backend.rotated_crop", props=["C03", "C02"])
class rotated_crop:
    """interpolating crop: affine_transform of the block with the given matrix, output shape = `shape`
    (thin wrapper, trusted; exposes its arguments to callers)"""
    trusted = True
    params = dict(self=T.Backend())
    result = lambda interp, bound: fresh_array("subtomogram", 3, "real", shape=tuple(bound["shape"]))
    ensures = {}


@contract("acryo.loader._loader:SubtomogramLoader.construct_loading_tasks", props=["C03", "C02", "C10"])
class construct_loading_tasks:
    """one task per molecule, in molecule order: task i crops around pos_i / scale with orientation R_i, the loader's
    interpolation order and the requested output shape; the declared array shape is the shape the task yields."""
    params = dict(self=TLoader(TMolecules(features=["f0"]), order=1), output_shape=T.Tuple(T.Int(lo=1), T.Int(lo=1), T.Int(lo=1)),
                  backend=T.Const(None))
    helpers = _H
    imports = NATIVE_IMPORTS

    native_call = "args['self'].construct_loading_tasks(args['output_shape'])"
    may_raise = {"SubvolumeOutOfBoundError": "True"}  # a molecule whose window misses the tomogram (clause of prepare_affine)
    native = {"one_task_per_molecule": "len(result) == len(self.molecules)", "task_i_is_molecule_i": "True"}
    ensures = {
        "one_task_per_molecule": "len(result._arrays) == %s" % _N,
        "task_i_is_molecule_i":
            "forall(lambda i: all(called_args_at('prepare_affine', i)['center'][a] == self._molecules._pos[i, a] / self._scale "
            "for a in range(3)) and mateq(M(called_args_at('prepare_affine', i)['rot'], 0), M(self._molecules._rotator, i)) and "
            "called_args_at('prepare_affine', i)['order'] == self._order and "
            "called_args_at('prepare_affine', i)['output_shape'] == output_shape and "
            "called_args_at('prepare_affine', i)['img'] is self._image, (0, %s))" % _N,
        "crop_uses_same_geometry":
            "forall(lambda i: arr_eq(called_args_at('Backend.rotated_crop', i)['subimg'], called_at('prepare_affine', i)[0]) and "
            "arr_eq(called_args_at('Backend.rotated_crop', i)['mtx'], called_at('prepare_affine', i)[1]) and "
            "called_args_at('Backend.rotated_crop', i)['shape'] == output_shape and "
            "called_args_at('Backend.rotated_crop', i)['order'] == self._order, (0, %s))" % _N,
    }


# ---------------------------------------------------------------------------
# the public entry point: loader.align = (one model.align task per molecule) followed by the write-back
from contracts.C10_scheduling import TModelFactory, _MS

_BA = "BaseAlignmentModel.align"


def _replay_loader_align(ob_name, meta, model):
    """public-entry-point replay of loader.align: a probe model (subclass of the case's model class) records what
    every task receives and returns a result that identifies the task; the clauses are evaluated on the real output"""
    import re
    m = re.search(r"alignment_model=(\w+)", ob_name)
    kind = m.group(1) if m else "ZNCCAlignment"
    tuple_ms = "max_shifts=Tuple" in ob_name
    return f"""
import numpy as np, threading
from fractions import Fraction
from scipy.spatial.transform import Rotation
from acryo import SubtomogramLoader, Molecules
import acryo.alignment as _alm
from acryo.alignment._base import AlignmentResult
kind = {kind!r}
def num(k, d):
    v = model.get(k, d)
    try:
        return float(Fraction(str(v)))
    except Exception:
        return float(d)
scale = min(max(num("self_scale", 1.0), 0.25), 4.0)
if {tuple_ms!r}:
    ms = tuple(min(num("max_shifts_%d" % a, 1.0 + a), 6.0) * 1.0 for a in range(3))
    if len(set(ms)) < 3:
        ms = (ms[0], ms[0] + 1.5, ms[0] + 0.5)            # per-axis ranges are told apart
else:
    ms = min(num("max_shifts", 1.5), 6.0)
seen = []; lock = threading.Lock()
class Probe(getattr(_alm, kind)):
    def align(self, img, max_shifts, quaternion=None, pos=None, backend=None):
        z = float(np.asarray(img).mean())
        i = int(round(pos[1] * 1.0)) % 100                      # the task's molecule, from its y position (in pixels)
        shift = np.array([0.25 * i, -0.5 * i, 0.125 * i], np.float32)
        with lock:
            seen.append((i, tuple(float(m) for m in max_shifts), np.array(pos, float), np.array(quaternion, float), z))
        return AlignmentResult(0, shift, np.array([0, 0, 0, 1], np.float32), 0.01 * i)
zz = np.indices((40, 40, 40))[0].astype(np.float32)
n = 4
pos_px = np.array([[10 + 5 * i, i, 20] for i in range(n)], float) + np.array([0, 14, 0])
idx = [int(round(p[1])) for p in pos_px]
mole = Molecules(pos_px * scale, Rotation.random(n, random_state=3), features={{"f0": np.arange(n) * 2.5}})
ld = SubtomogramLoader(zz, mole, order=1, scale=scale)
before = mole.pos.copy()
out = ld.align(np.ones((5, 5, 5), np.float32), max_shifts=ms, alignment_model=Probe)
want_ms = tuple(float(m) / scale for m in (ms if isinstance(ms, tuple) else (ms,) * 3))
ok = len(out.molecules) == n and len(seen) == n
by = {{s[0]: s for s in seen}}
for k, i in enumerate(idx):
    s = by.get(i)
    good = s is not None and np.allclose(s[1], want_ms, atol=1e-6) and np.allclose(s[2], pos_px[k], atol=1e-4) \
        and np.allclose(s[3], mole.quaternion()[k], atol=1e-5) and abs(s[4] - pos_px[k, 0]) < 0.75
    sh = np.array([0.25 * i, -0.5 * i, 0.125 * i])
    moved = np.allclose(out.molecules.pos[k], before[k] + scale * mole.rotator.as_matrix()[k] @ sh, atol=1e-3) \
        and abs(float(out.molecules.features["score"][k]) - 0.01 * i) < 1e-5 \
        and np.allclose(out.molecules.rotator.as_matrix()[k], mole.rotator.as_matrix()[k], atol=1e-5)
    print("molecule", k, ": task got range", None if s is None else np.round(s[1], 3), "(requested", np.round(want_ms, 3), "px)",
          "sub-volume/pose of molecule", k if good else "?", "| written back to row", k if moved else "?")
    ok = ok and good and moved
ok = ok and np.array_equal(ld.molecules.pos, before)
print("clause holds natively (task i = molecule i with the requested range, result i written to row i):", ok)
print("CONFIRMED" if not ok else "NOT-CONFIRMED"); sys.exit(1 if not ok else 0)
"""


@contract("acryo.loader._base:LoaderBase.align", props=["C01", "C03"])
class loader_align:
    """single-template alignment, any number of molecules and all four models: task i aligns sub-volume i (box of the
    model) with the search range max_shifts / scale pixels and molecule i's orientation and pixel position; molecule i
    of the result is moved by the shift and rotation that task i returned (pos_i + scale * M_i s_i, M_i R_i) and carries
    that task's score; the loader itself is not modified"""
    params = dict(self=TLoader(TMolecules(features=["f0"], min_n=1), order=1), template=T.Arr(3, "real"), mask=T.Const(None),
                  max_shifts=T.OneOf(T.Real(lo=0), _MS), alignment_model=TModelFactory(multi_cases=(False,)), backend=T.Const(None))
    helpers = dict(_H, BA=_BA, ms=lambda m, a: m[a] if isinstance(m, tuple) else m)
    replay = staticmethod(_replay_loader_align)
    may_raise = {"SubvolumeOutOfBoundError": "True"}
    ensures = {
        "one_result_per_molecule": "result._molecules._pos.shape[0] == %s" % _N,
        "task_i_searches_the_requested_range":
            "forall(lambda i: all(called_args_at(BA, i)['max_shifts'][a] == ms(max_shifts, a) / self._scale for a in range(3)), (0, %s))" % _N,
        "task_i_is_molecule_i":
            "forall(lambda i: arr_eq(called_args_at(BA, i)['img'], called('construct_loading_tasks')._arrays[i]) and "
            "all(called_args_at(BA, i)['pos'][a] == self._molecules._pos[i, a] / self._scale for a in range(3)), (0, %s))" % _N,
        "molecule_i_moved_by_shift_i":
            "forall(lambda i: all(result._molecules._pos[i, a] == self._molecules._pos[i, a] + self._scale * "
            "matvec(M(self._molecules._rotator, i), (called_at(BA, i).shift[0], called_at(BA, i).shift[1], called_at(BA, i).shift[2]))[a] "
            "for a in range(3)), (0, %s))" % _N,
        # no rotation is searched by these models: the orientation is kept
        "orientation_kept_without_rotation_search":
            "forall(lambda i: mateq(M(result._molecules._rotator, i), M(self._molecules._rotator, i)), (0, %s))" % _N,
        "score_of_task_i":
            "forall(lambda i: result._molecules._features['score'].arr[i] == called_at(BA, i).score, (0, %s))" % _N,
        "frame": "writes_to(self) == 0 and writes_to(self._molecules) == 0 and result is not self",
    }



# ---------------------------------------------------------------------------
# the multi-template / rotation-search entry point (C06 at loader level): candidates are K rotations x T templates,
# flat index k*T + j; molecule i gets the template j and the rotation k of the best candidate of task i
_REPLAY_MULTI = '''
import numpy as np
from scipy import ndimage as ndi
from scipy.spatial.transform import Rotation
from acryo import SubtomogramLoader, Molecules
from acryo.alignment import ZNCCAlignment
from acryo._utils import compose_matrices
rng = np.random.default_rng(5)
box = (13, 13, 13)
zz, yy, xx = np.indices(box)
def blob(c, s):
    return np.exp(-((zz - c[0]) ** 2 + (yy - c[1]) ** 2 + (xx - c[2]) ** 2) / (2 * s * s))
ok = True
_r = lambda *deg: [Rotation.from_euler("z", d, degrees=True) for d in deg]
for T_, rotations in ((3, _r(0, 25)), (3, None), (2, _r(0, 20, -20)), (3, _r(0, 15, -15, 30))):
    templates = []
    for t in range(T_):
        img = np.zeros(box)
        for _ in range(4):
            img += rng.uniform(0.5, 1.5) * blob(rng.uniform(3, 9, size=3), rng.uniform(1.0, 1.6))
        templates.append(img.astype(np.float32))
    model = ZNCCAlignment.with_params(rotations=rotations) if rotations is not None else ZNCCAlignment
    K_ = ZNCCAlignment(templates, rotations=rotations)._n_rotations
    quats = ZNCCAlignment(templates, rotations=rotations).quaternions
    # tomogram: molecule m is template (m % T) in the orientation of searched rotation (m % K)
    n = 6
    tomo = np.zeros((30, 30 * n, 30), np.float32)
    pos = np.array([[15, 15 + 30 * m, 15] for m in range(n)], float)
    for m in range(n):
        rot = Rotation.from_quat(quats[m % K_])
        mtx = compose_matrices(np.array(box) / 2 - 0.5, [rot.inv()])[0]
        sub = ndi.affine_transform(templates[m % T_], mtx, order=3, mode="constant", cval=0.0)
        tomo[9:22, 9 + 30 * m:22 + 30 * m, 9:22] = sub
    ld = SubtomogramLoader(tomo, Molecules(pos), order=1, scale=1.0)
    out = ld.align_multi_templates(templates, max_shifts=(1.0, 1.0, 1.0), alignment_model=model)
    labels = [int(v) for v in out.molecules.features["labels"]]
    want = [m % T_ for m in range(n)]
    rot_ok = all(np.allclose(out.molecules.rotator.as_matrix()[m], Rotation.from_quat(quats[m % K_]).as_matrix(), atol=1e-4)
                 for m in range(n))
    print("T=%d templates, K=%d rotations: labels %s, templates pasted %s; orientation of molecule m is searched rotation m %% K: %s"
          % (T_, K_, labels, want, rot_ok))
    ok = ok and labels == want and rot_ok
print("clause holds natively (label / rotation of molecule i = template / rotation of its best candidate):", ok)
print("CONFIRMED" if not ok else "NOT-CONFIRMED"); sys.exit(1 if not ok else 0)
'''

_TEMPLATES = T.OneOf(T.List(T.Arr(3, "real"), T.Arr(3, "real")), T.List(T.Arr(3, "real"), T.Arr(3, "real"), T.Arr(3, "real")))


def quat_of(model, k):
    q = model.attrs["quaternions"]
    return tuple(q[k, c] for c in range(4))


@contract("acryo.loader._base:LoaderBase.align_multi_templates", props=["C06", "C01", "C03"])
class loader_align_multi:
    """T templates (2 or 3) and any number K of searched rotations, all four models: task i aligns sub-volume i; the
    label written to row i is the template index j = c % T of task i's best candidate c, the orientation of row i is
    the molecule's composed with searched rotation k = c // T, position / score as for `align`"""
    params = dict(self=TLoader(TMolecules(features=["f0"], min_n=1), order=1), templates=_TEMPLATES, mask=T.Const(None),
                  max_shifts=_MS, alignment_model=TModelFactory(multi_cases=(True,)), backend=T.Const(None),
                  label_name=T.Const("labels"))
    requires = ["all(templates[j].shape[a] == templates[0].shape[a] for j in range(len(templates)) for a in range(3))"]
    helpers = dict(_H, BA=_BA, quat_of=quat_of)
    # the decoding clauses (label, rotation) are C06's; C01 / C03 take the pose update and the row pairing
    only = {"C01": ["one_result_per_molecule", "task_i_searches_the_requested_range", "molecule_i_moved_by_shift_i",
                    "score_of_task_i", "frame"],
            "C03": ["one_result_per_molecule", "task_i_is_molecule_i", "molecule_i_moved_by_shift_i", "score_of_task_i",
                    "label_is_the_template_of_the_best_candidate"]}
    replay = staticmethod(lambda ob, meta, model: _REPLAY_MULTI)
    may_raise = {"SubvolumeOutOfBoundError": "True"}
    ensures = {
        "one_result_per_molecule": "result._molecules._pos.shape[0] == %s" % _N,
        "label_is_the_template_of_the_best_candidate":
            "forall(lambda i: result._molecules._features['labels'].arr[i] == called_at(BA, i).label %% len(templates), (0, %s))" % _N,
        "rotation_is_the_rotation_of_the_best_candidate":
            "forall(lambda i: mateq(M(result._molecules._rotator, i), matmul3(M(self._molecules._rotator, i), "
            "qmat(quat_of(called_args_at(BA, i)['self'], called_at(BA, i).label // len(templates))))), (0, %s))" % _N,
        "task_i_is_molecule_i":
            "forall(lambda i: arr_eq(called_args_at(BA, i)['img'], called('construct_loading_tasks')._arrays[i]) and "
            "all(called_args_at(BA, i)['pos'][a] == self._molecules._pos[i, a] / self._scale for a in range(3)), (0, %s))" % _N,
        "task_i_searches_the_requested_range":
            "forall(lambda i: all(called_args_at(BA, i)['max_shifts'][a] == max_shifts[a] / self._scale for a in range(3)), (0, %s))" % _N,
        "molecule_i_moved_by_shift_i":
            "forall(lambda i: all(result._molecules._pos[i, a] == self._molecules._pos[i, a] + self._scale * "
            "matvec(M(self._molecules._rotator, i), (called_at(BA, i).shift[0], called_at(BA, i).shift[1], called_at(BA, i).shift[2]))[a] "
            "for a in range(3)), (0, %s))" % _N,
        "score_of_task_i":
            "forall(lambda i: result._molecules._features['score'].arr[i] == called_at(BA, i).score, (0, %s))" % _N,
        "frame": "writes_to(self) == 0 and writes_to(self._molecules) == 0 and result is not self",
    }
