"""C03 for the batch loader: the per-tomogram loaders are visited in an order in which their molecules, concatenated,
are the batch's molecules in their own order -- otherwise task j of BatchLoader.construct_loading_tasks is not
molecule j while every consumer (alignment kwargs, result write-back, features) pairs by position."""
import z3
from pyvc.contract import contract, T, TSpec
from pyvc import values as V
from pyvc import symex as X
from contracts.common import TBatchLoader, _TBatchLoaderCase, NATIVE_IMPORTS


class TAccessor(TSpec):
    """LoaderAccessor of a batch loader with k tomograms (ids 0..k-1) and N molecules carrying an image-id each"""

    def __init__(self, ks=(1, 2)):
        self.ks = ks

    def cases(self):
        return [_TAccessorCase(k) for k in self.ks]


class _TAccessorCase(TSpec):
    def __init__(self, k):
        self.k, self.value = k, f"{k} image(s)"

    def fresh(self, name, path):
        interp = path.interp
        batch = _TBatchLoaderCase(self.k).fresh(name + "_batch", path)

        def ref():
            return batch
        ref._pyvc_native = True
        acc = X.Obj(interp.resolve("acryo.loader._batch:LoaderAccessor"), {"_loader": ref})
        acc.attrs["_ghost_batch"] = batch
        return acc

    def src(self, name, model):
        return "None"


def ids(acc):
    return acc.attrs["_ghost_batch"].attrs["_molecules"].attrs["_features"].cols["image-id"]


def n_mol(acc):
    return acc.attrs["_ghost_batch"].attrs["_molecules"].attrs["_pos"].shape[0]


def n_images(acc):
    return len(acc.attrs["_ghost_batch"].attrs["_images"])


def src_row(loader, j):
    """ghost: the row of the batch's molecule table that molecule j of a per-tomogram loader came from"""
    return loader.attrs["_molecules"].attrs["_features"].rowid.at((j,))


def n_of_loader(loader):
    return loader.attrs["_molecules"].attrs["_pos"].shape[0]


_REPLAY = '''
import numpy as np
from acryo import BatchLoader, Molecules
t0 = np.zeros((20, 20, 20), np.float32) + 1.0
t1 = np.zeros((20, 20, 20), np.float32) + 2.0
b = BatchLoader(order=0, scale=1.0, output_shape=(3, 3, 3))
b.add_tomogram(t0, Molecules(np.full((2, 3), 10.0)), image_id=0)
b.add_tomogram(t1, Molecules(np.full((2, 3), 10.0)), image_id=1)
ok = True
for order in ([0, 1, 2, 3], [2, 3, 0, 1]):          # molecules of a tomogram contiguous, tomograms in either order
    bb = b.replace(molecules=b.molecules.subset(order))
    want = [1.0 + float(i) for i in bb.molecules.features["image-id"].to_list()]
    got = [float(a.compute().mean()) for a in bb.construct_loading_tasks()]
    print("image ids", bb.molecules.features["image-id"].to_list(), ": task j loads from tomogram", [int(g) - 1 for g in got],
          "| molecule j belongs to tomogram", [int(w) - 1 for w in want])
    ok = ok and got == want
print("clause holds natively (task j is molecule j):", ok)
print("CONFIRMED" if not ok else "NOT-CONFIRMED"); sys.exit(1 if not ok else 0)
'''


@contract("acryo.loader._batch:LoaderAccessor.__iter__", props=["C03"])
class accessor_iter:
    """`molecule_order`: the loaders' molecules, taken loader after loader, are rows 0, 1, 2, ... of the batch's table
    (stated locally: the first loader starts at row 0, rows inside a loader are consecutive, each loader starts where
    the previous one ended); `own_tomogram`: every molecule of loader g has the image id of the loader's first one."""
    params = dict(self=TAccessor())
    requires = ["forall(lambda i: 0 <= ids(self)[i] and ids(self)[i] < n_images(self) and "
                "ids(self)[i] == floor(ids(self)[i]), (0, n_mol(self)))"]
    helpers = dict(ids=ids, n_mol=n_mol, n_images=n_images, src_row=src_row, n_of_loader=n_of_loader, floor=V.floor_)
    replay = staticmethod(lambda ob, meta, model: _REPLAY)
    ensures = {
        "starts_at_first_molecule": "len(result) == 0 or src_row(result[0], 0) == 0",
        "molecule_order_inside_a_loader":
            "forall(lambda g, j: src_row(result[g], j + 1) == src_row(result[g], j) + 1, "
            "(0, len(result)), (0, n_of_loader(result[g]) - 1))" if False else
            "forall(lambda g: forall(lambda j: src_row(result[g], j + 1) == src_row(result[g], j) + 1, "
            "(0, n_of_loader(result[g]) - 1)), (0, len(result)))",
        "molecule_order_across_loaders":
            "forall(lambda g: src_row(result[g + 1], 0) == src_row(result[g], n_of_loader(result[g]) - 1) + 1, (0, len(result) - 1))",
        "own_tomogram":
            "forall(lambda g: forall(lambda j: ids(self)[src_row(result[g], j)] == ids(self)[src_row(result[g], 0)], "
            "(0, n_of_loader(result[g]))), (0, len(result)))",
    }


# ---------------------------------------------------------------------------
# registration: a tomogram added to a batch never takes over molecules registered earlier
class TRegistry(TSpec):
    """BatchLoader whose registry holds k tomograms under arbitrary distinct non-negative integer ids (what is left
    after filtering molecules / replacing loaders: the ids need not be 0..k-1)"""

    def __init__(self, ks=(0, 1, 2)):
        self.ks = ks

    def cases(self):
        return [_TRegistryCase(k) for k in self.ks]


class _TRegistryCase(TSpec):
    def __init__(self, k):
        self.k, self.value = k, f"{k} registered"

    def fresh(self, name, path):
        interp = path.interp
        b = _TBatchLoaderCase(max(self.k, 1)).fresh(name, path)
        keys = [V.Sym(z3.Int(f"{name}_id{i}")) for i in range(self.k)]
        for i, k in enumerate(keys):
            path.assume(k >= 0)
            for k2 in keys[:i]:
                path.assume(V.Sym(k.t != k2.t))
        old = list(b.attrs["_images"].values())
        b.attrs["_images"] = {k: old[i] for i, k in enumerate(keys)}
        b.attrs["_ghost_keys"] = list(keys)
        b.attrs["_ghost_images"] = list(b.attrs["_images"].values())
        return b

    def src(self, name, model):
        ids = [int(str(model.get(f"{name}_id{i}", i + 2))) for i in range(self.k)]
        return f"_make_registry({ids!r})"


def registered_before(b, key):
    """ghost: `key` was one of the ids registered when the call started"""
    ks = b.attrs["_ghost_keys"]
    return V.sor(*[V.compare("==", key, k) for k in ks]) if ks else False


def kept(b):
    """every tomogram registered before is still registered under its id, the same array"""
    out = []
    for k, img in zip(b.attrs["_ghost_keys"], b.attrs["_ghost_images"]):
        hit = [v for kk, v in b.attrs["_images"].items() if kk is k]
        out.append(len(hit) == 1 and hit[0] is img)
    return all(out)


def registered_as(b, key, image):
    """the registry maps `key` to exactly this array"""
    terms = []
    for kk, v in b.attrs["_images"].items():
        if v is image:
            terms.append(True if kk is key else V.compare("==", key, kk))
    if any(t is True for t in terms):
        return True
    return V.sor(*terms) if terms else False


def new_keys(b):
    return [k for k in b.attrs["_images"] if not any(k is k0 for k0 in b.attrs["_ghost_keys"])]


def new_id(b):
    ks = new_keys(b)
    return ks[0] if len(ks) == 1 else V.fresh("no_single_new_id", "int")


_REPLAY_REG = '''
import numpy as np
from acryo import BatchLoader, Molecules
ok = True
for ids in ([0, 1], [2, 3], [1, 2], [3, 4, 5], [0, 2]):
    b = BatchLoader(order=0, scale=1.0, output_shape=(3, 3, 3))
    for i in ids:
        b.add_tomogram(np.full((12, 12, 12), 10.0 * (i + 1), np.float32), Molecules(np.full((2, 3), 6.0)), image_id=i)
    before = dict(b.images)
    b.add_tomogram(np.full((12, 12, 12), -1.0, np.float32), Molecules(np.full((1, 3), 6.0)))          # automatic id
    got = [float(a.compute().mean()) for a in b.construct_loading_tasks()]
    want = [10.0 * (i + 1) for i in ids for _ in range(2)] + [-1.0]
    same = all(k in b.images and b.images[k] is v for k, v in before.items()) and len(b.images) == len(before) + 1
    print("registered ids", ids, "+ one automatic: ids now", sorted(b.images), "| earlier tomograms kept:", same,
          "| molecules load from", got)
    ok = ok and same and got == want
print("clause holds natively (a new tomogram gets an unused id; earlier molecules keep their tomogram):", ok)
print("CONFIRMED" if not ok else "NOT-CONFIRMED"); sys.exit(1 if not ok else 0)
'''


@contract("acryo.loader._batch:BatchLoader.add_tomogram", props=["C03"])
class add_tomogram:
    """the tomogram is registered under an id no earlier tomogram has (generated when none is given), every earlier
    tomogram stays registered under its id, the earlier molecules keep their rows and image ids, and the new molecules
    follow them, all tagged with the new id; the caller's molecules object is not modified.
    `earlier_tomograms_kept` fails for an explicit id that is already registered (the earlier tomogram is silently
    replaced and its molecules load from the new one): recorded known finding."""
    params = dict(self=TRegistry(), image=T.Arr(3, "real"), molecules=__import__("contracts.common", fromlist=["TMolecules"]).TMolecules(features=["f0"]),
                  image_id=T.OneOf(None, T.Int(lo=0)))
    requires = [# representation invariant of a batch: every molecule's image id is a registered id
                "forall(lambda i: registered_before(self, ids(self)[i]), (0, self._molecules._pos.shape[0]))"]
    helpers = dict(registered_before=registered_before, registered_as=registered_as, kept=kept, new_keys=new_keys, new_id=new_id,
                   rid=lambda b, given: given if given is not None else new_id(b), n_before=lambda b: len(b.attrs["_ghost_keys"]), ids=lambda b: b.attrs["_molecules"].attrs["_features"].cols["image-id"])
    replay = staticmethod(lambda ob, meta, model: _REPLAY_REG)
    ensures = {
        "registered_under_its_id": "registered_as(self, rid(self, image_id), image)",
        "generated_id_was_unused": "image_id is not None or (len(new_keys(self)) == 1 and not registered_before(self, new_id(self)))",
        "earlier_tomograms_kept": "kept(self) and len(self._images) == n_before(self) + 1",
        "earlier_molecules_keep_their_rows":
            "self._molecules._pos.shape[0] == old(self)._molecules._pos.shape[0] + molecules._pos.shape[0] and "
            "forall(lambda i: ids(self)[i] == old(self)._molecules._features.cols['image-id'][i] and "
            "all(self._molecules._pos[i, a] == old(self)._molecules._pos[i, a] for a in range(3)), (0, old(self)._molecules._pos.shape[0]))",
        "new_molecules_follow_with_the_new_id":
            "forall(lambda j: ids(self)[old(self)._molecules._pos.shape[0] + j] == rid(self, image_id) and "
            "all(self._molecules._pos[old(self)._molecules._pos.shape[0] + j, a] == molecules._pos[j, a] for a in range(3)), "
            "(0, molecules._pos.shape[0]))",
        "caller_molecules_untouched": "writes_to(molecules) == 0",
    }
