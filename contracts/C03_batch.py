"""C03 for the batch loader: the per-tomogram loaders are visited in an order in which their molecules, concatenated,
are the batch's molecules in their own order -- otherwise task j of BatchLoader.construct_loading_tasks is not
molecule j while every consumer (alignment kwargs, result write-back, features) pairs by position."""
import z3
from pyvc.contract import contract, T, TSpec
from pyvc import values as V
from pyvc import symex as X
from contracts.common import TBatchLoader, _TBatchLoaderCase, NATIVE_IMPORTS


class TAccessor(TSpec):
    """LoaderAccessor of a batch loader with k tomograms (ids 0..k-1) and N molecules carrying an image-id each"""

    def __init__(self, ks=(1, 2)):
        self.ks = ks

    def cases(self):
        return [_TAccessorCase(k) for k in self.ks]


class _TAccessorCase(TSpec):
    def __init__(self, k):
        self.k, self.value = k, f"{k} image(s)"

    def fresh(self, name, path):
        interp = path.interp
        batch = _TBatchLoaderCase(self.k).fresh(name + "_batch", path)

        def ref():
            return batch
        ref._pyvc_native = True
        acc = X.Obj(interp.resolve("acryo.loader._batch:LoaderAccessor"), {"_loader": ref})
        acc.attrs["_ghost_batch"] = batch
        return acc

    def src(self, name, model):
        return "None"


def ids(acc):
    return acc.attrs["_ghost_batch"].attrs["_molecules"].attrs["_features"].cols["image-id"]


def n_mol(acc):
    return acc.attrs["_ghost_batch"].attrs["_molecules"].attrs["_pos"].shape[0]


def n_images(acc):
    return len(acc.attrs["_ghost_batch"].attrs["_images"])


def src_row(loader, j):
    """ghost: the row of the batch's molecule table that molecule j of a per-tomogram loader came from"""
    return loader.attrs["_molecules"].attrs["_features"].rowid.at((j,))


def n_of_loader(loader):
    return loader.attrs["_molecules"].attrs["_pos"].shape[0]


_REPLAY = '''
import numpy as np
from acryo import BatchLoader, Molecules
t0 = np.zeros((20, 20, 20), np.float32) + 1.0
t1 = np.zeros((20, 20, 20), np.float32) + 2.0
b = BatchLoader(order=0, scale=1.0, output_shape=(3, 3, 3))
b.add_tomogram(t0, Molecules(np.full((2, 3), 10.0)), image_id=0)
b.add_tomogram(t1, Molecules(np.full((2, 3), 10.0)), image_id=1)
ok = True
for order in ([0, 1, 2, 3], [2, 3, 0, 1]):          # molecules of a tomogram contiguous, tomograms in either order
    bb = b.replace(molecules=b.molecules.subset(order))
    want = [1.0 + float(i) for i in bb.molecules.features["image-id"].to_list()]
    got = [float(a.compute().mean()) for a in bb.construct_loading_tasks()]
    print("image ids", bb.molecules.features["image-id"].to_list(), ": task j loads from tomogram", [int(g) - 1 for g in got],
          "| molecule j belongs to tomogram", [int(w) - 1 for w in want])
    ok = ok and got == want
print("clause holds natively (task j is molecule j):", ok)
print("CONFIRMED" if not ok else "NOT-CONFIRMED"); sys.exit(1 if not ok else 0)
'''


@contract("acryo.loader._batch:LoaderAccessor.__iter__", props=["C03"])
class accessor_iter:
    """`molecule_order`: the loaders' molecules, taken loader after loader, are rows 0, 1, 2, ... of the batch's table
    (stated locally: the first loader starts at row 0, rows inside a loader are consecutive, each loader starts where
    the previous one ended); `own_tomogram`: every molecule of loader g has the image id of the loader's first one."""
    params = dict(self=TAccessor())
    requires = ["forall(lambda i: 0 <= ids(self)[i] and ids(self)[i] < n_images(self) and "
                "ids(self)[i] == floor(ids(self)[i]), (0, n_mol(self)))"]
    helpers = dict(ids=ids, n_mol=n_mol, n_images=n_images, src_row=src_row, n_of_loader=n_of_loader, floor=V.floor_)
    replay = staticmethod(lambda ob, meta, model: _REPLAY)
    ensures = {
        "starts_at_first_molecule": "len(result) == 0 or src_row(result[0], 0) == 0",
        "molecule_order_inside_a_loader":
            "forall(lambda g, j: src_row(result[g], j + 1) == src_row(result[g], j) + 1, "
            "(0, len(result)), (0, n_of_loader(result[g]) - 1))" if False else
            "forall(lambda g: forall(lambda j: src_row(result[g], j + 1) == src_row(result[g], j) + 1, "
            "(0, n_of_loader(result[g]) - 1)), (0, len(result)))",
        "molecule_order_across_loaders":
            "forall(lambda g: src_row(result[g + 1], 0) == src_row(result[g], n_of_loader(result[g]) - 1) + 1, (0, len(result) - 1))",
        "own_tomogram":
            "forall(lambda g: forall(lambda j: ids(self)[src_row(result[g], j)] == ids(self)[src_row(result[g], 0)], "
            "(0, n_of_loader(result[g]))), (0, len(result)))",
    }
