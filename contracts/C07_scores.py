"""C07: correlation scores mean what they say -- the part a contract decides: WHICH arrays are correlated and with which
formula.

ncc(a, b) is sum(a*b) / sqrt(sum(a*a) * sum(b*b)); zncc(a, b) is the same on the mean-centred images (Pearson
correlation); the ZNCC / NCC models score the inverse transforms of `wedge * spectrum` of the sub-volume and of the
template; BaseAlignmentModel.score feeds them the masked, pre-transformed (low-pass) sub-volume and the cached
pre-transformed template.  Sums over a symbolic number of voxels are uninterpreted values whose summand is recorded as
ghost state; range [-1, 1] (Cauchy-Schwarz over the voxels), the invariances under a*x+b and the landscape/score
agreement need sum / convolution algebra that is not built: they are not claimed (DESIGN.md, limits)."""
import z3
from pyvc.contract import contract, T, fresh_array
from pyvc import values as V
from pyvc import stubs as S
from pyvc import arrays as A
from pyvc.arrays import SArr

_IMG = T.Arr(3, "real")


def total(expected):
    """ghost: the value of the full sum, recorded on this path, whose summand equals `expected` voxel by voxel (syntactic
    equality at a generic index); an unconstrained value when the code never summed that array"""
    e = A.from_nested(expected)
    probe = tuple(V.Sym(z3.Int(f"probe!t{k}")) for k in range(e.ndim))
    want = e.at(probe)
    for (r, a, ax) in S.GHOST.get("sum", []):
        if ax is not None or not isinstance(a, SArr) or a.ndim != e.ndim:
            continue
        got = a.at(probe)
        d = V.arith("-", got, want)
        if (V.is_sym(d) and z3.is_rational_value(z3.simplify(d.t)) and z3.simplify(d.t).as_fraction() == 0) or \
                (not V.is_sym(d) and d == 0):
            return r
    return V.fresh("no_such_sum", "real")


def size(a):
    n = 1
    for s in a.shape:
        n = V.arith("*", n, s)
    return n


def centred(a):
    return a - total(a) / size(a)


from pyvc.stubs import _sqrt
_H = dict(total=total, size=size, centred=centred, sqrt=_sqrt)


def _n_ncc(a, b):
    import numpy as np
    a, b = np.asarray(a, dtype=np.float64), np.asarray(b, dtype=np.float64)
    return float((a * b).sum() / np.sqrt((a * a).sum() * (b * b).sum()))


_NH = dict(_n_ncc=_n_ncc)


@contract("acryo.backend._zncc:ncc", props=["C07"])
class ncc:
    """uncentred normalised correlation of exactly the two images passed"""
    params = dict(img0=_IMG, img1=_IMG, backend=T.Backend())
    requires = ["all(img0.shape[a] == img1.shape[a] for a in range(3))"]
    helpers = _H
    native_helpers = _NH
    native_call = "float(_mod.ncc(args['img0'], args['img1'] + args['img0'] * 0.5, _Backend()))"
    native = {"formula": "abs(result - _n_ncc(img0, img1 + img0 * 0.5)) < 1e-5"}
    ignore = ["safety.div"]      # numpy scalar division: an all-zero image gives nan, never an exception
    inline = True       # callers are verified through the body (their clauses talk about the sums it forms)
    ensures = {"formula": "result == total(img0 * img1) / sqrt(total(img0 * img0) * total(img1 * img1))"}


@contract("acryo.backend._zncc:zncc", props=["C07"])
class zncc:
    """Pearson correlation: ncc of the two images after subtracting each image's own mean"""
    params = dict(img0=_IMG, img1=_IMG, backend=T.Backend())
    requires = ["all(img0.shape[a] == img1.shape[a] for a in range(3))"]
    helpers = _H
    native_helpers = dict(_NH, _pearson=lambda a, b: float(__import__("numpy").corrcoef(a.ravel(), b.ravel())[0, 1]))
    native_call = "float(_mod.zncc(args['img0'], args['img1'] + args['img0'] * 0.5, _Backend()))"
    native = {"pearson": "abs(result - _pearson(img0, img1 + img0 * 0.5)) < 1e-5"}
    ignore = ["safety.div"]
    inline = True
    ensures = {"pearson": "result == total(centred(img0) * centred(img1)) / "
                          "sqrt(total(centred(img0) * centred(img0)) * total(centred(img1) * centred(img1)))"}


# ---------------------------------------------------------------------------
# what the models correlate: mask -> low-pass (pre_transform) -> wedge -> inverse transform, on both sides
from contracts.C10_scheduling import TSharedModel, TCachedEntry, _inline

_LP = "acryo.backend._bandpass:lowpass_filter_ft"


def ifft(k):
    """ghost: result of the k-th inverse transform on this path"""
    hits = [(r, a) for (op, r, a, s_) in S.GHOST["fft"] if op == "ifftn"]
    return hits[k][0] if k < len(hits) else fresh_array("no_such_transform", 3, "real")


def ifft_arg(k):
    hits = [(r, a) for (op, r, a, s_) in S.GHOST["fft"] if op == "ifftn"]
    return A.from_nested(hits[k][1]) if k < len(hits) else fresh_array("no_such_transform", 3, "real")


WEDGE = "acryo.tilt._single:SingleAxis.create_mask"


def wedge_at(model, i, j, k):
    """value of the model's missing-wedge mask at spectrum bin (i, j, k): 1 for the no-wedge model, the mask the
    tilt model's create_mask returned on this path otherwise (its geometry is C08's subject)"""
    if model.attrs["_tilt_model"].cls.name == "NoWedge":
        return 1
    for (key, bound, res, loops) in reversed(_CALL_LOG[0]):
        if key == WEDGE:
            v = res.at((i, j, k))
            return V.ite(v, 1, 0) if V.is_sym(v) and v.kind == "bool" else v
    return V.fresh("no_wedge_call", "real")


class _LogView:
    """the interpreter's log of modular calls on the current path (read when a clause is evaluated)"""

    def __init__(self, interp):
        self.interp = interp

    def __iter__(self):
        return iter(self.interp.call_log)

    def __reversed__(self):
        return reversed(self.interp.call_log)


_CALL_LOG = [[]]


def cached(model, k):
    return list(model.attrs["_template_mask_cache"].attrs["_dict"].values())[0][k]


def _replay_score(ob_name, meta, model):
    kind = "NCCAlignment" if "self=NCCAlignment" in ob_name else "ZNCCAlignment"
    return f'''
import numpy as np
from scipy.spatial.transform import Rotation
import acryo.alignment as _alm
from acryo._utils import lowpass_filter_ft
kind = {kind!r}
rng = np.random.default_rng(11)
shape = (10, 11, 12)
zz, yy, xx = np.indices(shape)
tmpl = (np.exp(-((zz - 4) ** 2 + (yy - 5) ** 2 + (xx - 6) ** 2) / 5.0) + 0.1 * rng.normal(size=shape)).astype(np.float32)
mask = (((zz - 4.5) ** 2 + (yy - 5) ** 2 + (xx - 5.5) ** 2) < 20).astype(np.float32) * 0.5 + 0.5     # soft-ish mask
img = (0.7 * tmpl + 0.4 * rng.normal(size=shape)).astype(np.float32)
cutoff = 0.3
ok = True
for tilt in (None, (-50, 40)):
    m = getattr(_alm, kind)(tmpl, mask, cutoff=cutoff, tilt=tilt)
    quat = Rotation.from_rotvec([0.3, -0.5, 0.2]).as_quat()
    got = float(m.score(img, quat, np.zeros(3)))
    wedge = np.asarray(m._tilt_model.create_mask(Rotation.from_quat(quat), shape))      # geometry of the wedge: C08
    a = np.fft.ifftn(lowpass_filter_ft(img * mask, cutoff) * wedge).real.astype(np.float64)
    b = np.fft.ifftn(lowpass_filter_ft(tmpl * mask, cutoff) * wedge).real.astype(np.float64)
    if kind == "ZNCCAlignment":
        a, b = a - a.mean(), b - b.mean()
    want = float((a * b).sum() / np.sqrt((a * a).sum() * (b * b).sum()))
    print(kind, "tilt", tilt, "score:", got, "| correlation of the masked, low-passed, wedge-masked images:", want)
    ok = ok and abs(got - want) < 1e-4
print("clause holds natively:", ok)
print("CONFIRMED" if not ok else "NOT-CONFIRMED"); sys.exit(1 if not ok else 0)
'''


@contract("acryo.alignment._base:BaseAlignmentModel.score", props=["C07"])
class model_score:
    """ZNCC (NCC) score = Pearson (uncentred) correlation of the inverse transforms of wedge * lowpass(img * mask) and
    wedge * cached template, the cached template being the model's pre-transformed masked template"""
    params = dict(self=T.OneOf(TSharedModel(kinds=("ZNCCAlignment", "NCCAlignment")),
                               TSharedModel(kinds=("ZNCCAlignment", "NCCAlignment"), wedge="single")), img=_IMG,
                  quaternion=T.Arr(1, "real", shape=(4,)), pos=T.Arr(1, "real", shape=(3,)), backend=T.Const(None))
    requires = ["all(img.shape[a] == self._template.shape[a] for a in range(3))"]
    helpers = dict(_H, ifft=ifft, ifft_arg=ifft_arg, cached=cached, LP=_LP, kind=lambda o: o.cls.name, wedge=lambda m, i, j, k: wedge_at(m, i, j, k))
    ignore = ["safety.div"]
    replay = staticmethod(_replay_score)
    @staticmethod
    def setup(interp):
        interp.call_hooks["acryo.alignment._base:RotationImplemented._get_template_and_mask_input"] = \
            _inline("acryo.alignment._base:RotationImplemented._get_template_and_mask_input")
        _CALL_LOG[0] = _LogView(interp)
    ensures = {
        "correlation_formula":
            "result == (total(centred(ifft(0)) * centred(ifft(1))) / sqrt(total(centred(ifft(0)) * centred(ifft(0))) * "
            "total(centred(ifft(1)) * centred(ifft(1))))) if kind(self) == 'ZNCCAlignment' else "
            "result == total(ifft(0) * ifft(1)) / sqrt(total(ifft(0) * ifft(0)) * total(ifft(1) * ifft(1)))",
        "subvolume_is_masked_then_filtered":
            "forall(lambda i, j, k: called_args(LP)['img'][i, j, k] == img[i, j, k] * cached(self, 1)[i, j, k] and "
            "ifft_arg(0)[i, j, k] == called(LP)[i, j, k] * wedge(self, i, j, k), (0, img.shape[0]), (0, img.shape[1]), (0, img.shape[2])) and "
            "called_args(LP)['cutoff'] == self._cutoff",
        "template_is_the_cached_one":
            "forall(lambda i, j, k: ifft_arg(1)[i, j, k] == cached(self, 0)[i, j, k] * wedge(self, i, j, k), "
            "(0, img.shape[0]), (0, img.shape[1]), (0, img.shape[2]))",
    }
