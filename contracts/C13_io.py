"""C13: saved molecules reload unchanged.

to_file / from_file choose the format from the suffix with the same rule (spec function `fmt_of_suffix`); what is
written is the data-frame view of the molecules (C12: to_dataframe, row i = molecule i, columns z y x zvec yvec xvec +
features); what is read back goes through from_dataframe (row i -> molecule i).  The polars writers / readers are a
trusted inverse pair (pyvc/frames.py): Parquet exact, CSV rounded to float_precision decimals.  float32 storage of the
rotation vector is treated as exact real arithmetic (DESIGN.md, assumptions)."""
from pyvc.contract import contract, T, TSpec, _mget
from pyvc import values as V
from pyvc import frames as F
from contracts.common import TMolecules, NATIVE_IMPORTS
from contracts.C12_table import (_HD, _NHD, _IMPORTS, _MOL, _MOL0, TFrame, frame_row_is, mol_row_is, n_of, lengths_agree,
                                 feature_names, rv_matrix, _native_frame_rows, _native_mol_rows, _native_invariant)
from contracts.C11_poses import M, mateq

_PATHS = T.OneOf("m.csv", "m.pq", "m.parquet", "m.txt", "m")


def fmt_of_suffix(path):
    """the one dispatch rule both directions must follow: .pq / .parquet -> Parquet, anything else -> CSV"""
    import os
    return "parquet" if os.path.splitext(str(path))[1] in (".pq", ".parquet") else "csv"


def written(path):
    """ghost: (format, frame, float_precision) stored under the path on this execution path"""
    return F.FS.get(str(path), (None, None, None, {}))


_H = dict(_HD, fmt_of_suffix=fmt_of_suffix, written=written)


def _native_written(path):
    """what the real code left on disk: (format by content, frame read back with the matching reader)"""
    import polars as pl
    with open(path, "rb") as f:
        magic = f.read(4)
    if magic == b"PAR1":
        return ("parquet", pl.read_parquet(path), None, {})
    return ("csv", pl.read_csv(path), None, {})


def _native_close_frame(df, mol, tol):
    import numpy as np
    from scipy.spatial.transform import Rotation
    n = len(mol)
    ok = df.shape[0] == n and df.columns == ["z", "y", "x", "zvec", "yvec", "xvec"] + mol.features.columns
    if n:
        ok = ok and np.allclose(df.select(["z", "y", "x"]).to_numpy(), mol.pos, atol=tol, rtol=0)
        ok = ok and np.allclose(df.select(["zvec", "yvec", "xvec"]).to_numpy(), mol.rotvec().astype(np.float32), atol=tol, rtol=0)
    for c in mol.features.columns:
        # features: exact values and dtypes for the binary format, CSV text within the tolerance
        if not ok:
            break
        if tol == 0:
            ok = df[c].dtype == mol.features[c].dtype and df[c].to_list() == mol.features[c].to_list()
        elif df[c].dtype.is_numeric():
            ok = bool(np.allclose(df[c].to_numpy(), mol.features[c].to_numpy(), atol=tol, rtol=0))
        else:
            ok = df[c].to_list() == mol.features[c].to_list()
    return bool(ok)


def _native_csv_decimals(path):
    """largest number of decimals of any number in the CSV text (None: no data rows)"""
    with open(path) as f:
        lines = f.read().splitlines()[1:]
    best = None
    for ln in lines:
        for tok in ln.split(","):
            if "." in tok:
                try:
                    float(tok)
                except ValueError:
                    continue
                best = max(best or 0, len(tok.split(".")[1]))
    return best


_NH = dict(_NHD, _native_csv_decimals=_native_csv_decimals, fmt_of_suffix=fmt_of_suffix, written=_native_written, _native_close_frame=_native_close_frame)
def tmp_path(name):
    """a per-process scratch location for the files a replay writes"""
    import os, tempfile
    d = os.path.join(tempfile.gettempdir(), "pyvc_c13_%d" % os.getpid())
    os.makedirs(d, exist_ok=True)
    return os.path.join(d, name)


_NH["tmp_path"] = tmp_path
_TMP = "\nfrom contracts.C13_io import tmp_path\nimport atexit, shutil, os\natexit.register(lambda: shutil.rmtree(os.path.dirname(tmp_path('x')), ignore_errors=True))\n"


@contract("acryo.molecules.core:Molecules.to_file", props=["C13"])
class to_file:
    """the suffix selects the format (the same rule as from_file) and the complete table is written: row i = molecule i"""
    params = dict(self=T.OneOf(_MOL, _MOL0), save_path=_PATHS)
    requires = ["lengths_agree(self)"]
    helpers = _H
    native_helpers = _NH
    imports = _IMPORTS + _TMP
    native_call = "args['self'].to_file(tmp_path(args['save_path']))"
    native = {"format_by_suffix": "written(tmp_path(save_path))[0] == fmt_of_suffix(save_path)",
              "complete_table": "_native_close_frame(written(tmp_path(save_path))[1], self, "
                                "0 if fmt_of_suffix(save_path) == 'parquet' else 1e-4)",
              "default_precision": "fmt_of_suffix(save_path) == 'parquet' or _native_csv_decimals(tmp_path(save_path)) in (None, 4)"}
    ensures = {
        "format_by_suffix": "written(save_path)[0] == fmt_of_suffix(save_path)",
        "complete_table": "written(save_path)[1].n == n_of(self) and list(written(save_path)[1].cols) == CSV + feature_names(self) and "
                          "forall(lambda i: frame_row_is(written(save_path)[1], i, self, i), (0, n_of(self)))",
        "default_precision": "fmt_of_suffix(save_path) == 'parquet' or written(save_path)[2] == 4",
    }


@contract("acryo.molecules.core:Molecules.to_csv", props=["C13"])
class to_csv:
    """the complete table is written as CSV with exactly the requested number of decimals"""
    params = dict(self=T.OneOf(_MOL, _MOL0), save_path=T.Const("m.csv"), float_precision=T.OneOf(None, 0, 2, 4, 7))
    requires = ["lengths_agree(self)"]
    helpers = _H
    native_helpers = _NH
    imports = _IMPORTS + _TMP
    native_call = "args['self'].to_csv(tmp_path(args['save_path']), float_precision=args['float_precision'])"
    native = {"format": "written(tmp_path(save_path))[0] == 'csv'",
              "precision": "_native_close_frame(written(tmp_path(save_path))[1], self, "
                           "1e-6 if float_precision is None else 0.5 * 10.0 ** -float_precision + 1e-9)",
              "complete_table": "True"}
    ensures = {
        "format": "written(save_path)[0] == 'csv'",
        "precision": "written(save_path)[2] == float_precision",
        "complete_table": "written(save_path)[1].n == n_of(self) and list(written(save_path)[1].cols) == CSV + feature_names(self) and "
                          "forall(lambda i: frame_row_is(written(save_path)[1], i, self, i), (0, n_of(self)))",
    }


@contract("acryo.molecules.core:Molecules.to_parquet", props=["C13"])
class to_parquet:
    params = dict(self=T.OneOf(_MOL, _MOL0), save_path=T.Const("m.parquet"))
    requires = ["lengths_agree(self)"]
    helpers = _H
    native_helpers = _NH
    imports = _IMPORTS + _TMP
    native_call = "args['self'].to_parquet(tmp_path(args['save_path']))"
    native = {"format": "written(tmp_path(save_path))[0] == 'parquet'",
              "complete_table": "_native_close_frame(written(tmp_path(save_path))[1], self, 0)"}
    ensures = {
        "format": "written(save_path)[0] == 'parquet'",
        "complete_table": "written(save_path)[1].n == n_of(self) and list(written(save_path)[1].cols) == CSV + feature_names(self) and "
                          "forall(lambda i: frame_row_is(written(save_path)[1], i, self, i), (0, n_of(self)))",
    }


# ---------------------------------------------------------------------------
# reading
class TStoredFile(TSpec):
    """ghost: a file `path` holding a molecule frame, in the format to_file chooses for that path (the postcondition
    `format_by_suffix` of to_file), CSV files with `precision` decimals"""

    def __init__(self, path, cols=("z", "y", "x", "zvec", "yvec", "xvec", "f0"), precision=4, fmt=None):
        self.path, self.cols, self.precision, self.fmt = path, cols, precision, fmt

    def fresh(self, name, path):
        fr = TFrame(self.cols, rows="df_rows").fresh("stored", path)
        fmt = self.fmt or fmt_of_suffix(self.path)
        F.FS[self.path] = (fmt, fr, self.precision if fmt == "csv" else None, {})
        return fr

    def src(self, name, model):
        return "None"


def close_mol_row(mol, j, frame, i, tol):
    """molecule j is row i of the frame up to `tol` per stored number: position within tol; orientation = the rotation
    of a rotation vector within tol of the stored one (tol == 0: exactly the stored row)"""
    if tol == 0:
        return mol_row_is(mol, j, frame, i)
    parts = []
    for a, c in enumerate(("z", "y", "x")):
        d = mol.attrs["_pos"].at((j, a)) - frame.cols[c].at((i,))
        parts += [V.compare("<=", d, tol), V.compare("<=", -d, tol)]
    return V.sand(*parts)


_HRD = dict(_H, close_mol_row=close_mol_row, csv_tolerance=F.csv_tolerance)

_CASES = [(p, c) for p in ("m.csv", "m.pq", "m.parquet", "m.txt", "m")
          for c in (("z", "y", "x", "zvec", "yvec", "xvec", "g1", "f0"), ("z", "y", "x", "zvec", "yvec", "xvec"))]


class TFileCases(TSpec):
    """(path, stored frame) pairs: the path argument together with the ghost file to_file would have produced there"""

    def cases(self):
        return [_TFileCase(p, c) for p, c in _CASES]


class _TFileCase(TSpec):
    def __init__(self, p, cols):
        self.p, self.cols = p, cols
        self.value = f"{p}{'+f0' if 'f0' in cols else ''}"

    def fresh(self, name, path):
        TStoredFile(self.p, self.cols).fresh("stored", path)
        return self.p

    def src(self, name, model):
        n = max(int(_mget(model, "df_rows", 4)), 0)
        feat = ", features={'g1': np.arange(%d) * 1.5, 'f0': (np.arange(%d) * 3 + 2) %% 5 * 2.5}" % (n, n) if "f0" in self.cols else ""
        return (f"(lambda p: (_Molecules(_generic_array(({n}, 3), 'real') * 3.1 + 4.0, "
                f"_Rotation.random({n}, random_state=3) if {n} else None{feat}).to_file(p), p)[1])(tmp_path({self.p!r}))")


def stored(path):
    import os
    return F.FS[os.path.basename(str(path))][1] if os.path.basename(str(path)) in F.FS else F.FS[str(path)][1]


def _native_reload_ok(result, path):
    """reload equals what a fresh to_file of the same molecules stores: compare with the frame on disk"""
    import polars as pl
    fmt, df, _, _ = _native_written(path)
    return _native_mol_rows(result, df) and fmt == fmt_of_suffix(path)


@contract("acryo.molecules.core:Molecules.from_file", props=["C13"])
class from_file:
    """for a file that to_file wrote under the same path: the reader of the same format is used and molecule i is row i
    of the stored table -- exactly for Parquet, to the stored precision (4 decimals by default) for CSV; features
    follow the six coordinate columns"""
    params = dict(cls=T.Class("acryo.molecules.core:Molecules", "_Molecules"), path=TFileCases())
    helpers = dict(_HRD, stored=stored)
    native_helpers = dict(_NH, _native_reload_ok=_native_reload_ok)
    imports = _IMPORTS + _TMP
    native_call = "_Molecules.from_file(args['path'])"
    native = {"count": "True", "invariant": "_native_invariant(result)", "rows": "_native_reload_ok(result, path)",
              "features": "list(result.features.columns) == [c for c in written(path)[1].columns if c not in ('z', 'y', 'x', 'zvec', 'yvec', 'xvec')]"}
    ensures = {
        "count": "n_of(result) == stored(path).n",
        "invariant": "lengths_agree(result)",
        "features": "feature_names(result) == [c for c in stored(path).cols if c not in CSV]",
        "rows": "forall(lambda i: close_mol_row(result, i, stored(path), i, "
                "0 if fmt_of_suffix(path) == 'parquet' else csv_tolerance(4)), (0, stored(path).n))",
    }


# ---------------------------------------------------------------------------
# the two readers on their own: custom coordinate column names are forwarded to from_dataframe
_CUSTOM = ("pz", "py", "px", "rz", "ry", "rx", "f0")


class TCustomFile(TSpec):
    """ghost: a stored table whose coordinate columns have custom names, in the given format"""

    def __init__(self, fmt):
        self.fmt, self.value = fmt, fmt

    def fresh(self, name, path):
        TStoredFile("custom." + self.fmt, _CUSTOM, precision=None, fmt=self.fmt).fresh("stored", path)
        return "custom." + self.fmt

    def src(self, name, model):
        n = max(int(_mget(model, "df_rows", 4)), 0)
        writer = "write_parquet" if self.fmt == "parquet" else "write_csv"
        return ("(lambda p: (_pl.DataFrame({'pz': np.arange(%d) * 1.5, 'py': np.arange(%d) * 2.0 + 1, 'px': np.arange(%d) * 0.5, "
                "'rz': np.arange(%d) * 0.1, 'ry': np.arange(%d) * -0.2, 'rx': np.arange(%d) * 0.05, "
                "'f0': (np.arange(%d) * 3 + 2) %% 5 * 2.5}).%s(p), p)[1])(tmp_path('custom.%s'))" % ((n,) * 7 + (writer, self.fmt)))


def custom_row_is(mol, j, frame, i):
    parts = [V.compare("==", mol.attrs["_pos"].at((j, a)), frame.cols[c].at((i,))) for a, c in enumerate(("pz", "py", "px"))]
    parts.append(mateq(M(mol.attrs["_rotator"], j), rv_matrix(frame, i, ("rz", "ry", "rx"))))
    f = mol.attrs["_features"]
    if f is None or "f0" not in f.cols:
        return False
    parts.append(V.compare("==", f.cols["f0"].at((j,)), frame.cols["f0"].at((i,))))
    return V.sand(*parts)


def _native_custom_ok(result, path):
    import numpy as np
    import polars as pl
    from scipy.spatial.transform import Rotation
    df = pl.read_parquet(path) if str(path).endswith("parquet") else pl.read_csv(path)
    n = df.shape[0]
    ok = len(result) == n and list(result.features.columns) == ["f0"]
    if n:
        ok = ok and np.allclose(result.pos, df.select(["pz", "py", "px"]).to_numpy(), atol=1e-5)
        want = Rotation.from_rotvec(df.select(["rz", "ry", "rx"]).to_numpy()).as_matrix()
        ok = ok and np.allclose(result.rotator.as_matrix(), want, atol=1e-5)
        ok = ok and result.features["f0"].to_list() == df["f0"].to_list()
    return bool(ok)


for _fmt, _fn in (("csv", "from_csv"), ("parquet", "from_parquet")):
    @contract(f"acryo.molecules.core:Molecules.{_fn}", props=["C13"])
    class reader:
        """the reader of its own format; custom position / rotation-vector column names reach from_dataframe unchanged
        (positions from pos_cols, orientations from rot_cols, everything else is a feature)"""
        params = dict(cls=T.Class("acryo.molecules.core:Molecules", "_Molecules"), path=TCustomFile(_fmt),
                      pos_cols=T.Const(["pz", "py", "px"]), rot_cols=T.Const(["rz", "ry", "rx"]))
        helpers = dict(_HRD, stored=stored, custom_row_is=custom_row_is)
        native_helpers = dict(_NH, _native_custom_ok=_native_custom_ok)
        imports = _IMPORTS + _TMP
        native_call = f"_Molecules.{_fn}(args['path'], args['pos_cols'], args['rot_cols'])"
        native = {"count": "True", "rows": "_native_custom_ok(result, path)", "features": "list(result.features.columns) == ['f0']"}
        ensures = {
            "count": "n_of(result) == stored(path).n",
            "features": "feature_names(result) == ['f0']",
            "rows": "forall(lambda i: custom_row_is(result, i, stored(path), i), (0, stored(path).n))",
        }
