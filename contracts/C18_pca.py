"""C18: the decomposition must come from an exact SVD (da.linalg.svd), not from the randomized svd_compressed."""
from pyvc.contract import contract, T

_PCA = lambda solver: T.Obj("acryo.classification._dask_pca:DaskPCA", dict(svd_solver=T.Const(solver)))


@contract("acryo.classification._dask_pca:DaskPCA._get_solver", props=["C18"])
class get_solver:
    """Property clause: for every data shape and every n_components the classifier can request
    (1 <= n_components <= min(n_samples, n_features)), the solver chosen for the classifier's configuration
    (svd_solver='auto') has an exactness contract: it is 'full' or 'tsqr' (both da.linalg.svd), never 'randomized'."""
    params = dict(self=_PCA("auto"), X=T.Arr(2, "real"), n_components=T.Int(lo=1))
    requires = ["n_components <= X.shape[0]", "n_components <= X.shape[1]"]
    native_call = ("__import__('acryo.classification._dask_pca', fromlist=['DaskPCA']).DaskPCA(n_components=args['n_components'])"
                   "._get_solver(__import__('dask.array', fromlist=['x']).from_array(np.zeros((%s, %s), dtype=np.float32)), args['n_components'])"
                   % ("int(model.get('X_shape_0', 4))", "int(model.get('X_shape_1', 4))"))
    native = {"exact_solver": "result in ('full', 'tsqr')"}
    ensures = {"exact_solver": "result == 'full' or result == 'tsqr'"}
