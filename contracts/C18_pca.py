"""C18: the decomposition must come from an exact SVD (da.linalg.svd), not from the randomized svd_compressed."""
from pyvc.contract import contract, T

_PCA = lambda solver: T.Obj("acryo.classification._dask_pca:DaskPCA", dict(svd_solver=T.Const(solver)))


@contract("acryo.classification._dask_pca:DaskPCA._get_solver", props=["C18"])
class get_solver:
    """Property clause: for every data shape and every n_components the classifier can request
    (1 <= n_components <= min(n_samples, n_features)), the solver chosen for the classifier's configuration
    (svd_solver='auto') has an exactness contract: it is 'full' or 'tsqr' (both da.linalg.svd), never 'randomized'."""
    params = dict(self=_PCA("auto"), X=T.Arr(2, "real"), n_components=T.Int(lo=1))
    requires = ["n_components <= X.shape[0]", "n_components <= X.shape[1]"]
    native_call = ("__import__('acryo.classification._dask_pca', fromlist=['DaskPCA']).DaskPCA(n_components=args['n_components'])"
                   "._get_solver(__import__('dask.array', fromlist=['x']).from_array(np.zeros((%s, %s), dtype=np.float32)), args['n_components'])"
                   % ("int(model.get('X_shape_0', 4))", "int(model.get('X_shape_1', 4))"))
    native = {"exact_solver": "result in ('full', 'tsqr')"}
    ensures = {"exact_solver": "result == 'full' or result == 'tsqr'"}


# ---------------------------------------------------------------------------
# masking is applied identically when fitting and when projecting; labels come from the projections of the same data
from pyvc.contract import TSpec, fresh_array, make_obj
from pyvc import symex as _X
from pyvc import values as V
import z3 as _z3
from pyvc.values import Sym


class _KMeansStub:
    """sklearn.cluster.KMeans: only fit_predict / predict of an (N, k) array -> N integer labels (uninterpreted)"""
    _pyvc_native = True

    def __init__(self):
        self.calls = []

    def fit_predict(self, x):
        from pyvc.arrays import from_nested
        a = from_nested(x)
        res = fresh_array("kmeans_labels", 1, "int", shape=(a.shape[0],))
        self.calls.append(("fit_predict", a, res))
        return res

    def predict(self, x):
        from pyvc.arrays import from_nested
        a = from_nested(x)
        res = fresh_array("kmeans_pred", 1, "int", shape=(a.shape[0],))
        self.calls.append(("predict", a, res))
        return res


class TClassifier(TSpec):
    def __init__(self, with_mask=True):
        self.with_mask = with_mask

    def fresh(self, name, path):
        from pyvc.values import Sym
        interp = path.interp
        cls = interp.resolve("acryo.classification.pca:PcaClassifier")
        n = Sym(_z3.Int(f"{name}_n_image"))
        path.assume(n >= 2)
        shape = tuple(Sym(_z3.Int(f"{name}_box_{a}")) for a in range(3))
        for s_ in shape:
            path.assume(s_ >= 1)
        img = T.Arr(4, "real", shape=(n,) + shape).fresh(f"{name}_image", path)
        mask = T.Arr(3, "real", shape=shape).fresh(f"{name}_mask", path) if self.with_mask else 1
        pca = make_obj(interp, "acryo.classification._dask_pca:DaskPCA", svd_solver="auto", n_components=2, whiten=False)
        nf = shape[0] * shape[1] * shape[2]
        pca.attrs.update(mean_=fresh_array(f"{name}_pca_mean", 1, "real", shape=(nf,)),
                         components_=fresh_array(f"{name}_pca_components", 2, "real", shape=(2, nf)))
        return _X.Obj(cls, {"_image": img, "_mask": mask, "_n_image": n, "_shape": shape, "n_components": 2,
                            "n_clusters": 2, "_pca": pca, "_kmeans": _KMeansStub(), "_labels": None})

    def src(self, name, model):
        return "None"

    def cases(self):
        return [self]


@contract("acryo.classification._dask_pca:DaskPCA.fit", props=["C18"])
class dask_pca_fit:
    """fit of the out-of-core PCA (numerics trusted; exposes its argument to callers)"""
    trusted = True
    params = dict(self=_PCA("auto"))
    result = lambda interp, bound: bound["self"]
    ensures = {}


def dot_factors(res):
    from pyvc import stubs as _S
    for (r, a, b) in _S.GHOST.get("dot", []):
        if r is res:
            return a, b
    return fresh_array("no_such_product", 2, "real"), fresh_array("no_such_product", 2, "real")


class _TFittedPCA(T.Obj):
    """a fitted DaskPCA: mean_ (n_features,), components_ (n_components, n_features), no whitening"""

    def __init__(self):
        T.Obj.__init__(self, "acryo.classification._dask_pca:DaskPCA", {})

    def fresh(self, name, path):
        o = T.Obj.fresh(self, name, path)
        f = Sym(_z3.Int(f"{name}_n_features"))
        k = Sym(_z3.Int(f"{name}_n_components"))
        path.assume(f >= 1)
        path.assume(k >= 1)
        o.attrs.update(mean_=fresh_array(f"{name}_mean", 1, "real", shape=(f,)),
                       components_=fresh_array(f"{name}_components", 2, "real", shape=(k, f)), whiten=False,
                       svd_solver="auto", n_components=k)
        return o


@contract("acryo.classification._dask_pca:DaskPCA.transform", props=["C18"])
class dask_pca_transform:
    """projection of new data: every row is centred with the mean of the stack the model was FITTED on (not with the
    mean of the rows being transformed) and projected on the fitted components"""
    params = dict(self=_TFittedPCA(), X=T.Arr(2, "real"))
    requires = ["X.shape[1] == self.mean_.shape[0]"]
    helpers = dict(dot_factors=dot_factors)
    result = lambda interp, bound: fresh_array("projection", 2, "real", shape=(bound["X"].shape[0], 2))
    call_ensures = []
    imports = "from acryo.classification._dask_pca import DaskPCA as _DaskPCA\nimport dask.array as _da"
    native_call = ("(lambda p, X: (p.fit(_da.from_array(X)), p.transform(_da.from_array(X[:3] + 5.0)).compute(), p)[1:])"
                   "(_DaskPCA(n_components=2, svd_solver='full'), _generic_array((8, 6), 'real') * 1.7)")
    native_helpers = dict(_gen=lambda: __import__("pyvc.native", fromlist=["_generic_array"])._generic_array((8, 6), "real") * 1.7)
    native = {"shape": "True",
              "centred_with_the_fitted_mean": "np.allclose(result[0], (_gen()[:3] + 5.0 - "
                                              "np.asarray(result[1].mean_)) @ np.asarray(result[1].components_).T, atol=1e-4)",
              "projected_on_the_components": "True"}
    ensures = {
        "shape": "result.shape[0] == X.shape[0] and result.shape[1] == self.components_.shape[0]",
        "centred_with_the_fitted_mean": "forall(lambda i, f: dot_factors(result)[0][i, f] == X[i, f] - self.mean_[f], "
                                        "(0, X.shape[0]), (0, X.shape[1]))",
        "projected_on_the_components": "forall(lambda f, c: dot_factors(result)[1][f, c] == self.components_[c, f], "
                                       "(0, X.shape[1]), (0, self.components_.shape[0]))",
    }


def masked_flat(self, i, f):
    """element (i, f) of the masked, flattened stack: image i, voxel with row-major index f, times the mask there"""
    img, mask = self.attrs["_image"], self.attrs["_mask"]
    s = self.attrs["_shape"]
    z = f // (s[1] * s[2])
    y = (f // s[2]) % s[1]
    x = f % s[2]
    v = img.at((i, z, y, x))
    return v * mask.at((z, y, x)) if not isinstance(mask, int) else v


@contract("acryo.classification.pca:PcaClassifier._image_flat", props=["C18"])
class image_flat:
    inline = True
    params = dict(self=TClassifier(), mask=T.OneOf(True, False))
    ensures = {"shape": "result.shape[0] == self._n_image"}


def _replay_classifier(ob_name, meta, model):
    """replay on a real PcaClassifier with a soft mask: the projections used for clustering must be those of the
    masked stack the model was fitted on"""
    return '''
import numpy as np
from dask import array as da
from acryo.classification import PcaClassifier
rng = np.random.default_rng(5)
n, shape = 24, (5, 6, 4)
stack = rng.normal(size=(n,) + shape).astype(np.float32)
mask = rng.uniform(0.2, 1.0, size=shape).astype(np.float32)          # soft mask
clf = PcaClassifier(da.from_array(stack, chunks=(6,) + shape), mask_image=mask, n_components=2, n_clusters=2, seed=0).run()
masked = (stack * mask).reshape(n, -1)
want = np.asarray(clf.pca.transform(da.from_array(masked)).compute())
got = np.asarray(clf.get_transform())
ok = bool(np.allclose(got, want, atol=1e-4))
fit_ok = bool(np.allclose(np.asarray(clf.pca.mean_), masked.mean(axis=0), atol=1e-4))
print("projections of the masked stack:", ok, "| fitted on the masked stack:", fit_ok)
ok = ok and fit_ok
print("clause holds natively:", ok)
print("CONFIRMED" if not ok else "NOT-CONFIRMED"); sys.exit(1 if not ok else 0)
'''


@contract("acryo.classification.pca:PcaClassifier.get_transform", props=["C18"])
class get_transform:
    replay = staticmethod(_replay_classifier)
    """projections are computed from the MASKED flattened stack (the same data the model was fitted on)"""
    params = dict(self=TClassifier(), labels=T.Const(None))
    helpers = dict(masked_flat=masked_flat)
    ensures = {
        "projects_masked_data":
            "forall(lambda i, z, y, x: flat_src(called_args('DaskPCA.transform')['X'])[i, z, y, x] == "
            "self._image[i, z, y, x] * self._mask[z, y, x], (0, self._n_image), (0, self._shape[0]), (0, self._shape[1]), (0, self._shape[2]))",
        "is_the_projection": "result is called('DaskPCA.transform')",
    }


from pyvc import contract as _C
_C.REGISTRY["acryo.classification.pca:PcaClassifier.get_transform"].result = \
    lambda interp, bound: fresh_array("transformed", 2, "real", shape=(bound["self"].attrs["_n_image"], 2))
_C.REGISTRY["acryo.classification.pca:PcaClassifier.get_transform"].call_ensures = []


@contract("acryo.classification.pca:PcaClassifier.run", props=["C18"])
class classifier_run:
    replay = staticmethod(_replay_classifier)
    """fit on the masked flattened stack; labels = k-means of the projections of that same masked stack, one per image"""
    params = dict(self=TClassifier())
    ensures = {
        "fits_masked_data":
            "forall(lambda i, z, y, x: flat_src(called_args('DaskPCA.fit')['X'])[i, z, y, x] == "
            "self._image[i, z, y, x] * self._mask[z, y, x], (0, self._n_image), (0, self._shape[0]), (0, self._shape[1]), (0, self._shape[2]))",
        "labels_from_projections": "self._kmeans.calls[0][0] == 'fit_predict' and self._kmeans.calls[0][1] is called('get_transform') "
                                   "and self._labels is self._kmeans.calls[0][2] and self._labels.shape[0] == self._n_image",
    }


# ---------------------------------------------------------------------------
# classification through a loader: what is handed to the classifier, and where its labels go
from contracts.common import TLoader, TMolecules, NATIVE_IMPORTS
from contracts.C11_poses import M as _Mrow, mateq as _mateq

from pyvc import arrays as A
_MD = "acryo.alignment._base:TomographyInput.masked_difference"


@contract(_MD, props=["C18"])
class masked_difference:
    """wedge-masked difference map of one sub-volume (numerics trusted; exposes its arguments to callers)"""
    trusted = True
    params = dict(self=T.Obj("acryo.alignment._concrete:ZNCCAlignment", {}))
    result = lambda interp, bound: fresh_array("difference_map", 3, "real", shape=tuple(A.from_nested(bound["image"]).shape))
    ensures = {}


def _hook_model_init(interp, f, args, kwargs):
    """stand-in for the alignment model's constructor while `classify` is verified: remember what it was built from"""
    me = args[0]
    names = ["template", "mask", "rotations", "cutoff", "tilt", "tilt_range"]
    got = dict(zip(names, args[1:]))
    got.update(kwargs)
    mask = got.get("mask")
    me.attrs.update(_template=got.get("template"), _mask=1 if mask is None else mask, _ndim=3, _n_templates=1,
                    _n_rotations=1, _cutoff=got.get("cutoff"), _ghost_ctor=got)
    return None


def _hook_clf_init(interp, f, args, kwargs):
    me = args[0]
    names = ["image_stack", "mask_image", "n_components", "n_clusters", "seed"]
    got = dict(zip(names, args[1:]))
    got.update(kwargs)
    st = A.from_nested(got["image_stack"])
    me.attrs.update(_image=st, _mask=got.get("mask_image"), _n_image=st.shape[0], _shape=tuple(st.shape[1:]),
                    n_components=got.get("n_components", 2), n_clusters=got.get("n_clusters", 2),
                    _ghost_seed=got.get("seed", 0), _labels=None)
    return None


def _hook_clf_run(interp, f, args, kwargs):
    me = args[0]
    me.attrs["_labels"] = fresh_array("kmeans_labels", 1, "int", shape=(me.attrs["_n_image"],))
    return me


def _setup_classify(interp):
    interp.call_hooks["acryo.alignment._base:TomographyInput.__init__"] = _hook_model_init
    interp.call_hooks["acryo.classification.pca:PcaClassifier.__init__"] = _hook_clf_init
    interp.call_hooks["acryo.classification.pca:PcaClassifier.run"] = _hook_clf_run


_REPLAY_CLASSIFY = '''
import numpy as np
from acryo import SubtomogramLoader, Molecules
rng = np.random.default_rng(1234)
S = 7; shape = (S, S, S)
m0 = np.zeros(shape, np.float32); m0[1:3, 1:3, 1:3] = 5.0
m1 = np.zeros(shape, np.float32); m1[4:6, 4:6, 1:3] = 5.0
m2 = np.zeros(shape, np.float32); m2[1:3, 4:6, 4:6] = 5.0
motifs = [m0, m1, m2]
kinds = np.array([0, 1, 2, 2, 1, 0, 0, 2, 1, 1, 0, 2, 0, 1, 2])
n = len(kinds)
tomo = rng.normal(0, 0.05, size=(12, 12, 12 * n)).astype(np.float32)
pos = []
for i, k in enumerate(kinds):
    c = (6, 6, 12 * i + 6)
    tomo[c[0] - 3:c[0] + 4, c[1] - 3:c[1] + 4, c[2] - 3:c[2] + 4] += motifs[k]
    pos.append(c)
mole = Molecules(np.array(pos, dtype=np.float32), features={"kind": kinds})
loader = SubtomogramLoader(tomo, mole, order=0, scale=1.0, output_shape=shape)
ok = True
for ncomp, nclus in ((2, 3), (3, 2), (2, 2)):
    res = loader.classify(n_components=ncomp, n_clusters=nclus, seed=0, label_name="cls")
    clf, out = res.classifier, res.loader.molecules
    labels = out.features["cls"].to_numpy()
    good = clf.n_components == ncomp and clf.n_clusters == nclus and clf.kmeans.n_clusters == nclus \\
        and clf.pca.components_.shape[0] == ncomp and np.array_equal(labels, clf.labels) and len(labels) == n \\
        and np.array_equal(out.pos, mole.pos) and list(out.features["kind"]) == list(kinds) \\
        and "cls" not in loader.molecules.features.columns
    if nclus == 3:
        pairs = {(int(k), int(l)) for k, l in zip(kinds, labels)}
        good = good and len(pairs) == 3 and len({l for _, l in pairs}) == 3
    print("n_components=%d n_clusters=%d: classifier built with (%d, %d); labels %s" % (ncomp, nclus, clf.n_components, clf.kmeans.n_clusters, labels.tolist()), "ok" if good else "WRONG")
    ok = ok and good
print("clause holds natively (requested parameters used; one label per molecule in order; nothing else changed):", ok)
print("CONFIRMED" if not ok else "NOT-CONFIRMED"); sys.exit(1 if not ok else 0)
'''

_NC = "self._molecules._pos.shape[0]"


@contract("acryo.loader._base:LoaderBase.classify", props=["C18", "C03"])
class loader_classify:
    """the classifier is built from the stack whose row i is the wedge-masked difference of sub-volume i (molecule i's
    orientation), with the model's mask and the requested n_components / n_clusters / seed; its i-th label becomes the
    label of molecule i in a new loader; positions, orientations and the other features are unchanged and the loader
    classify was called on is not modified.  (PCA / k-means themselves: the contracts above; the alignment model's
    constructor, masked_difference, PcaClassifier.__init__ and run are replaced by their summaries here.)"""
    params = dict(self=TLoader(TMolecules(features=["f0"], min_n=1), order=1), template=T.Arr(3, "real"),
                  mask=T.OneOf(None, T.Arr(3, "real")), cutoff=T.Real(), n_components=T.Int(lo=1), n_clusters=T.Int(lo=1),
                  tilt=T.Const(None), tilt_range=T.Const(None), seed=T.Int(lo=0), label_name=T.Const("cluster"))
    requires = ["mask is None or all(mask.shape[a] == template.shape[a] for a in range(3))"]
    helpers = dict(MD="TomographyInput.masked_difference", M=_Mrow, mateq=_mateq, qrow=lambda rot, i, c: rot.as_quat()[i, c])
    setup = staticmethod(_setup_classify)
    replay = staticmethod(lambda ob, meta, model: _REPLAY_CLASSIFY)
    may_raise = {"SubvolumeOutOfBoundError": "True"}
    ensures = {
        "requested_parameters": "result.classifier.n_components == n_components and result.classifier.n_clusters == n_clusters "
                                "and result.classifier._ghost_seed == seed",
        "mask_of_the_model": "(mask is None and result.classifier._mask == 1) or result.classifier._mask is mask",
        "stack_row_i_is_molecule_i":
            f"result.classifier._n_image == {_NC} and "
            f"forall(lambda i: arr_eq(called_args_at(MD, i)['image'], called('construct_loading_tasks')._arrays[i]) and "
            f"all(called_args_at(MD, i)['quaternion'][c] == qrow(self._molecules._rotator, i, c) for c in range(4)), (0, {_NC})) and "
            f"forall(lambda i, z, y, x: result.classifier._image[i, z, y, x] == called_at(MD, i)[z, y, x], "
            f"(0, {_NC}), (0, template.shape[0]), (0, template.shape[1]), (0, template.shape[2]))",
        "label_i_goes_to_molecule_i":
            f"result.loader._molecules._pos.shape[0] == {_NC} and "
            f"forall(lambda i: result.loader._molecules._features['cluster'].arr[i] == result.classifier._labels[i], (0, {_NC}))",
        "nothing_else_changes":
            f"forall(lambda i: all(result.loader._molecules._pos[i, a] == self._molecules._pos[i, a] for a in range(3)) and "
            f"mateq(M(result.loader._molecules._rotator, i), M(self._molecules._rotator, i)) and "
            f"result.loader._molecules._features['f0'].arr[i] == self._molecules._features['f0'].arr[i], (0, {_NC}))",
        "frame": "writes_to(self) == 0 and writes_to(self._molecules) == 0 and result.loader is not self",
    }
