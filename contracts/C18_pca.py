"""C18: the decomposition must come from an exact SVD (da.linalg.svd), not from the randomized svd_compressed."""
from pyvc.contract import contract, T

_PCA = lambda solver: T.Obj("acryo.classification._dask_pca:DaskPCA", dict(svd_solver=T.Const(solver)))


@contract("acryo.classification._dask_pca:DaskPCA._get_solver", props=["C18"])
class get_solver:
    """Property clause: for every data shape and every n_components the classifier can request
    (1 <= n_components <= min(n_samples, n_features)), the solver chosen for the classifier's configuration
    (svd_solver='auto') has an exactness contract: it is 'full' or 'tsqr' (both da.linalg.svd), never 'randomized'."""
    params = dict(self=_PCA("auto"), X=T.Arr(2, "real"), n_components=T.Int(lo=1))
    requires = ["n_components <= X.shape[0]", "n_components <= X.shape[1]"]
    native_call = ("__import__('acryo.classification._dask_pca', fromlist=['DaskPCA']).DaskPCA(n_components=args['n_components'])"
                   "._get_solver(__import__('dask.array', fromlist=['x']).from_array(np.zeros((%s, %s), dtype=np.float32)), args['n_components'])"
                   % ("int(model.get('X_shape_0', 4))", "int(model.get('X_shape_1', 4))"))
    native = {"exact_solver": "result in ('full', 'tsqr')"}
    ensures = {"exact_solver": "result == 'full' or result == 'tsqr'"}


# ---------------------------------------------------------------------------
# masking is applied identically when fitting and when projecting; labels come from the projections of the same data
from pyvc.contract import TSpec, fresh_array, make_obj
from pyvc import symex as _X
from pyvc import values as V
import z3 as _z3
from pyvc.values import Sym


class _KMeansStub:
    """sklearn.cluster.KMeans: only fit_predict / predict of an (N, k) array -> N integer labels (uninterpreted)"""
    _pyvc_native = True

    def __init__(self):
        self.calls = []

    def fit_predict(self, x):
        from pyvc.arrays import from_nested
        a = from_nested(x)
        res = fresh_array("kmeans_labels", 1, "int", shape=(a.shape[0],))
        self.calls.append(("fit_predict", a, res))
        return res

    def predict(self, x):
        from pyvc.arrays import from_nested
        a = from_nested(x)
        res = fresh_array("kmeans_pred", 1, "int", shape=(a.shape[0],))
        self.calls.append(("predict", a, res))
        return res


class TClassifier(TSpec):
    def __init__(self, with_mask=True):
        self.with_mask = with_mask

    def fresh(self, name, path):
        from pyvc.values import Sym
        interp = path.interp
        cls = interp.resolve("acryo.classification.pca:PcaClassifier")
        n = Sym(_z3.Int(f"{name}_n_image"))
        path.assume(n >= 2)
        shape = tuple(Sym(_z3.Int(f"{name}_box_{a}")) for a in range(3))
        for s_ in shape:
            path.assume(s_ >= 1)
        img = T.Arr(4, "real", shape=(n,) + shape).fresh(f"{name}_image", path)
        mask = T.Arr(3, "real", shape=shape).fresh(f"{name}_mask", path) if self.with_mask else 1
        pca = make_obj(interp, "acryo.classification._dask_pca:DaskPCA", svd_solver="auto", n_components=2, whiten=False)
        nf = shape[0] * shape[1] * shape[2]
        pca.attrs.update(mean_=fresh_array(f"{name}_pca_mean", 1, "real", shape=(nf,)),
                         components_=fresh_array(f"{name}_pca_components", 2, "real", shape=(2, nf)))
        return _X.Obj(cls, {"_image": img, "_mask": mask, "_n_image": n, "_shape": shape, "n_components": 2,
                            "n_clusters": 2, "_pca": pca, "_kmeans": _KMeansStub(), "_labels": None})

    def src(self, name, model):
        return "None"

    def cases(self):
        return [self]


@contract("acryo.classification._dask_pca:DaskPCA.fit", props=["C18"])
class dask_pca_fit:
    """fit of the out-of-core PCA (numerics trusted; exposes its argument to callers)"""
    trusted = True
    params = dict(self=_PCA("auto"))
    result = lambda interp, bound: bound["self"]
    ensures = {}


def dot_factors(res):
    from pyvc import stubs as _S
    for (r, a, b) in _S.GHOST.get("dot", []):
        if r is res:
            return a, b
    return fresh_array("no_such_product", 2, "real"), fresh_array("no_such_product", 2, "real")


class _TFittedPCA(T.Obj):
    """a fitted DaskPCA: mean_ (n_features,), components_ (n_components, n_features), no whitening"""

    def __init__(self):
        T.Obj.__init__(self, "acryo.classification._dask_pca:DaskPCA", {})

    def fresh(self, name, path):
        o = T.Obj.fresh(self, name, path)
        f = Sym(_z3.Int(f"{name}_n_features"))
        k = Sym(_z3.Int(f"{name}_n_components"))
        path.assume(f >= 1)
        path.assume(k >= 1)
        o.attrs.update(mean_=fresh_array(f"{name}_mean", 1, "real", shape=(f,)),
                       components_=fresh_array(f"{name}_components", 2, "real", shape=(k, f)), whiten=False,
                       svd_solver="auto", n_components=k)
        return o


@contract("acryo.classification._dask_pca:DaskPCA.transform", props=["C18"])
class dask_pca_transform:
    """projection of new data: every row is centred with the mean of the stack the model was FITTED on (not with the
    mean of the rows being transformed) and projected on the fitted components"""
    params = dict(self=_TFittedPCA(), X=T.Arr(2, "real"))
    requires = ["X.shape[1] == self.mean_.shape[0]"]
    helpers = dict(dot_factors=dot_factors)
    result = lambda interp, bound: fresh_array("projection", 2, "real", shape=(bound["X"].shape[0], 2))
    call_ensures = []
    imports = "from acryo.classification._dask_pca import DaskPCA as _DaskPCA\nimport dask.array as _da"
    native_call = ("(lambda p, X: (p.fit(_da.from_array(X)), p.transform(_da.from_array(X[:3] + 5.0)).compute(), p)[1:])"
                   "(_DaskPCA(n_components=2, svd_solver='full'), _generic_array((8, 6), 'real') * 1.7)")
    native_helpers = dict(_gen=lambda: __import__("pyvc.native", fromlist=["_generic_array"])._generic_array((8, 6), "real") * 1.7)
    native = {"shape": "True",
              "centred_with_the_fitted_mean": "np.allclose(result[0], (_gen()[:3] + 5.0 - "
                                              "np.asarray(result[1].mean_)) @ np.asarray(result[1].components_).T, atol=1e-4)",
              "projected_on_the_components": "True"}
    ensures = {
        "shape": "result.shape[0] == X.shape[0] and result.shape[1] == self.components_.shape[0]",
        "centred_with_the_fitted_mean": "forall(lambda i, f: dot_factors(result)[0][i, f] == X[i, f] - self.mean_[f], "
                                        "(0, X.shape[0]), (0, X.shape[1]))",
        "projected_on_the_components": "forall(lambda f, c: dot_factors(result)[1][f, c] == self.components_[c, f], "
                                       "(0, X.shape[1]), (0, self.components_.shape[0]))",
    }


def masked_flat(self, i, f):
    """element (i, f) of the masked, flattened stack: image i, voxel with row-major index f, times the mask there"""
    img, mask = self.attrs["_image"], self.attrs["_mask"]
    s = self.attrs["_shape"]
    z = f // (s[1] * s[2])
    y = (f // s[2]) % s[1]
    x = f % s[2]
    v = img.at((i, z, y, x))
    return v * mask.at((z, y, x)) if not isinstance(mask, int) else v


@contract("acryo.classification.pca:PcaClassifier._image_flat", props=["C18"])
class image_flat:
    inline = True
    params = dict(self=TClassifier(), mask=T.OneOf(True, False))
    ensures = {"shape": "result.shape[0] == self._n_image"}


def _replay_classifier(ob_name, meta, model):
    """replay on a real PcaClassifier with a soft mask: the projections used for clustering must be those of the
    masked stack the model was fitted on"""
    return '''
import numpy as np
from dask import array as da
from acryo.classification import PcaClassifier
rng = np.random.default_rng(5)
n, shape = 24, (5, 6, 4)
stack = rng.normal(size=(n,) + shape).astype(np.float32)
mask = rng.uniform(0.2, 1.0, size=shape).astype(np.float32)          # soft mask
clf = PcaClassifier(da.from_array(stack, chunks=(6,) + shape), mask_image=mask, n_components=2, n_clusters=2, seed=0).run()
masked = (stack * mask).reshape(n, -1)
want = np.asarray(clf.pca.transform(da.from_array(masked)).compute())
got = np.asarray(clf.get_transform())
ok = bool(np.allclose(got, want, atol=1e-4))
fit_ok = bool(np.allclose(np.asarray(clf.pca.mean_), masked.mean(axis=0), atol=1e-4))
print("projections of the masked stack:", ok, "| fitted on the masked stack:", fit_ok)
ok = ok and fit_ok
print("clause holds natively:", ok)
print("CONFIRMED" if not ok else "NOT-CONFIRMED"); sys.exit(1 if not ok else 0)
'''


@contract("acryo.classification.pca:PcaClassifier.get_transform", props=["C18"])
class get_transform:
    replay = staticmethod(_replay_classifier)
    """projections are computed from the MASKED flattened stack (the same data the model was fitted on)"""
    params = dict(self=TClassifier(), labels=T.Const(None))
    helpers = dict(masked_flat=masked_flat)
    ensures = {
        "projects_masked_data":
            "forall(lambda i, z, y, x: flat_src(called_args('DaskPCA.transform')['X'])[i, z, y, x] == "
            "self._image[i, z, y, x] * self._mask[z, y, x], (0, self._n_image), (0, self._shape[0]), (0, self._shape[1]), (0, self._shape[2]))",
        "is_the_projection": "result is called('DaskPCA.transform')",
    }


from pyvc import contract as _C
_C.REGISTRY["acryo.classification.pca:PcaClassifier.get_transform"].result = \
    lambda interp, bound: fresh_array("transformed", 2, "real", shape=(bound["self"].attrs["_n_image"], 2))
_C.REGISTRY["acryo.classification.pca:PcaClassifier.get_transform"].call_ensures = []


@contract("acryo.classification.pca:PcaClassifier.run", props=["C18"])
class classifier_run:
    replay = staticmethod(_replay_classifier)
    """fit on the masked flattened stack; labels = k-means of the projections of that same masked stack, one per image"""
    params = dict(self=TClassifier())
    ensures = {
        "fits_masked_data":
            "forall(lambda i, z, y, x: flat_src(called_args('DaskPCA.fit')['X'])[i, z, y, x] == "
            "self._image[i, z, y, x] * self._mask[z, y, x], (0, self._n_image), (0, self._shape[0]), (0, self._shape[1]), (0, self._shape[2]))",
        "labels_from_projections": "self._kmeans.calls[0][0] == 'fit_predict' and self._kmeans.calls[0][1] is called('get_transform') "
                                   "and self._labels is self._kmeans.calls[0][2] and self._labels.shape[0] == self._n_image",
    }
