"""C19: image pipelines compose like functions; parameters in physical units."""
from pyvc.contract import contract, T, fresh_array
from pyvc import values as V
from pyvc.stubs import _exp
from pyvc.values import round_half_even

_NM3 = T.Tuple(T.Real(lo=0), T.Real(lo=0), T.Real(lo=0))


def gauss_arg(k, n, shift_px, sigma_px):
    """-1/2 sum_a ((k_a - (n_a - 1)/2 - shift_a) / sigma_a)^2 : exponent of a Gaussian centred in the box + shift"""
    total = 0
    for a in range(3):
        u = (k[a] - (n[a] - 1) / 2 - shift_px[a]) / sigma_px[a]
        total = total + u * u
    return total * (-0.5) if not isinstance(total, int) else -0.5 * total


def _native_gaussian(result, scale, shape, sigma, shift):
    import numpy as np
    n = tuple(int(round(s / scale)) for s in shape)
    if result.shape != n:
        return False
    sg = [(sigma if np.isscalar(sigma) else sigma[a]) / scale for a in range(3)] if not np.isscalar(sigma) else [sigma / scale] * 3
    grids = np.indices(n, dtype=np.float64)
    arg = sum(((grids[a] - (n[a] - 1) / 2 - shift[a] / scale) / sg[a]) ** 2 for a in range(3))
    return bool(np.allclose(result, np.exp(-0.5 * arg), atol=1e-4))


@contract("acryo.pipe._imread:from_gaussian", props=["C19"])
class from_gaussian:
    """the Gaussian provider yields exp(-1/2 sum_a ((k_a - c_a)/sigma_a)^2) with c = box centre (n-1)/2 + shift/scale,
    sigma in pixels = sigma/scale, box n = round(shape/scale): a Gaussian centred in the box plus the requested shift"""
    params = dict(scale=T.Real(), shape=_NM3, sigma=T.Tuple(T.Real(), T.Real(), T.Real()),
                  shift=T.Tuple(T.Real(), T.Real(), T.Real()))
    requires = ["scale > 0", "all(s > 0 for s in sigma)", "all(round(s / scale) >= 1 for s in shape)"]
    helpers = dict(gauss_arg=gauss_arg, exp=_exp, round=round_half_even)
    native_helpers = dict(_native_gaussian=_native_gaussian)
    native_call = "_mod.from_gaussian(args['shape'], args['sigma'], args['shift'])(args['scale'])"
    native = {"box": "result.shape == tuple(int(round(s / scale)) for s in shape)",
              "gaussian_centred": "_native_gaussian(result, scale, shape, sigma, shift)"}
    ensures = {
        "box": "all(result.shape[a] == round(shape[a] / scale) for a in range(3))",
        "gaussian_centred": "forall(lambda i, j, k: result[i, j, k] == exp(gauss_arg((i, j, k), result.shape, "
                            "tuple(sh / scale for sh in shift), tuple(sg / scale for sg in sigma))), "
                            "(0, result.shape[0]), (0, result.shape[1]), (0, result.shape[2]))",
    }
