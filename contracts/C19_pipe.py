"""C19: image pipelines compose like functions; parameters in physical units."""
from pyvc.contract import contract, T, fresh_array
from pyvc import values as V
from pyvc.stubs import _exp
from pyvc.values import round_half_even

_NM3 = T.Tuple(T.Real(lo=0), T.Real(lo=0), T.Real(lo=0))


def gauss_arg(k, n, shift_px, sigma_px):
    """-1/2 sum_a ((k_a - (n_a - 1)/2 - shift_a) / sigma_a)^2 : exponent of a Gaussian centred in the box + shift"""
    total = 0
    for a in range(3):
        u = (k[a] - (n[a] - 1) / 2 - shift_px[a]) / sigma_px[a]
        total = total + u * u
    return total * (-0.5) if not isinstance(total, int) else -0.5 * total


def _native_gaussian(result, scale, shape, sigma, shift):
    import numpy as np
    n = tuple(int(round(s / scale)) for s in shape)
    if result.shape != n:
        return False
    sg = [(sigma if np.isscalar(sigma) else sigma[a]) / scale for a in range(3)] if not np.isscalar(sigma) else [sigma / scale] * 3
    grids = np.indices(n, dtype=np.float64)
    arg = sum(((grids[a] - (n[a] - 1) / 2 - shift[a] / scale) / sg[a]) ** 2 for a in range(3))
    return bool(np.allclose(result, np.exp(-0.5 * arg), atol=1e-4))


@contract("acryo.pipe._imread:from_gaussian", props=["C19"])
class from_gaussian:
    """the Gaussian provider yields exp(-1/2 sum_a ((k_a - c_a)/sigma_a)^2) with c = box centre (n-1)/2 + shift/scale,
    sigma in pixels = sigma/scale, box n = round(shape/scale): a Gaussian centred in the box plus the requested shift"""
    params = dict(scale=T.Real(), shape=_NM3, sigma=T.Tuple(T.Real(), T.Real(), T.Real()),
                  shift=T.Tuple(T.Real(), T.Real(), T.Real()))
    requires = ["scale > 0", "all(s > 0 for s in sigma)", "all(round(s / scale) >= 1 for s in shape)"]
    helpers = dict(gauss_arg=gauss_arg, exp=_exp, round=round_half_even)
    native_helpers = dict(_native_gaussian=_native_gaussian)
    native_call = "_mod.from_gaussian(args['shape'], args['sigma'], args['shift'])(args['scale'])"
    native = {"box": "result.shape == tuple(int(round(s / scale)) for s in shape)",
              "gaussian_centred": "_native_gaussian(result, scale, shape, sigma, shift)"}
    ensures = {
        "box": "all(result.shape[a] == round(shape[a] / scale) for a in range(3))",
        "gaussian_centred": "forall(lambda i, j, k: result[i, j, k] == exp(gauss_arg((i, j, k), result.shape, "
                            "tuple(sh / scale for sh in shift), tuple(sg / scale for sg in sigma))), "
                            "(0, result.shape[0]), (0, result.shape[1]), (0, result.shape[2]))",
    }


# ---------------------------------------------------------------------------
# pipeline algebra over opaque images: providers are arbitrary functions scale -> image, converters arbitrary functions
# (image, scale) -> image; voxel-wise operators are the uninterpreted image operators of pyvc/imgtok.py
from pyvc.contract import TSpec
from pyvc import symex as _X
from pyvc.imgtok import provider_fn, converter_fn, same, fresh_image, ImgTok


class TProvider(TSpec):
    def __init__(self, tag):
        self.tag = tag

    def fresh(self, name, path):
        cls = path.interp.resolve("acryo.pipe._classes:ImageProvider")
        return _X.Obj(cls, {"_func": provider_fn(self.tag), "__name__": self.tag})

    def src(self, name, model):
        return f"_P.ImageProvider(lambda scale, _t={self.tag!r}: _img(_t, scale))"


class TConverter(TSpec):
    def __init__(self, tag):
        self.tag = tag

    def fresh(self, name, path):
        cls = path.interp.resolve("acryo.pipe._classes:ImageConverter")
        return _X.Obj(cls, {"_func": converter_fn(self.tag), "__name__": self.tag})

    def src(self, name, model):
        return f"_P.ImageConverter(lambda img, scale, _t={self.tag!r}: _conv(_t, img, scale))"


class TImage(TSpec):
    def fresh(self, name, path):
        return fresh_image(name)

    def src(self, name, model):
        return "_img('input', 1.0)"


_NATIVE_PIPE = '''
import acryo.pipe._classes as _P
def _img(tag, scale):
    rng = np.random.default_rng(abs(hash(tag)) % 1000)
    return (rng.random((4, 5, 6)) * (1.0 + float(scale)) + 0.5).astype(np.float32)
def _conv(tag, img, scale):
    k = 1.0 + (abs(hash(tag)) % 7)
    return (np.roll(img, int(k), axis=0) * k + float(scale)).astype(np.float32)
def same(a, b):
    return np.asarray(a).shape == np.asarray(b).shape and bool(np.allclose(a, b, equal_nan=True))
'''
_HP = dict(same=same)
_OPS = {"add": "+", "sub": "-", "mul": "*", "truediv": "/"}
_CMPS = {"eq": "==", "ne": "!=", "lt": "<", "le": "<=", "gt": ">", "ge": ">="}
_SCALE = T.Real(lo=0)

# reflected operators with a scalar: c op p  must be  c op p(scale) voxel-wise  (NOT p(scale) op c)
for _name, _sym in _OPS.items():
    @contract(f"acryo.pipe._classes:_Pipeline.__r{_name}__", props=["C19"])
    class reflected_op:
        params = dict(self=TProvider("p"), other=T.Real(), _s=_SCALE)
        requires = ["_s > 0"] + (["other != 0"] if _name == "truediv" else [])
        helpers = _HP
        imports = _NATIVE_PIPE
        native_call = f"args['other'] {_sym} args['self']"
        native = {"voxelwise": f"same(result(_s), other {_sym} self(_s))"}
        ensures = {"voxelwise": f"same(result(_s), other {_sym} self(_s))"}

for _name, _sym in {**_OPS, **_CMPS}.items():
    for _kind, _spec in (("provider", TProvider("q")), ("scalar", T.Real())):
        @contract(f"acryo.pipe._classes:ImageProvider.__{_name}__", props=["C19"]) if _kind == "provider" else (lambda c: c)
        class provider_op:
            """p op q (two providers) and p op c (scalar) act voxel-wise on the provided images"""
            inline = True      # callers (the reflected operators) execute the body instead of using this contract
            params = dict(self=TProvider("p"), other=T.OneOf(TProvider("q"), T.Real()), _s=_SCALE)
            requires = ["_s > 0"]
            # documented: division by the scalar zero is rejected
            raises = {"ZeroDivisionError": "not callable(other) and other == 0"} if _name == "truediv" else {}
            helpers = dict(_HP, val=lambda o, s, interp=None: o)
            imports = _NATIVE_PIPE
            native_call = f"args['self'] {_sym} args['other']"
            native = {"voxelwise": f"same(result(_s), self(_s) {_sym} (other(_s) if callable(other) else other))"}
            ensures = {"voxelwise": f"same(result(_s), self(_s) {_sym} (other(_s) if callable(other) else other))"}


# converters -----------------------------------------------------------------------------------------------------
def apply_other(other, x, s):
    """value of the right operand for input image x at scale s: converter(x, s), provider(s) or the scalar itself"""
    from pyvc import symex as X
    raise NotImplementedError


_OTHER_EXPR = ("(other(_x, _s) if cls_name(other) == 'ImageConverter' else "
               "(other(_s) if cls_name(other) == 'ImageProvider' else other))")
_NATIVE_OTHER = ("(other(_x, _s) if type(other).__name__ == 'ImageConverter' else "
                 "(other(_s) if type(other).__name__ == 'ImageProvider' else other))")


def cls_name(o):
    return o.cls.name if isinstance(o, _X.Obj) else type(o).__name__


_HC = dict(_HP, cls_name=cls_name)

for _name, _sym in {**_OPS, **_CMPS}.items():
    @contract(f"acryo.pipe._classes:ImageConverter.__{_name}__", props=["C19"])
    class converter_op:
        """c op d / c op p / c op scalar act voxel-wise on the converted (and provided) images"""
        inline = True
        params = dict(self=TConverter("c"), other=T.OneOf(TConverter("d"), TProvider("q"), T.Real()),
                      _x=TImage(), _s=_SCALE)
        requires = ["_s > 0"]
        raises = {"ZeroDivisionError": "not callable(other) and other == 0"} if _name == "truediv" else {}
        helpers = _HC
        imports = _NATIVE_PIPE
        native_call = f"args['self'] {_sym} args['other']"
        native = {"voxelwise": f"same(result(_x, _s), self(_x, _s) {_sym} {_NATIVE_OTHER})"}
        ensures = {"voxelwise": f"same(result(_x, _s), self(_x, _s) {_sym} {_OTHER_EXPR})"}

for _name, _sym in _OPS.items():
    @contract(f"acryo.pipe._classes:_Pipeline.__r{_name}__", props=["C19"])
    class reflected_op_both:
        """c op pipeline with a scalar on the left, for providers and for converters"""
        params = dict(self=T.OneOf(TProvider("p"), TConverter("c")), other=T.Real(), _x=TImage(), _s=_SCALE)
        requires = ["_s > 0"] + (["other != 0"] if _name == "truediv" else [])
        helpers = _HC
        imports = _NATIVE_PIPE
        native_call = f"args['other'] {_sym} args['self']"
        native = {"voxelwise": f"same(result(_x, _s) if type(self).__name__ == 'ImageConverter' else result(_s), "
                               f"other {_sym} (self(_x, _s) if type(self).__name__ == 'ImageConverter' else self(_s)))"}
        ensures = {"voxelwise": f"same(result(_x, _s) if cls_name(self) == 'ImageConverter' else result(_s), "
                                f"other {_sym} (self(_x, _s) if cls_name(self) == 'ImageConverter' else self(_s)))"}


@contract("acryo.pipe._classes:ImageConverter.compose", props=["C19"])
class compose:
    """(a @ b)(x, s) == a(b(x, s), s) for a converter b; (a @ p)(s) == a(p(s), s) for a provider p; anything else is
    rejected with TypeError"""
    params = dict(self=TConverter("a"), other=T.OneOf(TConverter("b"), TProvider("p")), _x=TImage(), _s=_SCALE)
    requires = ["_s > 0"]
    helpers = _HC
    imports = _NATIVE_PIPE
    native_call = "args['self'] @ args['other']"
    native = {"nested_application": "same(result(_x, _s), self(other(_x, _s), _s)) if type(other).__name__ == 'ImageConverter' "
                                    "else same(result(_s), self(other(_s), _s))"}
    ensures = {"nested_application": "same(result(_x, _s), self(other(_x, _s), _s)) if cls_name(other) == 'ImageConverter' "
                                     "else same(result(_s), self(other(_s), _s))",
               "kind": "cls_name(result) == cls_name(other)"}


@contract("acryo.pipe._classes:ImageConverter.with_scale", props=["C19"])
class with_scale:
    params = dict(self=TConverter("a"), scale=_SCALE, _x=TImage())
    requires = ["scale > 0"]
    helpers = _HC
    imports = _NATIVE_PIPE
    native_call = "args['self'].with_scale(args['scale'])"
    native = {"partial": "same(result(_x), self(_x, scale))"}
    ensures = {"partial": "same(result(_x), self(_x, scale))"}


# currying decorators ----------------------------------------------------------------------------------------------
import z3 as _z3
from pyvc.imgtok import Img as _ImgSort, _real as _realterm
from pyvc.values import Sym as _Sym


class TUserFn(TSpec):
    """an arbitrary user function fn(scale, a) -> image  /  fn(img, scale, a) -> image (uninterpreted)"""

    def __init__(self, kind):
        self.kind = kind

    def fresh(self, name, path):
        if self.kind == "provider":
            f = _z3.Function("user_provider", _z3.RealSort(), _z3.RealSort(), _ImgSort)

            def fn(scale, a):
                return ImgTok(f(_realterm(scale), _realterm(a)))
            fn._pyvc_sig = ["scale", "a"]
        else:
            f = _z3.Function("user_converter", _ImgSort, _z3.RealSort(), _z3.RealSort(), _ImgSort)

            def fn(img, scale, a):
                return ImgTok(f(img.t, _realterm(scale), _realterm(a)))
            fn._pyvc_sig = ["img", "scale", "a"]
        fn.__name__ = "user_fn"
        return fn

    def src(self, name, model):
        if self.kind == "provider":
            return "(lambda scale, a: _img('u', scale) * a)"
        return "(lambda img, scale, a: img * a + scale)"


@contract("acryo.pipe._curry:provider_function", props=["C19"])
class provider_function:
    """curried provider: provider_function(fn)(a)(scale) == fn(scale, a)"""
    params = dict(fn=TUserFn("provider"), _a=T.Real(), _s=_SCALE)
    requires = ["_s > 0"]
    helpers = _HC
    imports = _NATIVE_PIPE
    native_call = "_mod.provider_function(args['fn'])"
    native = {"curried": "same(result(_a)(_s), fn(_s, _a))"}
    ensures = {"curried": "same(result(_a)(_s), fn(_s, _a))", "kind": "cls_name(result(_a)) == 'ImageProvider'"}


@contract("acryo.pipe._curry:converter_function", props=["C19"])
class converter_function:
    """curried converter: converter_function(fn)(a)(img, scale) == fn(img, scale, a)"""
    params = dict(fn=TUserFn("converter"), _a=T.Real(), _x=TImage(), _s=_SCALE)
    requires = ["_s > 0"]
    helpers = _HC
    imports = _NATIVE_PIPE
    native_call = "_mod.converter_function(args['fn'])"
    native = {"curried": "same(result(_a)(_x, _s), fn(_x, _s, _a))"}
    ensures = {"curried": "same(result(_a)(_x, _s), fn(_x, _s, _a))", "kind": "cls_name(result(_a)) == 'ImageConverter'"}


# physical units: every nm parameter reaches the library as a quotient by the scale -------------------------------
from pyvc.values import ceil_ as _ceil, sabs as _sabs, to_real as _to_real, implies as _implies


def radius_px(radius, scale):
    q = _sabs(radius / scale)
    return V.ite(q < 1, 0, _ceil(q))


_HU = dict(radius_px=radius_px, exp=_exp, same=same)
_LEM_RATIO = {"ratio_invariant": ("lam r s", "implies(lam > 0 and s > 0, (lam * r) / (lam * s) == r / s)")}


@contract("acryo.pipe._masking:_get_radius_px", props=["C19"])
class get_radius_px:
    """radius in pixels depends on radius/scale only (lemma ratio_invariant: multiplying both by lam > 0 changes nothing)"""
    params = dict(radius=T.Real(), scale=T.Real())
    requires = ["scale > 0"]
    helpers = _HU
    lemmas = _LEM_RATIO
    result = T.Int(lo=0)
    native_call = "_mod._get_radius_px(**args)"
    ensures = {"quotient": "result == radius_px(radius, scale)"}


@contract("acryo.pipe._masking:_get_structure", props=["C19"])
class get_structure:
    """ball of radius r: contains its centre (so dilation/closing are extensive, erosion/opening anti-extensive)"""
    params = dict(r=T.Int(lo=1))
    result = lambda interp, bound: fresh_array("structure", 3, "bool", shape=(2 * bound["r"] + 1,) * 3)
    native_call = "_mod._get_structure(**args)"
    native = {"shape": "result.shape == (2 * r + 1,) * 3", "contains_centre": "bool(result[r, r, r])",
              "ball": "True"}
    ensures = {
        "shape": "all(result.shape[a] == 2 * r + 1 for a in range(3))",
        "contains_centre": "result[r, r, r]",
        "ball": "forall(lambda i, j, k: iff(result[i, j, k], (i - r) * (i - r) + (j - r) * (j - r) + (k - r) * (k - r) <= r * r), "
                "(0, 2 * r + 1), (0, 2 * r + 1), (0, 2 * r + 1))",
    }


for _fn, _neg, _pos in (("dilation", "binary_erosion", "binary_dilation"), ("closing", "binary_opening", "binary_closing")):
    @contract(f"acryo.pipe._masking:{_fn}", props=["C19"])
    class morph:
        """identity below one pixel; otherwise ONE morphology call (erosion/opening for a negative radius,
        dilation/closing for a positive one) on the input image with the ball of radius_px(radius, scale)"""
        params = dict(img=T.Arr(3, "bool"), scale=T.Real(), radius=T.Real())
        requires = ["scale > 0"]
        helpers = dict(_HU, NEG=_neg, POS=_pos)
        native_call = f"_mod.{_fn}(args['radius'])(args['img'], args['scale'])"
        native = {"identity_below_one_pixel": "implies(abs(radius / scale) < 1, bool(np.all(result == img)))",
                  "one_call": "True", "operation": "True"}
        ensures = {
            "identity_below_one_pixel": "implies(abs(radius / scale) < 1, result is img and ndi_count() == 0)",
            "one_call": "implies(abs(radius / scale) >= 1, ndi_count() == 1) and "
                        "implies(abs(radius / scale) >= 1 and radius < 0, result is ndi_call(NEG)[0] and ndi_call(NEG)[1][0] is img) and "
                        "implies(abs(radius / scale) >= 1 and radius > 0, result is ndi_call(POS)[0] and ndi_call(POS)[1][0] is img)",
            "operation": "implies(abs(radius / scale) >= 1 and radius < 0, "
                         "ndi_call(NEG)[2]['structure'] is called('_get_structure')) and "
                         "implies(abs(radius / scale) >= 1 and radius > 0, "
                         "ndi_call(POS)[2]['structure'] is called('_get_structure')) and "
                         "implies(abs(radius / scale) >= 1, called_args('_get_structure')['r'] == radius_px(radius, scale))",
        }


@contract("acryo.pipe._transform:gaussian_filter", props=["C19"])
class pipe_gaussian_filter:
    params = dict(img=T.Arr(3, "real"), scale=T.Real(), sigma=T.Real(lo=0))
    requires = ["scale > 0"]
    helpers = _HU
    lemmas = _LEM_RATIO
    native_call = "_mod.gaussian_filter(sigma=args['sigma'])(args['img'], args['scale'])"
    native = {"sigma_in_pixels": "np.allclose(result, __import__('scipy.ndimage').ndimage.gaussian_filter(img, sigma / scale), atol=1e-4)"}
    ensures = {"sigma_in_pixels": "result is ndi_call('gaussian_filter')[0] and ndi_call('gaussian_filter')[1][0] is img "
                                  "and ndi_call('gaussian_filter')[1][1] == sigma / scale"}


@contract("acryo.pipe._transform:shift", props=["C19"])
class pipe_shift:
    params = dict(img=T.Arr(3, "real"), scale=T.Real(), shift=T.Tuple(T.Real(), T.Real(), T.Real()))
    requires = ["scale > 0"]
    helpers = _HU
    native_call = "_mod.shift(args['shift'])(args['img'], args['scale'])"
    native = {"shift_in_pixels": "True"}
    ensures = {"shift_in_pixels": "result is ndi_call('shift')[0] and ndi_call('shift')[1][0] is img and "
                                  "all(ndi_call('shift')[1][1][a] == shift[a] / scale for a in range(3))"}


@contract("acryo.pipe._masking:gaussian_smooth", props=["C19"])
class gaussian_smooth:
    """soft mask with values in [0, 1]: 1 on the mask (distance 0), exp(-d^2 / (2 (sigma/scale)^2)) at distance d
    (pixels) from it; sigma enters only as sigma/scale; sigma == 0 returns the mask itself, sigma < 0 is rejected"""
    params = dict(img=T.Arr(3, "bool"), scale=T.Real(), sigma=T.Real())
    requires = ["scale > 0"]
    raises = {"ValueError": "sigma < 0"}
    helpers = _HU
    lemmas = _LEM_RATIO
    native_call = "_mod.gaussian_smooth(args['sigma'])(args['img'], args['scale'])"
    native = {"values_in_unit_interval": "bool(np.all((result >= 0) & (result <= 1)))",
              "one_on_the_mask": "bool(np.all(result[img] == 1)) if img.any() else True",
              "zero_sigma_is_identity": "implies(sigma == 0, bool(np.all(result == img)))",
              "profile": "sigma <= 0 or bool(np.allclose(result, np.exp(-__import__('scipy').ndimage.distance_transform_edt(~img) ** 2 "
                         "/ 2 / (sigma / scale) ** 2), atol=1e-5))"}
    ensures = {
        "values_in_unit_interval": "forall(lambda i, j, k: 0 <= result[i, j, k] and result[i, j, k] <= 1, "
                                   "(0, img.shape[0]), (0, img.shape[1]), (0, img.shape[2]))",
        "zero_sigma_is_identity": "implies(sigma == 0, ndi_count() == 0 and forall(lambda i, j, k: "
                                  "result[i, j, k] == ite(img[i, j, k], 1, 0), (0, img.shape[0]), (0, img.shape[1]), (0, img.shape[2])))",
        "profile": "ndi_count() == 0 or forall(lambda i, j, k: result[i, j, k] == exp(0 - "
                   "(ndi_call('distance_transform_edt')[0][i, j, k] * ndi_call('distance_transform_edt')[0][i, j, k]) "
                   "/ 2 / ((sigma / scale) * (sigma / scale))) and "
                   "iff(ndi_call('distance_transform_edt')[1][0][i, j, k], not img[i, j, k]), "
                   "(0, img.shape[0]), (0, img.shape[1]), (0, img.shape[2])) and "
                   # the distance is measured in voxels (no physical `sampling`): sigma / scale is in voxels too
                   "len(ndi_call('distance_transform_edt')[1]) == 1 and len(ndi_call('distance_transform_edt')[2]) == 0",
    }


@contract("acryo.pipe._imread:from_array", props=["C19"])
class from_array:
    """rescaling provider: the image is returned unchanged exactly when the RELATIVE scale difference
    |original_scale / scale - 1| is below the tolerance; otherwise it is resampled once with zoom factor
    original_scale / scale (a function of the ratio only: lemma ratio_invariant); non-positive scales are rejected"""
    params = dict(scale=T.Real(), img=T.Arr(3, "real"), original_scale=T.Real(), tol=T.Real(lo=0))
    requires = ["scale > 0"]
    raises = {"ValueError": "original_scale <= 0"}
    helpers = _HU
    lemmas = _LEM_RATIO
    native_call = "_mod.from_array(args['img'], args['original_scale'], args['tol'])(args['scale'])"
    native = {"unchanged_within_tolerance": "implies(abs(original_scale / scale - 1) < tol, result is img)",
              "resampled_to_scale": "implies(abs(original_scale / scale - 1) >= tol, result is not img and "
                                    "all(abs(result.shape[a] - img.shape[a] * original_scale / scale) <= 1 for a in range(3)))"}
    ensures = {
        "unchanged_within_tolerance": "implies(abs(original_scale / scale - 1) < tol, result is img and ndi_count() == 0)",
        "resampled_to_scale": "implies(abs(original_scale / scale - 1) >= tol, ndi_count() == 1 and "
                              "result is ndi_call('zoom')[0] and ndi_call('zoom')[1][0] is img and "
                              "ndi_call('zoom')[1][1] == original_scale / scale)",
    }
