"""C05 (and the labelling half of C04): the sub-pixel refinement stays inside +-max_shifts and never fails."""
from pyvc.contract import contract, T
from pyvc.values import trunc, sabs, ceil_

_H = dict(trunc=trunc, ceil=ceil_)

_MS = T.Tuple(T.Real(lo=0), T.Real(lo=0), T.Real(lo=0))


@contract("acryo.backend._upsample:_create_mesh", props=["C05", "C04"])
class create_mesh:
    """Caller (`upsample`): `maxima` is the arg-max index of the response cropped to 2*int(m)+1 samples per axis and
    `midpoints` its centre int(m).  Top-level clause (from the property): every shift the mesh can yield lies in
    [-max_shifts, max_shifts], and the mesh is never empty."""
    params = dict(maxima=T.Vec(3, "int"), max_shifts=_MS, midpoints=T.Vec(3, "real"),
                  pad_width_eff=T.Tuple(T.Int(lo=0), T.Int(lo=0), T.Int(lo=0)), backend=T.Backend())
    # ZNCC/NCC crop the response to +-int(m) (midpoint int(m)); FSC builds +-ceil(m) (midpoint ceil(m))
    requires = ["all(0 <= maxima[a] <= 2 * midpoints[a] for a in range(3))",
                "all(trunc(max_shifts[a]) <= midpoints[a] <= ceil(max_shifts[a]) and "
                "midpoints[a] == trunc(midpoints[a]) for a in range(3))"]
    helpers = _H
    native_call = "_mod._create_mesh(**args)"
    ensures = {
        "mesh_shape": "result[0].shape[0] == 3 and result[1].shape[0] == 3",
        "nonempty": "all(result[0].shape[a + 1] >= 1 for a in range(3))",
        # the shift reported for mesh index t on axis a is maxima - midpoints + t/20 + offset
        "within_range": "all(forall(lambda t: abs(maxima[a] - midpoints[a] + t / 20 + result[1][a]) <= max_shifts[a], "
                        "(0, result[0].shape[a + 1])) for a in range(3))",
        # mesh value = response coordinate of that shift in the *padded* response
        "mesh_coord": "forall(lambda i0, i1, i2: all(close(result[0][a, i0, i1, i2], "
                      "(i0, i1, i2)[a] / 20 + result[1][a] + maxima[a] + pad_width_eff[a]) for a in range(3)), "
                      "(0, result[0].shape[1]), (0, result[0].shape[2]), (0, result[0].shape[3]))",
    }


from pyvc.contract import fresh_array


def _mesh_result(interp, bound):
    p = interp.path
    mesh = fresh_array("mesh", 4, "real", path=p)
    off = fresh_array("mesh_offset", 1, "real", shape=(3,))
    return (mesh, off)


create_mesh.result = _mesh_result
from pyvc import contract as _C
_C.REGISTRY["acryo.backend._upsample:_create_mesh"].result = _mesh_result


@contract("acryo.backend._upsample:upsample", props=["C05", "C04"])
class upsample:
    """`res` is the response cropped to +-int(max_shifts) (2*int(m)+1 samples per axis, as all three callers build it);
    the returned shift is inside [-max_shifts, max_shifts] and no index is out of bounds."""
    params = dict(res=T.Arr(3, "real"), res_ori=T.Arr(3, "real"), max_shifts=_MS,
                  pad_width_eff=T.Tuple(T.Int(lo=0), T.Int(lo=0), T.Int(lo=0)), backend=T.Backend())
    requires = ["all(res.shape[a] == 2 * trunc(max_shifts[a]) + 1 or res.shape[a] == 2 * ceil(max_shifts[a]) + 1 "
                "for a in range(3))"]
    helpers = _H
    native_call = "_mod.upsample(**args)"
    result = lambda interp, bound: (fresh_array("shifts", 1, "real", shape=(3,)), fresh_array("corr", 0, "real"))
    ensures = {
        "shape": "result[0].shape[0] == 3",
        "within_range": "all(abs(result[0][a]) <= max_shifts[a] for a in range(3))",
    }


# ---------------------------------------------------------------------------
# correlation landscape: shapes, slices and index safety (values are uninterpreted here; labelling is C04)
from pyvc.values import ceil_ as _ceil
_H["ceil"] = _ceil
_IMG = T.Arr(3, "real")


@contract("acryo.backend._zncc:fftconvolve", props=["C05", "C04"])
class fftconvolve:
    params = dict(in1=_IMG, in2=_IMG, backend=T.Backend())
    requires = ["all(in1.shape[a] >= in2.shape[a] for a in range(3))"]
    result = lambda interp, bound: fresh_array("conv", 3, "real", path=interp.path)
    ensures = {"valid_shape": "all(result.shape[a] == in1.shape[a] - in2.shape[a] + 1 for a in range(3))"}


@contract("acryo.backend._zncc:_window_sum_3d", props=["C05", "C04"])
class window_sum_3d:
    params = dict(image=_IMG, window_shape=T.Tuple(T.Int(lo=1), T.Int(lo=1), T.Int(lo=1)), backend=T.Backend())
    requires = ["all(image.shape[a] >= window_shape[a] + 1 for a in range(3))"]
    result = lambda interp, bound: fresh_array("winsum", 3, "real", path=interp.path)
    ensures = {"shape": "all(result.shape[a] == image.shape[a] - window_shape[a] - 1 for a in range(3))"}


_REPLAY_FINITE = '''
import numpy as np, warnings
warnings.simplefilter("ignore")
from acryo.alignment import ZNCCAlignment, NCCAlignment
from acryo.backend import Backend
from acryo.backend._zncc import ncc_landscape_no_pad
rng = np.random.default_rng(0)
tmpl = rng.normal(size=(9, 9, 9)).astype(np.float32)
ok = True
for name, img in (("all-zero", np.zeros((13, 13, 13), np.float32)), ("constant", np.full((13, 13, 13), 2.5, np.float32))):
    land = np.asarray(ncc_landscape_no_pad(img, tmpl, Backend()))
    print(name, "image: landscape finite:", bool(np.isfinite(land).all()))
    ok = ok and bool(np.isfinite(land).all())
    for M in (ZNCCAlignment, NCCAlignment):
        r = M(tmpl).align(img[2:11, 2:11, 2:11], (1.5, 1.5, 1.5))
        print("  ", M.__name__, "score", r.score, "shift", r.shift)
        ok = ok and bool(np.isfinite(r.score)) and bool(np.isfinite(r.shift).all())
print("clause holds natively (finite landscape / score for windows without variance):", ok)
print("CONFIRMED" if not ok else "NOT-CONFIRMED"); sys.exit(1 if not ok else 0)
'''


@contract("acryo.backend._zncc:ncc_landscape_no_pad", props=["C05", "C04"])
class ncc_landscape_no_pad:
    """shape of the landscape; and a finite value everywhere: the normalisation divides only where the window variance
    is positive (`safety.finite_div`: no element of an array divisor is zero -- numpy would give nan / inf, not raise)"""
    params = dict(img0=_IMG, img1=_IMG, backend=T.Backend())
    requires = ["all(img0.shape[a] >= img1.shape[a] + 2 for a in range(3))"]
    setup = staticmethod(lambda interp: setattr(interp, "finite_div", True))
    replay = staticmethod(lambda ob, meta, model: _REPLAY_FINITE)
    result = lambda interp, bound: fresh_array("response", 3, "real", path=interp.path)
    ensures = {"shape": "all(result.shape[a] == img0.shape[a] - img1.shape[a] - 1 for a in range(3))"}


@contract("acryo.backend._zncc:ncc_landscape", props=["C05", "C04"])
class ncc_landscape:
    params = dict(img0=_IMG, img1=_IMG, max_shifts=_MS, backend=T.Backend(), constant_values=T.Real())
    requires = ["all(img0.shape[a] == img1.shape[a] for a in range(3))"]
    helpers = _H
    result = lambda interp, bound: fresh_array("response", 3, "real", path=interp.path)
    ensures = {"shape": "all(result.shape[a] == 2 * ceil(max_shifts[a] + 3) - 1 for a in range(3))"}


for _name in ("subpixel_zncc", "subpixel_ncc"):
    @contract(f"acryo.backend._zncc:{_name}", props=["C05", "C04"])
    class subpixel_xncc:
        """C05 at the backend entry point: for every max_shifts >= 0 (tuple, or one number for all axes) no exception,
        every index in bounds, |shift| <= max_shifts."""
        params = dict(img0=_IMG, img1=_IMG, max_shifts=T.OneOf(_MS, T.Real(lo=0)), backend=T.Backend())
        requires = ["all(img0.shape[a] == img1.shape[a] for a in range(3))"]
        helpers = dict(_H, ms=lambda m, a: m[a] if isinstance(m, tuple) else m)
        native_call = f"_mod.{_name}(**args)"
        result = lambda interp, bound: (fresh_array("shifts", 1, "real", shape=(3,)), fresh_array("corr", 0, "real"))
        ensures = {"within_range": "all(abs(result[0][a]) <= ms(max_shifts, a) for a in range(3))"}


# ---------------------------------------------------------------------------
# phase correlation
_CIMG = T.Arr(3, "real")      # spectra: values uninterpreted, only shapes / indices matter here


def crop_lo(s, l):
    return max(s // 2 - l, 0)


def crop_hi(s, r):
    return min(s // 2 + r + 1, s)


from pyvc.values import smax as _smax, smin as _smin
_HP = dict(_H, crop_lo=lambda s, l: _smax(s // 2 - l, 0), crop_hi=lambda s, r: _smin(s // 2 + r + 1, s))


@contract("acryo.backend._pcc:crop_by_max_shifts", props=["C05", "C04"])
class crop_by_max_shifts:
    """Crops the (un-shifted, FFT-ordered) power array to displacements -left..right around zero and returns it in FFT
    order again: element i of the result must be the power at signed displacement fftindex(i, L) ... as long as the
    window is the symmetric one; the clause below states the exact index map of what the code does."""
    params = dict(power=_CIMG, left=T.Vec(3, "int", lo=0), right=T.Vec(3, "int", lo=0), backend=T.Backend())
    requires = []
    helpers = _HP
    result = lambda interp, bound: fresh_array("cropped", 3, "real", path=interp.path)
    ensures = {
        "shape": "all(result.shape[a] == crop_hi(power.shape[a], right[a]) - crop_lo(power.shape[a], left[a]) "
                 "for a in range(3))",
        "nonempty": "all(result.shape[a] >= 1 for a in range(3))",
    }


@contract("acryo.backend._pcc:_upsampled_dft", props=["C05", "C04"])
class upsampled_dft:
    """Matrix-multiply DFT (complex exponentials): numerics outside the value domain; trusted shape contract."""
    trusted = True
    params = dict(data=_CIMG, upsampled_region_size=T.Int(lo=1), upsample_factor=T.Int(lo=1),
                  axis_offsets=T.Vec(3, "real"), backend=T.Backend())
    result = lambda interp, bound: fresh_array("updft", 3, "real",
                                               shape=(bound["upsampled_region_size"],) * 3)
    ensures = {"shape": "all(result.shape[a] == upsampled_region_size for a in range(3))"}


@contract("acryo.backend._pcc:subpixel_pcc", props=["C05", "C04"])
class subpixel_pcc:
    params = dict(f0=_CIMG, f1=_CIMG, upsample_factor=T.OneOf(20, 1), max_shifts=_MS, backend=T.Backend())
    requires = ["all(f0.shape[a] == f1.shape[a] for a in range(3))"]
    native_call = "_mod.subpixel_pcc(**{**args, 'f0': np.fft.fftn(args['f0']), 'f1': np.fft.fftn(args['f1'])})"
    ensures = {"within_range": "all(abs(result[0][a]) <= max_shifts[a] for a in range(3))"}



# ---------------------------------------------------------------------------
# FSC
@contract("acryo.backend._fsc:fsc_landscape", props=["C05", "C04"])
class fsc_landscape:
    """Triple loop over the phase-ramp lists (length 2*ceil(m)+1 each, symbolic): outside the executor's subset without
    loop invariants; the shape contract is trusted here and exercised by the bounded check."""
    trusted = True
    params = dict(ft0=_CIMG, ft1=_CIMG, max_shifts=_MS, backend=T.Backend())
    helpers = _H
    result = lambda interp, bound: fresh_array("fsc_landscape", 3, "real", path=interp.path)
    ensures = {"shape": "all(result.shape[a] == 2 * ceil(max_shifts[a]) + 1 for a in range(3))"}


@contract("acryo.backend._fsc:subpixel_fsc", props=["C05", "C04"])
class subpixel_fsc:
    params = dict(ft0=_CIMG, ft1=_CIMG, max_shifts=_MS, backend=T.Backend())
    requires = ["all(ft0.shape[a] == ft1.shape[a] for a in range(3))"]
    native_call = "_mod.subpixel_fsc(**{**args, 'ft0': np.fft.fftn(args['ft0']), 'ft1': np.fft.fftn(args['ft1'])})"
    ensures = {"within_range": "all(abs(result[0][a]) <= max_shifts[a] for a in range(3))"}
