"""C05 (and the labelling half of C04): the sub-pixel refinement stays inside +-max_shifts and never fails."""
from pyvc.contract import contract, T
from pyvc.values import trunc, sabs

_H = dict(trunc=trunc)

_MS = T.Tuple(T.Real(lo=0), T.Real(lo=0), T.Real(lo=0))


@contract("acryo.backend._upsample:_create_mesh", props=["C05", "C04"])
class create_mesh:
    """Caller (`upsample`): `maxima` is the arg-max index of the response cropped to 2*int(m)+1 samples per axis and
    `midpoints` its centre int(m).  Top-level clause (from the property): every shift the mesh can yield lies in
    [-max_shifts, max_shifts], and the mesh is never empty."""
    params = dict(maxima=T.Vec(3, "int"), max_shifts=_MS, midpoints=T.Vec(3, "real"),
                  pad_width_eff=T.Tuple(T.Int(lo=0), T.Int(lo=0), T.Int(lo=0)), backend=T.Backend())
    requires = ["all(0 <= maxima[a] <= 2 * trunc(max_shifts[a]) for a in range(3))",
                "all(midpoints[a] == trunc(max_shifts[a]) for a in range(3))"]
    helpers = _H
    native_call = "_mod._create_mesh(**args)"
    ensures = {
        "mesh_shape": "result[0].shape[0] == 3 and result[1].shape[0] == 3",
        "nonempty": "all(result[0].shape[a + 1] >= 1 for a in range(3))",
        # the shift reported for mesh index t on axis a is maxima - midpoints + t/20 + offset
        "within_range": "all(forall(lambda t: abs(maxima[a] - midpoints[a] + t / 20 + result[1][a]) <= max_shifts[a], "
                        "(0, result[0].shape[a + 1])) for a in range(3))",
        # mesh value = response coordinate of that shift in the *padded* response
        "mesh_coord": "forall(lambda i0, i1, i2: all(close(result[0][a, i0, i1, i2], "
                      "(i0, i1, i2)[a] / 20 + result[1][a] + maxima[a] + pad_width_eff[a]) for a in range(3)), "
                      "(0, result[0].shape[1]), (0, result[0].shape[2]), (0, result[0].shape[3]))",
    }


from pyvc.contract import fresh_array


def _mesh_result(interp, bound):
    p = interp.path
    mesh = fresh_array("mesh", 4, "real", path=p)
    off = fresh_array("mesh_offset", 1, "real", shape=(3,))
    return (mesh, off)


create_mesh.result = _mesh_result
from pyvc import contract as _C
_C.REGISTRY["acryo.backend._upsample:_create_mesh"].result = _mesh_result


@contract("acryo.backend._upsample:upsample", props=["C05", "C04"])
class upsample:
    """`res` is the response cropped to +-int(max_shifts) (2*int(m)+1 samples per axis, as all three callers build it);
    the returned shift is inside [-max_shifts, max_shifts] and no index is out of bounds."""
    params = dict(res=T.Arr(3, "real"), res_ori=T.Arr(3, "real"), max_shifts=_MS,
                  pad_width_eff=T.Tuple(T.Int(lo=0), T.Int(lo=0), T.Int(lo=0)), backend=T.Backend())
    requires = ["all(res.shape[a] == 2 * trunc(max_shifts[a]) + 1 for a in range(3))"]
    helpers = _H
    native_call = "_mod.upsample(**args)"
    result = lambda interp, bound: (fresh_array("shifts", 1, "real", shape=(3,)), fresh_array("corr", 0, "real"))
    ensures = {
        "shape": "result[0].shape[0] == 3",
        "within_range": "all(abs(result[0][a]) <= max_shifts[a] for a in range(3))",
    }
