"""C15: binning sums b x b x b blocks, multiplies the scale by b and keeps molecules on the same physical point."""
from pyvc.contract import contract, T, fresh_array, make_obj, TSpec
from pyvc import values as V
from pyvc import symex as X

_IMG = T.Arr(3, "real")


@contract("acryo._utils:bin_image", props=["C15"])
class bin_image:
    """result = axis-sum, over the three within-block axes, of the (n0, b, n1, b, n2, b) view whose element
    [j0,t0,j1,t1,j2,t2] is img[j0*b+t0, j1*b+t1, j2*b+t2]; shape s // b (remainder dropped)."""
    params = dict(img=_IMG, binsize=T.Int(lo=1))
    result = lambda interp, bound: fresh_array("binned", 3, "real", path=interp.path)
    native_call = "np.asarray(_mod.bin_image(**args))"
    native = {
        "shape": "all(result.shape[a] == img.shape[a] // binsize for a in range(3))",
        "summed_axes": "True", "block_shape": "True",
        "block_elements": "all(close(result[j0, j1, j2], img[j0*binsize:(j0+1)*binsize, j1*binsize:(j1+1)*binsize, "
                          "j2*binsize:(j2+1)*binsize].sum(), 1e-3) for j0 in range(result.shape[0]) "
                          "for j1 in range(result.shape[1]) for j2 in range(result.shape[2]))",
    }
    ensures = {
        "shape": "all(result.shape[a] == img.shape[a] // binsize for a in range(3))",
        "summed_axes": "sum_axes(result) == (1, 3, 5)",
        "block_shape": "all(sum_src(result).shape[2 * a] == img.shape[a] // binsize and "
                       "sum_src(result).shape[2 * a + 1] == binsize for a in range(3))",
        "block_elements": "forall(lambda j0, t0, j1, t1, j2, t2: sum_src(result)[j0, t0, j1, t1, j2, t2] == "
                          "img[j0 * binsize + t0, j1 * binsize + t1, j2 * binsize + t2], "
                          "(0, img.shape[0] // binsize), (0, binsize), (0, img.shape[1] // binsize), (0, binsize), "
                          "(0, img.shape[2] // binsize), (0, binsize))",
    }
    call_ensures = ["shape"]


# ---------------------------------------------------------------------------
from contracts.common import TMolecules, TLoader, NATIVE_IMPORTS


def shift_at(shifts, i, a):
    """component a of the shift applied to molecule i: a (3,) shift is broadcast, an (N, 3) shift is row-wise"""
    from pyvc.arrays import SArr
    if isinstance(shifts, SArr) and shifts.ndim == 2:
        return shifts.at((i, a))
    if isinstance(shifts, SArr):
        return shifts.at((a,))
    return shifts[a]


@contract("acryo.molecules.core:Molecules.translate", props=["C15", "C11"])
class mol_translate:
    helpers = dict(shift_at=shift_at)
    """world translation: positions + shifts row-wise, orientations and features untouched; copy=True leaves the
    receiver unmodified (frame)."""
    params = dict(self=TMolecules(features=["f0"]), shifts=T.Tuple(T.Real(), T.Real(), T.Real()), copy=T.OneOf(True, False))
    imports = NATIVE_IMPORTS
    native_call = "args['self'].translate(list(args['shifts']), copy=args['copy'])"
    native = {"positions": "True",
              "count": "len(result) == len(self)", "rotator_kept": "np.allclose(result.rotator.as_matrix(), self.rotator.as_matrix())",
              "frame_copy": "True", "features_kept": "True"}
    ensures = {
        "count": "result._pos.shape[0] == self._pos.shape[0] and result._pos.shape[1] == 3",
        "positions": "forall(lambda i: all(result._pos[i, a] == old(self)._pos[i, a] + shift_at(shifts, i, a) "
                     "for a in range(3)), (0, old(self)._pos.shape[0]))",
        "rotator_kept": "result._rotator is self._rotator",
        "features_kept": "result._features is None if self._features is None else "
                         "forall(lambda i: result._features.rowid[i] == self._features.rowid[i], (0, self._pos.shape[0]))",
        "frame_copy": "implies(copy, writes_to(self) == 0 and result is not self)",
    }


_BIN = "acryo._utils:bin_image"
_TR = "acryo.molecules.core:Molecules.translate"


def _mol_result(interp, bound):
    """modular result of Molecules.translate: a fresh Molecules with uninterpreted positions"""
    import z3
    from pyvc.values import Sym, fresh_name
    from pyvc.arrays import SArr
    me = bound["self"]
    n = me.attrs["_pos"].shape[0]
    f = z3.Function(fresh_name("translated_pos"), z3.IntSort(), z3.IntSort(), z3.RealSort())
    pos = SArr((n, 3), lambda idx: Sym(f(V.lift(idx[0]), V.lift(idx[1]))), "real")
    feat = me.attrs["_features"]
    if bound["copy"] is True:
        return X.Obj(me.cls, {"_pos": pos, "_rotator": me.attrs["_rotator"],
                              "_features": feat.clone() if feat is not None else None})
    # copy=False: the receiver itself gets the new positions
    interp.setattr(me, "_pos", pos)
    return me


from pyvc import contract as _C
_C.REGISTRY[_TR].result = _mol_result
_C.REGISTRY[_TR].call_ensures = ["positions"]


@contract("acryo.loader._loader:SubtomogramLoader.binning", props=["C15"])
class loader_binning:
    """binned loader: image = bin_image(image, b) (lazy or computed: same values), scale' = b * scale, and every
    molecule keeps its physical location: pos'/scale' == (pos/scale - (b-1)/2) / b, i.e. the centre of binned voxel j
    is the centre of the block of original voxels j*b .. j*b+b-1; orientation/features/order kept; source loader
    untouched."""
    params = dict(self=TLoader(TMolecules(features=["f0"])), binsize=T.Int(lo=1), compute=T.OneOf(True, False))
    imports = NATIVE_IMPORTS
    native_call = "args['self'].binning(args['binsize'], compute=args['compute'])"
    native = {
        "scale": "close(result.scale, self.scale * binsize)",
        "same_physical_point": "np.allclose(result.molecules.pos / result.scale, "
                               "(self.molecules.pos / self.scale - (binsize - 1) / 2) / binsize, atol=1e-3)",
        "image_binned": "np.allclose(np.asarray(result.image), __import__('acryo')._utils.bin_image(np.asarray(self.image), binsize))",
        "count": "len(result.molecules) == len(self.molecules)", "kept": "result.order == self.order",
        "frame": "True",
    }
    ensures = {
        "scale": "result._scale == self._scale * binsize",
        "count": "result._molecules._pos.shape[0] == self._molecules._pos.shape[0]",
        "same_physical_point":
            "forall(lambda i: all(result._molecules._pos[i, a] / result._scale == "
            "(old(self._molecules)._pos[i, a] / self._scale - (binsize - 1) / 2) / binsize for a in range(3)), "
            "(0, self._molecules._pos.shape[0]))",
        "image_binned": "implies(binsize != 1, result._image is called('%s') and called_args('%s')['img'] is self._image "
                        "and called_args('%s')['binsize'] == binsize)" % (_BIN, _BIN, _BIN),
        "image_same_if_1": "implies(binsize == 1, result._image is self._image)",
        "kept": "result._order == self._order and result._corner_safe == self._corner_safe and "
                "result._molecules._rotator is self._molecules._rotator",
        "frame": "writes_to(self) == 0 and writes_to(self._molecules) == 0 and result is not self",
    }


from contracts.common import TBatchLoader


def is_image_of_shape(x, shape):
    from pyvc.arrays import SArr
    from pyvc.contract import shape_eq
    if not isinstance(x, SArr):
        return False
    return shape_eq(x.shape, shape)


@contract("acryo.loader._batch:BatchLoader.binning", props=["C15"])
class batch_binning:
    helpers = dict(is_image_of_shape=is_image_of_shape)
    """same clauses as the single loader, for every image of the batch, for lazy (dask) and computed images; no
    exception for any b >= 1 and either compute flag (verified for 1 and 2 tomograms per batch)."""
    params = dict(self=TBatchLoader((1, 2)), binsize=T.Int(lo=1), compute=T.OneOf(True, False))
    imports = NATIVE_IMPORTS
    native_call = "args['self'].binning(args['binsize'], compute=args['compute'])"
    native = {
        "scale": "close(result.scale, self.scale * binsize)",
        "same_physical_point": "np.allclose(result.molecules.pos / result.scale, "
                               "(self.molecules.pos / self.scale - (binsize - 1) / 2) / binsize, atol=1e-3)",
        "images_binned": "all(np.allclose(np.asarray(result.images[k]), __import__('acryo')._utils.bin_image(np.asarray(self.images[k]), binsize)) for k in self.images)",
        "count": "len(result.molecules) == len(self.molecules)", "frame": "True",
    }
    ensures = {
        "scale": "result._scale == self._scale * binsize",
        "count": "result._molecules._pos.shape[0] == self._molecules._pos.shape[0]",
        "same_physical_point":
            "forall(lambda i: all(result._molecules._pos[i, a] / result._scale == "
            "(old(self._molecules)._pos[i, a] / self._scale - (binsize - 1) / 2) / binsize for a in range(3)), "
            "(0, self._molecules._pos.shape[0]))",
        "images_binned": "implies(binsize != 1, len(result._images) == len(self._images) and "
                         "all(k in result._images and is_image_of_shape(result._images.get(k), "
                         "tuple(s // binsize for s in self._images[k].shape)) for k in self._images))",
        "frame": "writes_to(self) == 0 and writes_to(self._images) == 0 and writes_to(self._molecules) == 0 "
                 "and result is not self",
    }
