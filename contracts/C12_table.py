"""C12: table operations keep a molecule's position, orientation and features together.

A Molecules object is three parallel containers (positions (N,3), a rotation batch of N, a feature frame of N rows).
Every operation below gets the postcondition "row j of the result is row src(j) of the input, in all three
containers, for the same index map src", with src taken from the operation's meaning (numpy / polars selection
semantics, see pyvc/frames.py for the trusted polars contract), plus agreement of the three lengths."""
from pyvc.contract import contract, T, fresh_array, make_obj, TSpec
from pyvc import values as V
from pyvc import arrays as A
from pyvc import frames as F
from pyvc.arrays import SArr
from contracts.common import TMolecules, NATIVE_IMPORTS
from contracts.C11_poses import M, mateq

_MOL = TMolecules(features=["f0"])
_MOL0 = TMolecules(features=None)


def n_of(m):
    return m.attrs["_pos"].shape[0]


def feat_n(m):
    """number of feature rows (None: no feature table, which stands for `as many as molecules`)"""
    f = m.attrs["_features"]
    return None if f is None else f.n


def lengths_agree(m):
    """class invariant: positions, orientations and feature rows have the same count"""
    n = n_of(m)
    rot = m.attrs["_rotator"]
    ok = V.compare("==", rot.n, n) if rot.n is not None else V.compare("==", n, 1)
    f = m.attrs["_features"]
    if f is not None:
        ok = V.sand(ok, V.compare("==", f.n, n))
    return ok


def _py_index(i, n):
    """Python / numpy normalisation of a possibly negative index"""
    return V.ite(V.compare("<", i, 0), V.arith("+", i, n), i) if V.is_sym(i) else (i + n if i < 0 else i)


def _clamp(x, lo, hi):
    return V.smax(lo, V.smin(x, hi))


def src_of(spec, n):
    """(count, j -> source row) of numpy-style row selection `spec` over n rows (step-1 slices, integer arrays with
    Python negative indexing, boolean masks, one integer)"""
    if isinstance(spec, slice):
        start = 0 if spec.start is None else _clamp(_py_index(spec.start, n), 0, n)
        stop = n if spec.stop is None else _clamp(_py_index(spec.stop, n), 0, n)
        return V.smax(V.arith("-", stop, start), 0), (lambda j: V.arith("+", start, j))
    if isinstance(spec, SArr) and spec.dtype == "bool":
        cnt, sel, _ = A.mask_selection(spec)
        return cnt, sel
    if isinstance(spec, SArr):
        f = spec.snapshot()
        return spec.shape[0], (lambda j: _py_index(f((j,)), n))
    return 1, (lambda j: spec)


def same_row(res, j, src, i, cols=("f0",)):
    """row j of `res` is row i of `src`: position, orientation matrix and every feature value"""
    parts = [V.compare("==", res.attrs["_pos"].at((j, a)), src.attrs["_pos"].at((i, a))) for a in range(3)]
    parts.append(mateq(M(res.attrs["_rotator"], j), M(src.attrs["_rotator"], i)))
    fs, fr = src.attrs["_features"], res.attrs["_features"]
    if fs is not None:
        if fr is None:
            return False
        for c in fs.cols:
            if c not in fr.cols:
                return False
            parts.append(V.compare("==", fr.cols[c].at((j,)), fs.cols[c].at((i,))))
    return V.sand(*parts)


def spec_kind(spec):
    if isinstance(spec, slice):
        return "slice"
    if isinstance(spec, SArr) or type(spec).__name__ == "ndarray":
        return "mask" if str(spec.dtype) == "bool" else "index"
    return "int"


_H = dict(spec_kind=spec_kind, n_of=n_of, feat_n=feat_n, lengths_agree=lengths_agree, src_of=src_of, same_row=same_row, M=M, mateq=mateq)


def _native_same_rows(result, src, idx):
    import numpy as np
    idx = list(idx)
    ok = len(result) == len(idx) and np.allclose(result.pos, src.pos[idx]) and \
        np.allclose(result.rotator.as_matrix(), src.rotator.as_matrix()[idx], atol=1e-6)
    ok = ok and result.features.shape[0] in (len(idx), 0) and result.pos.shape[0] == len(result.rotator)
    if src.features.shape[1] > 0:
        ok = ok and result.features.shape[0] == len(idx) and \
            all(result.features[c].to_list() == src.features[c][idx].to_list() for c in src.features.columns)
    return bool(ok)


def _native_src(spec, n):
    import numpy as np
    return list(np.arange(n)[spec if not isinstance(spec, int) else slice(spec, spec + 1)])


_NH = dict(spec_kind=spec_kind, _native_same_rows=_native_same_rows, _native_src=_native_src)

from pyvc.contract import TArr, _mget


class TIndexArr(TArr):
    """1-d integer array of row indices; the replay builds in-range indices (some negative) for the model's row count"""

    def __init__(self, rows="self_N"):
        TArr.__init__(self, 1, "int", min_size=0)
        self.rows = rows

    def src(self, name, model):
        n = max(int(_mget(model, self.rows, 3)), 0)
        k = int(_mget(model, f"{name}_shape_0", 4))
        if n == 0:
            return "np.zeros(0, dtype=np.int64)"
        return f"((np.arange({k}) * 7 + 2) % {n}) - (np.arange({k}) % 2) * {n}"


class TMaskArr(TArr):
    """1-d boolean mask with one entry per row"""

    def __init__(self, rows="self_N"):
        TArr.__init__(self, 1, "bool", min_size=0)
        self.rows = rows

    def src(self, name, model):
        n = max(int(_mget(model, self.rows, 3)), 0)
        return f"(np.arange({n}) % 3 != 1)"


_SPEC = T.OneOf(T.Int(), T.Slice(), TIndexArr(), TMaskArr())


@contract("acryo.molecules.core:Molecules.subset", props=["C12"])
class subset:
    """int, slice, integer-array and boolean-mask selection: the three containers are cut with the same index map."""
    params = dict(self=_MOL, spec=_SPEC)
    requires = [
        "lengths_agree(self)",
        # index arrays address existing rows (numpy / polars reject anything else); masks have one entry per molecule
        "spec_kind(spec) != 'index' or forall(lambda j: -n_of(self) <= spec[j] < n_of(self), (0, spec.shape[0]))",
        "spec_kind(spec) != 'mask' or spec.shape[0] == n_of(self)",
        "spec_kind(spec) != 'slice' or spec.step is None",
    ]
    helpers = _H
    native_helpers = _NH
    imports = NATIVE_IMPORTS
    raises = {"IndexError": "spec_kind(spec) == 'int' and (spec < 0 or spec >= n_of(self))"}
    native_call = "args['self'].subset(args['spec'])"
    native = {"count": "len(result) == len(_native_src(spec, len(self)))",
              "lengths_agree": "result.pos.shape[0] == len(result.rotator) and result.features.shape[0] in (len(result), 0)",
              "rows_stay_together": "_native_same_rows(result, self, _native_src(spec, len(self)))"}
    ensures = {
        "count": "n_of(result) == src_of(spec, n_of(self))[0]",
        "lengths_agree": "lengths_agree(result)",
        "rows_stay_together": "forall(lambda j: same_row(result, j, self, src_of(spec, n_of(self))[1](j)), "
                              "(0, src_of(spec, n_of(self))[0]))",
    }
