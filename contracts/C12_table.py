"""C12: table operations keep a molecule's position, orientation and features together.

A Molecules object is three parallel containers (positions (N,3), a rotation batch of N, a feature frame of N rows).
Every operation below gets the postcondition "row j of the result is row src(j) of the input, in all three
containers, for the same index map src", with src taken from the operation's meaning (numpy / polars selection
semantics, see pyvc/frames.py for the trusted polars contract), plus agreement of the three lengths."""
from pyvc.contract import contract, T, fresh_array, make_obj, TSpec
from pyvc import values as V
from pyvc import arrays as A
from pyvc import frames as F
from pyvc.arrays import SArr
from contracts.common import TMolecules, NATIVE_IMPORTS
from contracts.C11_poses import M, mateq

_MOL = TMolecules(features=["f0"])
_MOL0 = TMolecules(features=None)


def n_of(m):
    return m.attrs["_pos"].shape[0]


def feat_n(m):
    """number of feature rows (None: no feature table, which stands for `as many as molecules`)"""
    f = m.attrs["_features"]
    return None if f is None else f.n


def lengths_agree(m):
    """class invariant: positions, orientations and feature rows have the same count"""
    n = n_of(m)
    rot = m.attrs["_rotator"]
    # (an empty set of molecules carries one identity rotation as a placeholder: scipy's single Rotation)
    ok = V.compare("==", rot.n, n) if rot.n is not None else V.compare("==", n, 0)
    f = m.attrs["_features"]
    if f is not None and f.cols:          # (a table without columns is polars' empty frame: no features)
        ok = V.sand(ok, V.compare("==", f.n, n))
    return ok


def _py_index(i, n):
    """Python / numpy normalisation of a possibly negative index"""
    return V.ite(V.compare("<", i, 0), V.arith("+", i, n), i) if V.is_sym(i) else (i + n if i < 0 else i)


def _clamp(x, lo, hi):
    return V.smax(lo, V.smin(x, hi))


def src_of(spec, n):
    """(count, j -> source row) of numpy-style row selection `spec` over n rows (step-1 slices, integer arrays with
    Python negative indexing, boolean masks, one integer)"""
    if isinstance(spec, slice):
        start = 0 if spec.start is None else _clamp(_py_index(spec.start, n), 0, n)
        stop = n if spec.stop is None else _clamp(_py_index(spec.stop, n), 0, n)
        return V.smax(V.arith("-", stop, start), 0), (lambda j: V.arith("+", start, j))
    if isinstance(spec, SArr) and spec.dtype == "bool":
        cnt, sel, _ = A.mask_selection(spec)
        return cnt, sel
    if isinstance(spec, SArr):
        f = spec.snapshot()
        return spec.shape[0], (lambda j: _py_index(f((j,)), n))
    return 1, (lambda j: spec)


def same_row(res, j, src, i, with_features=True):
    """row j of `res` is row i of `src`: position, orientation matrix and (unless disabled) every feature value"""
    parts = [V.compare("==", res.attrs["_pos"].at((j, a)), src.attrs["_pos"].at((i, a))) for a in range(3)]
    parts.append(mateq(M(res.attrs["_rotator"], j), M(src.attrs["_rotator"], i)))
    fs, fr = src.attrs["_features"], res.attrs["_features"]
    if fs is not None and with_features:
        if fr is None:
            return False
        for c in fs.cols:
            if c not in fr.cols:
                return False
            parts.append(V.compare("==", fr.cols[c].at((j,)), fs.cols[c].at((i,))))
    return V.sand(*parts)


def spec_kind(spec):
    if isinstance(spec, slice):
        return "slice"
    if isinstance(spec, SArr) or type(spec).__name__ == "ndarray":
        return "mask" if str(spec.dtype) == "bool" else "index"
    return "int"


def rot_len(rot):
    return rot.n


def frame_rows(fr):
    return fr.n


def _native_invariant(m):
    rot_ok = (len(m) == 0 and m.rotator.single) or (not m.rotator.single and len(m.rotator) == m.pos.shape[0])
    return bool(rot_ok and (m._features is None or m._features.shape == (0, 0) or m._features.shape[0] == m.pos.shape[0]))


_H = dict(rot_len=rot_len, frame_rows=frame_rows, spec_kind=spec_kind, n_of=n_of, feat_n=feat_n, lengths_agree=lengths_agree, src_of=src_of, same_row=same_row, M=M, mateq=mateq)


def _native_same_rows(result, src, idx):
    import numpy as np
    idx = list(idx)
    ok = len(result) == len(idx) and np.allclose(result.pos, src.pos[idx]) and \
        np.allclose(result.rotator.as_matrix(), src.rotator.as_matrix()[idx], atol=1e-6)
    ok = ok and result.features.shape[0] in (len(idx), 0) and result.pos.shape[0] == len(result.rotator)
    if src.features.shape[1] > 0:
        ok = ok and result.features.shape[0] == len(idx) and \
            all(result.features[c].to_list() == src.features[c][idx].to_list() for c in src.features.columns)
    return bool(ok)


def _native_src(spec, n):
    import numpy as np
    return list(np.arange(n)[spec if not isinstance(spec, int) else slice(spec, spec + 1)])


_NH = dict(rot_len=lambda r: None if r.single else len(r), frame_rows=lambda f: f.shape[0], _native_invariant=_native_invariant, spec_kind=spec_kind, _native_same_rows=_native_same_rows, _native_src=_native_src)

from pyvc.contract import TArr, _mget


class TIndexArr(TArr):
    """1-d integer array of row indices; the replay builds in-range indices (some negative) for the model's row count"""

    def __init__(self, rows="self_N"):
        TArr.__init__(self, 1, "int", min_size=0)
        self.rows = rows

    def src(self, name, model):
        n = max(int(_mget(model, self.rows, 3)), 0)
        k = int(_mget(model, f"{name}_shape_0", 4))
        if n == 0:
            return "np.zeros(0, dtype=np.int64)"
        return f"((np.arange({k}) * 7 + 2) % {n}) - (np.arange({k}) % 2) * {n}"


class TMaskArr(TArr):
    """1-d boolean mask with one entry per row"""

    def __init__(self, rows="self_N"):
        TArr.__init__(self, 1, "bool", min_size=0)
        self.rows = rows

    def src(self, name, model):
        n = max(int(_mget(model, self.rows, 3)), 0)
        return f"(np.arange({n}) % 3 != 1)"


_SPEC = T.OneOf(T.Int(), T.Slice(), TIndexArr(), TMaskArr())


@contract("acryo.molecules.core:Molecules.subset", props=["C12"])
class subset:
    """int, slice, integer-array and boolean-mask selection: the three containers are cut with the same index map."""
    params = dict(self=_MOL, spec=_SPEC)
    requires = [
        "lengths_agree(self)",
        # index arrays address existing rows (numpy / polars reject anything else); masks have one entry per molecule
        "spec_kind(spec) != 'index' or forall(lambda j: -n_of(self) <= spec[j] < n_of(self), (0, spec.shape[0]))",
        "spec_kind(spec) != 'mask' or spec.shape[0] == n_of(self)",
        "spec_kind(spec) != 'slice' or spec.step is None",
    ]
    helpers = _H
    native_helpers = _NH
    imports = NATIVE_IMPORTS
    raises = {"IndexError": "spec_kind(spec) == 'int' and (spec < 0 or spec >= n_of(self))"}
    native_call = "args['self'].subset(args['spec'])"
    native = {"count": "len(result) == len(_native_src(spec, len(self)))",
              "lengths_agree": "_native_invariant(result)",
              "rows_stay_together": "_native_same_rows(result, self, _native_src(spec, len(self)))"}
    ensures = {
        "count": "n_of(result) == src_of(spec, n_of(self))[0]",
        "lengths_agree": "lengths_agree(result)",
        "rows_stay_together": "forall(lambda j: same_row(result, j, self, src_of(spec, n_of(self))[1](j)), "
                              "(0, src_of(spec, n_of(self))[0]))",
    }


# ---------------------------------------------------------------------------
# construction: the class invariant is established or the input rejected
class TFrame(TSpec):
    """a polars frame with a symbolic number of rows (named `<name>_rows`) and the given columns"""

    def __init__(self, cols=("f0",), rows=None):
        self.cols, self.rows = tuple(cols), rows

    def fresh(self, name, path):
        import z3
        n = V.Sym(z3.Int(self.rows or f"{name}_rows"))
        path.assume(n >= 0)
        return F.FrameV.symbolic(name, n, list(self.cols))

    def src(self, name, model):
        n = max(int(_mget(model, self.rows or f"{name}_rows", 3)), 0)
        cols = ", ".join(f"{c!r}: np.arange({n}) * {i + 2}.5" for i, c in enumerate(self.cols))
        return "_pl.DataFrame({" + cols + "})"


_IMPORTS = NATIVE_IMPORTS + "\nimport polars as _pl\n"

from contracts.common import TRotBatch


def _native_owns(cls, pos, rot, features):
    """the constructor copies a position array that already has the stored dtype (float32)"""
    import numpy as np
    p32 = np.ascontiguousarray(np.atleast_2d(np.asarray(pos, dtype=np.float32)))
    m = cls(p32, rot, features)
    return m._pos is not p32 and not np.shares_memory(m._pos, p32)


@contract("acryo.molecules.core:Molecules.__init__", props=["C12", "C11"])
class mol_init:
    """positions (P, K), an optional batch of R rotations, an optional feature table of F rows: accepted only when
    K == 3, R == P and F == P (a 0 x 0 table counts as `no features`); the object then satisfies the invariant."""
    params = dict(self=T.Obj("acryo.molecules.core:Molecules", {}), pos=T.Arr(2, "real", min_size=0),
                  rot=T.OneOf(None, TRotBatch("R_count")), features=T.OneOf(None, TFrame(("f0",))))
    requires = ["rot is None or rot.n >= 0"]
    helpers = _H
    imports = _IMPORTS
    native_call = "_Molecules(args['pos'], args['rot'], args['features'])"
    native_helpers = dict(_NH, _native_owns=_native_owns)
    raises = {"ValueError": "pos.shape[1] != 3 or (rot is not None and rot_len(rot) != pos.shape[0]) or "
                            "(features is not None and frame_rows(features) != pos.shape[0])"}
    native = {"invariant": "_native_invariant(result)",
              "stores_inputs": "np.allclose(result.pos, pos) and (rot is None or np.allclose(result.rotator.as_matrix(), rot.as_matrix()))",
              "owns_its_position_buffer": "_native_owns(type(result), pos, rot, features)"}
    ensures = {
        # the object's position array is its own (a caller's array, or another molecules object's, is copied): in-place
        # updates of one object can then never reach another (C11: copy=True never alters the original)
        "owns_its_position_buffer": "self._pos is not pos",
        "invariant": "lengths_agree(self)",
        "stores_inputs": "n_of(self) == pos.shape[0] and forall(lambda i: all(self._pos[i, a] == pos[i, a] for a in range(3)) and "
                         "(rot is None or mateq(M(self._rotator, i), M(rot, i))) and "
                         "(features is None or self._features.cols['f0'][i] == features.cols['f0'][i]), (0, pos.shape[0]))",
    }


# ---------------------------------------------------------------------------
# the data-frame view (also C13: what is written to / read from a file)
from pyvc.rotation import from_rotvec_matrix

_CSV = ["z", "y", "x", "zvec", "yvec", "xvec"]


def rv_matrix(frame, i, cols=("zvec", "yvec", "xvec")):
    """rotation matrix of the rotation vector stored in row i of the frame"""
    return from_rotvec_matrix([frame.cols[c].at((i,)) for c in cols])


def frame_row_is(frame, j, mol, i):
    """row j of the frame holds molecule i: position, rotation vector (compared as rotations) and features"""
    parts = [V.compare("==", frame.cols[c].at((j,)), mol.attrs["_pos"].at((i, a))) for a, c in enumerate(("z", "y", "x"))]
    parts.append(mateq(rv_matrix(frame, j), M(mol.attrs["_rotator"], i)))
    f = mol.attrs["_features"]
    if f is not None:
        for c in f.cols:
            if c not in frame.cols:
                return False
            parts.append(V.compare("==", frame.cols[c].at((j,)), f.cols[c].at((i,))))
    return V.sand(*parts)


def mol_row_is(mol, j, frame, i):
    parts = [V.compare("==", mol.attrs["_pos"].at((j, a)), frame.cols[c].at((i,))) for a, c in enumerate(("z", "y", "x"))]
    parts.append(mateq(M(mol.attrs["_rotator"], j), rv_matrix(frame, i)))
    f = mol.attrs["_features"]
    for c in frame.cols:
        if c in _CSV:
            continue
        if f is None or c not in f.cols:
            return False
        parts.append(V.compare("==", f.cols[c].at((j,)), frame.cols[c].at((i,))))
    return V.sand(*parts)


def feature_names(m):
    f = m.attrs["_features"]
    return [] if f is None else list(f.cols)


_HD = dict(_H, rv_matrix=rv_matrix, frame_row_is=frame_row_is, mol_row_is=mol_row_is, feature_names=feature_names, CSV=_CSV)


def _native_frame_rows(df, mol):
    import numpy as np
    from scipy.spatial.transform import Rotation
    n = len(mol)
    ok = df.shape[0] == n and df.columns[:6] == ["z", "y", "x", "zvec", "yvec", "xvec"]
    ok = ok and df.columns[6:] == mol.features.columns
    if n:
        ok = ok and np.allclose(df.select(["z", "y", "x"]).to_numpy(), mol.pos)
        back = Rotation.from_rotvec(df.select(["zvec", "yvec", "xvec"]).to_numpy()).as_matrix()
        ok = ok and np.allclose(back, mol.rotator.as_matrix(), atol=1e-5)
        ok = ok and all(df[c].to_list() == mol.features[c].to_list() for c in mol.features.columns)
    return bool(ok)


_NHD = dict(_NH, _native_frame_rows=_native_frame_rows)


@contract("acryo.molecules.core:Molecules.to_dataframe", props=["C12", "C13"])
class to_dataframe:
    """columns z, y, x, zvec, yvec, xvec followed by the features; row i is molecule i (the rotation vector is compared
    as the rotation it encodes; float32 storage of it is treated as exact, see DESIGN.md); a feature named like a
    coordinate column is rejected."""
    params = dict(self=T.OneOf(_MOL, _MOL0, TMolecules(features=["f0", "x"])))
    requires = ["lengths_agree(self)"]
    helpers = _HD
    native_helpers = _NHD
    imports = _IMPORTS
    native_call = "args['self'].to_dataframe()"
    raises = {"ValueError": "any(c in CSV for c in feature_names(self))"}
    native = {"layout": "list(result.columns) == ['z', 'y', 'x', 'zvec', 'yvec', 'xvec'] + list(self.features.columns)",
              "rows": "_native_frame_rows(result, self)", "count": "result.shape[0] == len(self)"}
    ensures = {
        "layout": "list(result.cols) == CSV + feature_names(self)",
        "count": "result.n == n_of(self)",
        "rows": "forall(lambda i: frame_row_is(result, i, self, i), (0, n_of(self)))",
    }


_DF = TFrame(("z", "y", "x", "zvec", "yvec", "xvec", "g1", "f0"), rows="df_rows")    # (features not in alphabetical order)
_DF0 = TFrame(("z", "y", "x", "zvec", "yvec", "xvec"), rows="df_rows")


def _native_mol_rows(mol, df):
    import numpy as np
    from scipy.spatial.transform import Rotation
    n = df.shape[0]
    ok = len(mol) == n and _native_invariant(mol)
    feats = [c for c in df.columns if c not in ("z", "y", "x", "zvec", "yvec", "xvec")]
    ok = ok and list(mol.features.columns) == feats
    if n:
        ok = ok and np.allclose(mol.pos, df.select(["z", "y", "x"]).to_numpy())
        want = Rotation.from_rotvec(df.select(["zvec", "yvec", "xvec"]).to_numpy()).as_matrix()
        ok = ok and np.allclose(mol.rotator.as_matrix(), want, atol=1e-6)
        ok = ok and all(mol.features[c].to_list() == df[c].to_list() for c in feats)
    return bool(ok)


_NHD["_native_mol_rows"] = _native_mol_rows


@contract("acryo.molecules.core:Molecules.from_dataframe", props=["C12", "C13"])
class from_dataframe:
    """molecule i is row i of the frame: position from z, y, x; orientation from the rotation vector zvec, yvec, xvec;
    every other column is a feature, in frame order."""
    params = dict(cls=T.Class("acryo.molecules.core:Molecules", "_Molecules"), df=T.OneOf(_DF, _DF0))
    helpers = _HD
    native_helpers = _NHD
    imports = _IMPORTS
    native_call = "_Molecules.from_dataframe(args['df'])"
    native = {"count": "len(result) == df.shape[0]", "invariant": "_native_invariant(result)",
              "rows": "_native_mol_rows(result, df)",
              "features": "list(result.features.columns) == [c for c in df.columns if c not in ('z', 'y', 'x', 'zvec', 'yvec', 'xvec')]"}
    ensures = {
        "count": "n_of(result) == df.n",
        "invariant": "lengths_agree(result)",
        "features": "feature_names(result) == [c for c in df.cols if c not in CSV]",
        "rows": "forall(lambda i: mol_row_is(result, i, df, i), (0, df.n))",
    }


# ---------------------------------------------------------------------------
# row selection / reordering through the data-frame round trip
def rowmap(kind=None):
    """ghost: (count, j -> source row) of the last row operation polars performed on this path"""
    for (op, src, out, cnt, fn) in reversed(F.ROWMAPS):
        if kind is None or op == kind:
            return cnt, fn
    return 0, (lambda j: j)


def filter_src(pred, n):
    if isinstance(pred, SArr):
        return src_of(pred, n)
    return rowmap("filter")


_HR = dict(_HD, rowmap=rowmap, filter_src=filter_src, smin=V.smin)
_NHR = dict(_NHD)


def _native_rows_subset(result, src, expected_idx=None, injective=True):
    """every row of result is a row of src (position, orientation, features together), found by position match on a
    table whose rows are pairwise distinct; optionally the exact index list"""
    import numpy as np
    if not _native_invariant(result):
        return False
    idx = []
    for j in range(len(result)):
        hits = [i for i in range(len(src)) if np.allclose(src.pos[i], result.pos[j])]
        if len(hits) != 1:
            return False
        idx.append(hits[0])
    if injective and len(set(idx)) != len(idx):
        return False
    if expected_idx is not None and list(expected_idx) != idx:
        return False
    return _native_same_rows(result, src, idx)


_NHR["_native_rows_subset"] = _native_rows_subset

for _name, _src in (("head", "j"), ("tail", "n_of(self) - smin(n, n_of(self)) + j")):
    @contract(f"acryo.molecules.core:Molecules.{_name}", props=["C12", "C13"])
    class head_tail:
        """the first / last min(n, N) molecules, each with its own position, orientation and features (for n >= N this
        is the data-frame round trip itself: every molecule comes back unchanged)"""
        params = dict(self=T.OneOf(_MOL, _MOL0), n=T.Int(lo=0))
        requires = ["lengths_agree(self)"]
        helpers = _HR
        native_helpers = _NHR
        imports = _IMPORTS
        native_call = f"args['self'].{_name}(args['n'])"
        native = {"count": "len(result) == min(n, len(self))", "invariant": "_native_invariant(result)",
                  "rows_stay_together": "_native_same_rows(result, self, list(range(len(self)))[:n] if %r == 'head' else "
                                        "list(range(len(self)))[max(len(self) - n, 0):])" % _name}
        ensures = {
            "count": "n_of(result) == smin(n, n_of(self))",
            "invariant": "lengths_agree(result)",
            "rows_stay_together": f"forall(lambda j: same_row(result, j, self, {_src}), (0, smin(n, n_of(self))))",
        }


class TPredicate(TSpec):
    """an opaque polars expression used as a filter predicate"""
    value = "expression"

    def fresh(self, name, path):
        return F.ExprV("predicate")

    def src(self, name, model):
        return "(_pl.col('z') * 0 + _pl.int_range(_pl.len()) % 3 != 1)"


@contract("acryo.molecules.core:Molecules.filter", props=["C12"])
class mol_filter:
    """the molecules whose predicate value is true, in their original order, each complete"""
    params = dict(self=T.OneOf(_MOL, _MOL0), predicate=T.OneOf(TMaskArr(), TPredicate()))
    requires = ["lengths_agree(self)", "spec_kind(predicate) != 'mask' or predicate.shape[0] == n_of(self)"]
    helpers = _HR
    native_helpers = _NHR
    imports = _IMPORTS
    native_call = "args['self'].filter(args['predicate'])"
    native = {"count": "True", "invariant": "_native_invariant(result)",
              "rows_stay_together": "_native_same_rows(result, self, [i for i in range(len(self)) if i % 3 != 1])"}
    ensures = {
        "count": "n_of(result) == filter_src(predicate, n_of(self))[0]",
        "invariant": "lengths_agree(result)",
        "rows_stay_together": "forall(lambda j: same_row(result, j, self, filter_src(predicate, n_of(self))[1](j)), "
                              "(0, filter_src(predicate, n_of(self))[0]))",
    }


_REPLAY_SORT = '''
import numpy as np
from scipy.spatial.transform import Rotation
from acryo import Molecules
key = [1.0, 3.0, 0.0, 2.0, 4.0]                       # its sorting permutation has a 4-cycle (not its own inverse)
pos = np.arange(15, dtype=np.float32).reshape(5, 3) * 1.5
rot = Rotation.from_rotvec([[0.1 * (i + 1), 0.05 * i, -0.2 * i] for i in range(5)])
mol = Molecules(pos, rot, features={"f0": key, "id": list(range(5))})
ok = True
for desc in (False, True):
    out = mol.sort("f0", descending=desc)
    ids = out.features["id"].to_list()
    good = sorted(ids) == list(range(5)) and np.allclose(out.pos, pos[ids]) and \
        np.allclose(out.rotator.as_matrix(), rot.as_matrix()[ids], atol=1e-5) and \
        out.features["f0"].to_list() == sorted(key, reverse=desc)
    print("descending" if desc else "ascending", ": rows", ids, "| positions, orientations and features of each row together:", bool(good))
    ok = ok and good
print("clause holds natively:", ok)
print("CONFIRMED" if not ok else "NOT-CONFIRMED"); sys.exit(1 if not ok else 0)
'''


@contract("acryo.molecules.core:Molecules.sort", props=["C12"])
class mol_sort:
    """a permutation of the molecules (polars' sort is trusted to return a bijective row map ordered by the key): row j
    of the result is the complete molecule perm(j); the key column is ordered."""
    params = dict(self=_MOL, by=T.Const("f0"), descending=T.OneOf(False, True))
    requires = ["lengths_agree(self)"]
    helpers = _HR
    native_helpers = _NHR
    imports = _IMPORTS
    replay = staticmethod(lambda ob, meta, model: _REPLAY_SORT)
    native_call = "args['self'].sort(args['by'], descending=args['descending'])"
    native = {"count": "len(result) == len(self)", "invariant": "_native_invariant(result)",
              "rows_stay_together": "_native_rows_subset(result, self)",
              "ordered": "all((a >= b) if descending else (a <= b) for a, b in zip(result.features['f0'][:-1], result.features['f0'][1:]))"}
    ensures = {
        "count": "n_of(result) == n_of(self)",
        "invariant": "lengths_agree(result)",
        "rows_stay_together": "forall(lambda j: same_row(result, j, self, rowmap('sort')[1](j)), (0, n_of(self)))",
        "ordered": "forall(lambda j: (result._features.cols['f0'][j] >= result._features.cols['f0'][j + 1]) if descending "
                   "else (result._features.cols['f0'][j] <= result._features.cols['f0'][j + 1]), (0, n_of(self) - 1))",
    }


@contract("acryo.molecules.core:Molecules.sample", props=["C12"])
class mol_sample:
    """n distinct molecules (polars' sample is trusted to return an injective row map), each complete"""
    params = dict(self=T.OneOf(_MOL, _MOL0), n=T.Int(lo=0), seed=T.OneOf(None, T.Int(lo=0)))
    requires = ["lengths_agree(self)"]
    helpers = _HR
    native_helpers = _NHR
    imports = _IMPORTS
    raises = {"ShapeError": "n > n_of(self)"}
    native_call = "args['self'].sample(args['n'], seed=args['seed'])"
    native = {"count": "len(result) == n", "invariant": "_native_invariant(result)",
              "rows_stay_together": "_native_rows_subset(result, self)"}
    ensures = {
        "count": "n_of(result) == n",
        "invariant": "lengths_agree(result)",
        "rows_stay_together": "forall(lambda j: same_row(result, j, self, rowmap('sample')[1](j)), (0, n))",
    }


# ---------------------------------------------------------------------------
# concatenation
_OTHER = TMolecules(features=["f0"])
_OTHER0 = TMolecules(features=None)


def has_features(m):
    """the molecules carry a feature table (at least one feature column)"""
    f = m.attrs["_features"]
    return f is not None and bool(f.cols)


def _native_has_features(m):
    return m.features.shape[1] > 0


def _native_concat_rows(result, parts):
    import numpy as np
    off = 0
    ok = _native_invariant(result) and len(result) == sum(len(p) for p in parts)
    for p in parts:
        sub = result.subset(slice(off, off + len(p)))
        ok = ok and np.allclose(sub.pos, p.pos) and (len(p) == 0 or np.allclose(sub.rotator.as_matrix(), p.rotator.as_matrix(), atol=1e-6))
        for c in p.features.columns:
            ok = ok and c in result.features.columns and sub.features[c].to_list() == p.features[c].to_list()
        off += len(p)
    return bool(ok)


_HC = dict(_HR, has_features=has_features)
_NHC = dict(_NHR, has_features=_native_has_features, _native_concat_rows=_native_concat_rows)


@contract("acryo.molecules.core:Molecules.concat_with", props=["C12"])
class concat_with:
    """self's molecules followed by the other's, each complete; when only one side has feature rows the result cannot
    have one feature row per molecule and the call is rejected (ValueError) instead of returning misaligned data."""
    params = dict(self=T.OneOf(_MOL, _MOL0), other=T.OneOf(_OTHER, _OTHER0), nullable=T.OneOf(True, False))
    requires = ["lengths_agree(self)", "lengths_agree(other)"]
    helpers = _HC
    native_helpers = _NHC
    imports = _IMPORTS
    native_call = "args['self'].concat_with(args['other'], nullable=args['nullable'])"
    may_raise = {"ValueError": "has_features(self) != has_features(other)"}
    native = {"count": "len(result) == len(self) + len(other)", "invariant": "_native_invariant(result)",
              "rows_of_self": "_native_concat_rows(result, [self, other])",
              "rows_of_other": "_native_concat_rows(result, [self, other])"}
    ensures = {
        "count": "n_of(result) == n_of(self) + n_of(other)",
        "invariant": "lengths_agree(result)",
        "rows_of_self": "forall(lambda j: same_row(result, j, self, j), (0, n_of(self)))",
        "rows_of_other": "forall(lambda j: same_row(result, n_of(self) + j, other, j), (0, n_of(other)))",
    }


_REPLAY_APPEND_REJECTED = '''
import numpy as np
from acryo import Molecules
me = Molecules(np.arange(9, dtype=float).reshape(3, 3), features={"f0": [1.5, 2.5, 3.5]})
other = Molecules(np.ones((2, 3)))                       # molecules without any feature
try:
    me.append(other)
    print("append of feature-less molecules to a table with features was accepted; lengths:", len(me.pos), len(me.rotator), me.features.shape)
    ok = len(me.pos) == len(me.rotator) == me.features.shape[0]
except ValueError as e:
    print("append rejected (ValueError); afterwards: positions", len(me.pos), "rotations", len(me.rotator), "feature rows", me.features.shape[0])
    ok = len(me.pos) == 3 and len(me.rotator) == 3 and me.features.shape[0] == 3
print("clause holds natively (a rejected append leaves the object unchanged):", ok)
print("CONFIRMED" if not ok else "NOT-CONFIRMED"); sys.exit(1 if not ok else 0)
'''


@contract("acryo.molecules.core:Molecules.append", props=["C12"])
class mol_append:
    """in-place concatenation: afterwards self holds its old molecules followed by the other's, each complete, and the
    three containers have the same length -- or the call is rejected and self is unchanged."""
    params = dict(self=T.OneOf(_MOL, _MOL0), other=T.OneOf(_OTHER, _OTHER0))
    requires = ["lengths_agree(self)", "lengths_agree(other)"]
    helpers = _HC
    native_helpers = dict(_NHC, _copy=lambda m: m.copy())
    imports = _IMPORTS
    native_call = "(lambda me, ot: (me.copy(), me.append(ot)))(args['self'], args['other'])"
    may_raise = {"ValueError": "has_features(self) != has_features(other)"}
    # "... or the call is rejected and self is unchanged": nothing of self has been written when the error is raised
    on_raise = {"ValueError": {"self_unchanged": "writes_to(self) == 0"}}
    replay = staticmethod(lambda ob, meta, model: _REPLAY_APPEND_REJECTED if "on_raise" in ob else None)
    native = {"returns_self": "result[1] is self",
              "count": "len(self) == len(result[0]) + len(other)", "invariant": "_native_invariant(self)",
              "rows_of_self": "_native_concat_rows(self, [result[0], other])",
              "rows_of_other": "_native_concat_rows(self, [result[0], other])"}
    ensures = {
        "returns_self": "result is self",
        "count": "n_of(self) == n_of(old(self)) + n_of(other)",
        "invariant": "lengths_agree(self)",
        "rows_of_self": "forall(lambda j: same_row(self, j, old(self), j), (0, n_of(old(self))))",
        "rows_of_other": "forall(lambda j: same_row(self, n_of(old(self)) + j, other, j), (0, n_of(other)))",
    }


class TMolList(TSpec):
    """a list of two molecule sets (named <name>_a, <name>_b)"""

    def __init__(self, a, b):
        self.a, self.b = a, b

    def cases(self):
        out = []
        for i, x in enumerate(self.a.cases() if isinstance(self.a, T.OneOf) else [self.a]):
            for j, y in enumerate(self.b.cases() if isinstance(self.b, T.OneOf) else [self.b]):
                out.append(_TMolListCase(x, y, f"{i}{j}"))
        return out


class _TMolListCase(TSpec):
    def __init__(self, a, b, tag):
        self.a, self.b, self.value = a, b, tag

    def fresh(self, name, path):
        return [self.a.fresh(name + "_a", path), self.b.fresh(name + "_b", path)]

    def src(self, name, model):
        return f"[{self.a.src(name + '_a', model)}, {self.b.src(name + '_b', model)}]"


@contract("acryo.molecules.core:Molecules.concat", props=["C12"])
class mol_concat:
    """class-level concatenation of a list of molecule sets: all molecules of the first, then all of the second, ...;
    with concat_features=False the result has no features."""
    params = dict(cls=T.Class("acryo.molecules.core:Molecules", "_Molecules"),
                  moles=TMolList(T.OneOf(_MOL, _MOL0), T.OneOf(_OTHER, _OTHER0)),
                  concat_features=T.OneOf(True, False), nullable=T.OneOf(True, False))
    requires = ["lengths_agree(moles[0])", "lengths_agree(moles[1])"]
    helpers = _HC
    native_helpers = _NHC
    imports = _IMPORTS
    native_call = "_Molecules.concat(args['moles'], concat_features=args['concat_features'], nullable=args['nullable'])"
    may_raise = {"ValueError": "concat_features and has_features(moles[0]) != has_features(moles[1])",
                 # strict (non-nullable) concatenation of tables with different columns is rejected by polars
                 "ShapeError": "concat_features and not nullable and has_features(moles[0]) != has_features(moles[1])"}
    native = {"count": "len(result) == len(moles[0]) + len(moles[1])", "invariant": "_native_invariant(result)",
              "rows_of_first": "concat_features is False or _native_concat_rows(result, moles)",
              "rows_of_second": "concat_features is False or _native_concat_rows(result, moles)",
              "no_features_when_disabled": "concat_features or result.features.shape[1] == 0"}
    ensures = {
        "count": "n_of(result) == n_of(moles[0]) + n_of(moles[1])",
        "invariant": "lengths_agree(result)",
        "rows_of_first": "forall(lambda j: same_row(result, j, moles[0], j, concat_features), (0, n_of(moles[0])))",
        "rows_of_second": "forall(lambda j: same_row(result, n_of(moles[0]) + j, moles[1], j, concat_features), (0, n_of(moles[1])))",
        "no_features_when_disabled": "concat_features or not has_features(result)",
    }


class TExpr(TSpec):
    """an opaque polars expression producing a column called `out`"""

    def __init__(self, out):
        self.out, self.value = out, out

    def fresh(self, name, path):
        return F.ExprV(self.out)

    def src(self, name, model):
        return f"(_pl.int_range(_pl.len()) * 1.5).alias({self.out!r})"


@contract("acryo.molecules.core:Molecules.with_features", props=["C12"])
class with_features:
    """positions and orientations are kept, untouched feature columns are kept, the expression's column is added or
    replaced; one feature row per molecule"""
    params = dict(self=_MOL, exprs=T.OneOf(TExpr("g0"), TExpr("f0")))
    requires = ["lengths_agree(self)"]
    helpers = _HC
    native_helpers = _NHC
    imports = _IMPORTS
    native_call = "args['self'].with_features(args['exprs'])"
    native = {"count": "len(result) == len(self)", "invariant": "_native_invariant(result)",
              "poses_kept": "np.allclose(result.pos, self.pos) and np.allclose(result.rotator.as_matrix(), self.rotator.as_matrix())",
              "other_features_kept": "'g0' not in result.features.columns or result.features['f0'].to_list() == self.features['f0'].to_list()",
              "column_present": "True"}
    ensures = {
        "count": "n_of(result) == n_of(self)",
        "invariant": "lengths_agree(result)",
        "poses_kept": "forall(lambda j: same_row(result, j, self, j, False), (0, n_of(self)))",
        "other_features_kept": "exprs.name == 'f0' or forall(lambda j: result._features.cols['f0'][j] == self._features.cols['f0'][j], (0, n_of(self)))",
        "column_present": "exprs.name in result._features.cols",
    }


@contract("acryo.molecules.core:Molecules.drop_features", props=["C12"])
class drop_features:
    """positions and orientations are kept, the named columns disappear, the others keep their values"""
    params = dict(self=TMolecules(features=["f0", "f1"]), columns=T.OneOf("f0", ["f0", "f1"]))
    requires = ["lengths_agree(self)"]
    helpers = _HC
    native_helpers = _NHC
    imports = _IMPORTS
    native_call = "args['self'].drop_features(args['columns'])"
    native = {"count": "len(result) == len(self)", "invariant": "_native_invariant(result)",
              "poses_kept": "np.allclose(result.pos, self.pos) and np.allclose(result.rotator.as_matrix(), self.rotator.as_matrix())",
              "dropped": "all(c not in result.features.columns for c in ([columns] if isinstance(columns, str) else columns))",
              "others_kept": "isinstance(columns, list) or result.features['f1'].to_list() == self.features['f1'].to_list()"}
    ensures = {
        "count": "n_of(result) == n_of(self)",
        "invariant": "lengths_agree(result)",
        "poses_kept": "forall(lambda j: same_row(result, j, self, j, False), (0, n_of(self)))",
        "dropped": "all(c not in feature_names(result) for c in ([columns] if columns == 'f0' else columns))",
        "others_kept": "columns != 'f0' or forall(lambda j: result._features.cols['f1'][j] == self._features.cols['f1'][j], (0, n_of(self)))",
    }


# ---------------------------------------------------------------------------
# groups
class TGroupBy(TSpec):
    """a polars GroupBy over a molecule frame (columns z..xvec, f0 [, .category]) keyed by `key`"""

    def __init__(self, key="f0", extra=()):
        self.key, self.extra = key, tuple(extra)

    def fresh(self, name, path):
        fr = TFrame(("z", "y", "x", "zvec", "yvec", "xvec", "f0") + self.extra, rows="df_rows").fresh(name + "_df", path)
        return F.GroupByV(fr, [self.key])

    def src(self, name, model):
        n = max(int(_mget(model, "df_rows", 5)), 0)
        return ("_pl.DataFrame({'z': np.arange(%d) * 1.0, 'y': np.arange(%d) * 2.0 + 1, 'x': np.arange(%d) * 0.5, "
                "'zvec': np.arange(%d) * 0.1, 'yvec': np.arange(%d) * -0.2, 'xvec': np.arange(%d) * 0.05, "
                "'f0': (np.arange(%d) * 2 + 1) %% 3 * 1.0}).group_by(['f0'], maintain_order=True)" % ((n,) * 7))


def group_rows_ok(item, gb, g):
    """the molecules yielded for group g are exactly the rows of the group's frame, complete and in order"""
    key, mole = item
    keyvals, sub, cnt, sel = gb.group(g)
    import z3
    j = z3.Int(V.fresh_name("gj"))
    body = mol_row_is(mole, V.Sym(j), sub, V.Sym(j))
    bt = V._bool_term(body) if V.is_sym(body) else z3.BoolVal(bool(body))
    allrows = V.Sym(z3.ForAll([j], z3.Implies(z3.And(j >= 0, j < V.lift(cnt)), bt)))
    return V.sand(V.compare("==", n_of(mole), cnt), lengths_agree(mole), allrows)


def _native_groups_ok(items, gb):
    import numpy as np
    ok = True
    seen = 0
    for (key, mole), (k2, df) in zip(items, list(gb)):
        ok = ok and _native_mol_rows(mole, df) and (key == k2[0] or key == k2)
        seen += len(mole)
    return bool(ok and len(items) == len(list(gb)))


_HG = dict(_HC, group_rows_ok=group_rows_ok)
_NHG = dict(_NHC, _native_groups_ok=_native_groups_ok)


@contract("acryo.molecules._group:MoleculeGroup.__iter__", props=["C12"])
class group_iter:
    """one (key, molecules) pair per group, in group order; the molecules of a group are the rows of that group's frame
    (position, orientation and features of each row together); a single-key grouping yields the bare key"""
    params = dict(self=T.OneOf(*[T.Obj("acryo.molecules._group:MoleculeGroup", dict(_group=TGroupBy("f0"), _single=T.Const(b)))
                                 for b in (True, False)]))
    helpers = _HG
    native_helpers = _NHG
    imports = _IMPORTS + "\nfrom acryo.molecules._group import MoleculeGroup as _MG\n"
    native_call = "list(_MG(args['self']['_group'], args['self']['_single']))"
    native = {"one_per_group": "len(result) == len(list(self['_group']))",
              "rows_of_group": "_native_groups_ok(result, self['_group'])", "key": "True"}
    ensures = {
        "one_per_group": "len(result) == self._group.G",
        "rows_of_group": "forall(lambda g: group_rows_ok(result[g], self._group, g), (0, self._group.G))",
        "key": "forall(lambda g: (result[g][0] == self._group.group(g)[0][0]) if self._single else "
               "(result[g][0][0] == self._group.group(g)[0][0]), (0, self._group.G))",
    }


class TCutGroupBy(TGroupBy):
    def fresh(self, name, path):
        fr = TFrame(("z", "y", "x", "zvec", "yvec", "xvec", "f0", ".category"), rows="df_rows").fresh(name + "_df", path)
        return F.GroupByV(fr, [".category"], categorical=True)

    def src(self, name, model):
        n = max(int(_mget(model, "df_rows", 5)), 0)
        return ("(lambda df: df.with_columns(df['f0'].cut([0.5, 1.5]).alias('.category')).group_by(['.category'], maintain_order=True))("
                "_pl.DataFrame({'z': np.arange(%d) * 1.0, 'y': np.arange(%d) * 2.0 + 1, 'x': np.arange(%d) * 0.5, "
                "'zvec': np.arange(%d) * 0.1, 'yvec': np.arange(%d) * -0.2, 'xvec': np.arange(%d) * 0.05, "
                "'f0': (np.arange(%d) * 2 + 1) %% 3 * 1.0}))" % ((n,) * 7))


def cut_group_rows_ok(item, gb, g):
    """like group_rows_ok, and the helper category column is not among the group's features"""
    key, mole = item
    base = group_rows_ok((key, mole), _DropLabel(gb), g)
    return V.sand(base, ".category" not in feature_names(mole))


class _DropLabel:
    """view of a GroupBy whose group frames lack the label column"""

    def __init__(self, gb):
        self.gb = gb

    def group(self, g):
        keyvals, sub, cnt, sel = self.gb.group(g)
        return keyvals, sub.drop(".category"), cnt, sel


def _native_cut_groups_ok(items, gb):
    ok = len(items) == len(list(gb))
    for (key, mole), (k2, df) in zip(items, list(gb)):
        ok = ok and _native_mol_rows(mole, df.drop(".category"))
        lo, hi = map(float, k2[0][1:-1].split(", "))
        ok = ok and (float(key.gt), float(key.le)) == (lo, hi)
    return bool(ok)


@contract("acryo.molecules._cut:MoleculeCutGroup.__iter__", props=["C12"])
class cut_group_iter:
    """one (edges, molecules) pair per bin; the molecules of a bin are the rows of the bin's frame without the helper
    category column"""
    params = dict(self=T.Obj("acryo.molecules._cut:MoleculeCutGroup", dict(_group=TCutGroupBy(".category"), _label=T.Const(".category"))))
    helpers = dict(_HG, cut_group_rows_ok=cut_group_rows_ok)
    native_helpers = dict(_NHG, _native_cut_groups_ok=_native_cut_groups_ok)
    imports = _IMPORTS + "\nfrom acryo.molecules._cut import MoleculeCutGroup as _MCG\n"
    native_call = "list(_MCG(args['self']['_group'], args['self']['_label']))"
    native = {"one_per_bin": "len(result) == len(list(self['_group']))",
              "rows_of_bin": "_native_cut_groups_ok(result, self['_group'])"}
    ensures = {
        "one_per_bin": "len(result) == self._group.G",
        "rows_of_bin": "forall(lambda g: cut_group_rows_ok(result[g], self._group, g), (0, self._group.G))",
    }


def frame_is_table(fr, mol):
    import z3
    i = z3.Int(V.fresh_name("ti"))
    body = frame_row_is(fr, V.Sym(i), mol, V.Sym(i))
    bt = V._bool_term(body) if V.is_sym(body) else z3.BoolVal(bool(body))
    return V.sand(V.compare("==", fr.n, n_of(mol)),
                  V.Sym(z3.ForAll([i], z3.Implies(z3.And(i >= 0, i < V.lift(n_of(mol))), bt))))


@contract("acryo.molecules.core:Molecules.group_by", props=["C12"])
class mol_group_by:
    """groups are formed over the complete molecule table (row i = molecule i), keyed by the requested feature"""
    params = dict(self=_MOL, by=T.OneOf("f0", ["f0"]))
    requires = ["lengths_agree(self)"]
    helpers = dict(_HG, frame_is_table=frame_is_table)
    native_helpers = _NHG
    imports = _IMPORTS
    native_call = "args['self'].group_by(args['by'])"
    native = {"table": "sum(len(m) for _, m in result) == len(self)", "keys": "True",
              "single_flag": "result._single == isinstance(by, str)"}
    ensures = {
        "table": "result._group.frame.n == n_of(self) and "
                 "forall(lambda i: frame_row_is(result._group.frame, i, self, i), (0, n_of(self)))",
        "keys": "result._group.keys == ['f0']",
        "single_flag": "result._single == (by == 'f0')",
    }


@contract("acryo.molecules.core:Molecules.cutby", props=["C12"])
class mol_cutby:
    """bins are formed over the complete molecule table extended by a helper category column whose name is not a
    feature name; the groups are keyed by that column and the group object drops it again"""
    params = dict(self=_MOL, by=T.Const("f0"), bins=T.Const([0.5, 1.5]))
    requires = ["lengths_agree(self)"]
    helpers = dict(_HG, frame_is_table=frame_is_table)
    native_helpers = _NHG
    imports = _IMPORTS
    native_call = "args['self'].cutby(args['by'], args['bins'])"
    native = {"table": "sum(len(m) for _, m in result) == len(self)", "label": "True"}
    ensures = {
        "table": "result._group.frame.n == n_of(self) and "
                 "forall(lambda i: frame_row_is(result._group.frame, i, self, i), (0, n_of(self)))",
        "label": "result._group.keys == [result._label] and result._label not in feature_names(self) and "
                 "result._label not in CSV and result._label in result._group.frame.cols",
    }
