"""C11: molecule poses obey rigid-motion algebra in z,y,x order (matrix view of scipy Rotation, SO(3) invariant)."""
from pyvc.contract import contract, T, fresh_array
from pyvc import values as V
from contracts.common import TMolecules, TRotBatch, TArrN, NATIVE_IMPORTS

_M = TMolecules(features=["f0"])


def M(rot, i):
    """3x3 matrix (nested list) of row i of a rotation batch"""
    return rot.row(i)


def matmul3(a, b):
    return [[a[r][0] * b[0][c] + a[r][1] * b[1][c] + a[r][2] * b[2][c] for c in range(3)] for r in range(3)]


def mateq(a, b):
    return V.sand(*[V.compare("==", a[r][c], b[r][c]) for r in range(3) for c in range(3)])


def matvec(a, v):
    return [a[r][0] * v[0] + a[r][1] * v[1] + a[r][2] * v[2] for r in range(3)]


_H = dict(M=M, matmul3=matmul3, mateq=mateq, matvec=matvec)
_N = "self._pos.shape[0]"
# representation invariant behind "copy=True never alters the original, for all sequences of calls": distinct Molecules
# objects never share a position buffer (in-place updates of one then cannot reach another)
_OWN = "implies(copy, result._pos is not self._pos)"
_OWN_NATIVE = "(not copy) or (result._pos is not self._pos and not np.shares_memory(result._pos, self._pos))"


for _ax, _col in (("x", 2), ("y", 1), ("z", 0)):
    @contract(f"acryo.molecules.core:Molecules.{_ax}", props=["C11"])
    class axis_vec:
        """x, y, z axes are the images of (0,0,1), (0,1,0), (1,0,0) under the molecule's rotation: column 2, 1, 0 of its
        matrix (z,y,x convention); unit length (SO(3) invariant)"""
        inline = True
        params = dict(self=_M)
        helpers = dict(_H, COL=_col)
        imports = NATIVE_IMPORTS
        native_call = f"args['self'].{_ax}"
        native = {"image_of_unit_vector": "np.allclose(result, self.rotator.as_matrix()[:, :, COL])",
                  "unit_length": "np.allclose(np.linalg.norm(result, axis=1), 1)"}
        ensures = {
            "image_of_unit_vector": "forall(lambda i: all(result[i, a] == M(self._rotator, i)[a][COL] for a in range(3)), "
                                    "(0, %s))" % _N,
            "unit_length": "forall(lambda i: result[i, 0] * result[i, 0] + result[i, 1] * result[i, 1] + "
                           "result[i, 2] * result[i, 2] == 1, (0, %s))" % _N,
        }


def _rotate_by_result(interp, bound):
    """modular result of rotate_by: same positions / features, a fresh rotation batch (constrained by `left_composition`)"""
    from pyvc.rotation import RotV
    from pyvc import symex as X
    me = bound["self"]
    n = me.attrs["_pos"].shape[0]
    rot = RotV.symbolic(V.fresh_name("rotated"), None, so3=False, n=n)
    feat = me.attrs["_features"]
    if bound["copy"] is True:
        return X.Obj(me.cls, {"_pos": me.attrs["_pos"].copy(), "_rotator": rot,
                              "_features": feat.clone() if feat is not None else None})
    interp.setattr(me, "_rotator", rot)
    return me


@contract("acryo.molecules.core:Molecules.rotate_by", props=["C11"])
class rotate_by:
    result = _rotate_by_result
    call_ensures = ["left_composition"]
    """world rotation composes on the LEFT (Q_i R_i) and leaves positions fixed; copy=True leaves the receiver intact"""
    params = dict(self=_M, rotator=TRotBatch("self_N"), copy=T.OneOf(True, False))
    helpers = _H
    imports = NATIVE_IMPORTS
    native_call = "args['self'].rotate_by(args['rotator'], copy=args['copy'])"
    native = {"left_composition": "np.allclose(result.rotator.as_matrix(), rotator.as_matrix() @ _old_rot)" ,
              "positions_fixed": "True", "frame_copy": "True", "copy_owns_its_positions": _OWN_NATIVE}
    ensures = {
        "left_composition": "forall(lambda i: mateq(M(result._rotator, i), matmul3(M(rotator, i), M(old(self)._rotator, i))), "
                            "(0, %s))" % _N,
        "positions_fixed": "forall(lambda i: all(result._pos[i, a] == old(self)._pos[i, a] for a in range(3)), (0, %s))" % _N,
        "frame_copy": "implies(copy, writes_to(self) == 0 and result is not self)",
        "copy_owns_its_positions": _OWN,
    }


@contract("acryo.molecules.core:Molecules.translate_internal", props=["C11", "C01"])
class translate_internal:
    """internal translation acts in the molecule's own frame: pos_i + R_i v_i; orientation unchanged"""
    params = dict(self=_M, shifts=TArrN("self_N", 3), copy=T.OneOf(True, False))
    helpers = _H
    imports = NATIVE_IMPORTS
    native_call = "args['self'].translate_internal(args['shifts'], copy=args['copy'])"
    native = {"own_frame": "True", "rotator_kept": "True", "frame_copy": "True", "copy_owns_its_positions": _OWN_NATIVE}
    ensures = {
        "own_frame": "forall(lambda i: all(result._pos[i, a] == old(self)._pos[i, a] + "
                     "matvec(M(old(self)._rotator, i), (shifts[i, 0], shifts[i, 1], shifts[i, 2]))[a] for a in range(3)), "
                     "(0, %s))" % _N,
        "rotator_kept": "result._rotator is old(self)._rotator",
        "frame_copy": "implies(copy, writes_to(self) == 0 and result is not self)",
        "copy_owns_its_positions": _OWN,
    }


@contract("acryo.molecules.core:Molecules.translate", props=["C11"])
class translate:
    """world translation: pos_i + v_i (one shift for all molecules or one per molecule); orientation unchanged;
    copy=True leaves the receiver intact and shares no position buffer with it"""
    params = dict(self=_M, shifts=T.OneOf(TArrN("self_N", 3), T.Arr(1, "real", shape=(3,))), copy=T.OneOf(True, False))
    helpers = dict(_H, sh=lambda s_, i, a: s_[i, a] if s_.ndim == 2 else s_[a])
    imports = NATIVE_IMPORTS
    native_call = "args['self'].translate(args['shifts'], copy=args['copy'])"
    native = {"world_frame": "np.allclose(result.pos, _old_pos + np.asarray(shifts), atol=1e-4)", "rotator_kept": "True",
              "frame_copy": "True", "copy_owns_its_positions": _OWN_NATIVE}
    ensures = {
        "world_frame": "forall(lambda i: all(result._pos[i, a] == old(self)._pos[i, a] + sh(shifts, i, a) for a in range(3)), "
                       "(0, %s))" % _N,
        "rotator_kept": "result._rotator is old(self)._rotator",
        "frame_copy": "implies(copy, writes_to(self) == 0 and result is not self)",
        "copy_owns_its_positions": _OWN,
    }


from pyvc.rotation import from_rotvec_matrix


def RV(v):
    """matrix of scipy's Rotation.from_rotvec(v) (uninterpreted Rodrigues map)"""
    return from_rotvec_matrix(v)


def transpose3(a):
    return [[a[c][r] for c in range(3)] for r in range(3)]


def equivariance(m, v):
    """TRUSTED AXIOM (Rodrigues): for M in SO(3), from_rotvec(M v) M == M from_rotvec(v)
    (equivalently from_rotvec(M v) == M from_rotvec(v) M^T)"""
    return mateq(matmul3(RV(matvec(m, v)), m), matmul3(m, RV(v)))


def col(m, c):
    return (m[0][c], m[1][c], m[2][c])


def cross3(a, b):
    return (a[1] * b[2] - a[2] * b[1], a[2] * b[0] - a[0] * b[2], a[0] * b[1] - a[1] * b[0])


def veq(a, b):
    return V.sand(*[V.compare("==", x, y) for x, y in zip(a, b)])


def dot3v(a, b):
    return a[0] * b[0] + a[1] * b[1] + a[2] * b[2]


def sumsq_diff(m):
    """|col0 - col1 x col2|^2"""
    w = cross3(col(m, 1), col(m, 2))
    c0 = col(m, 0)
    return (c0[0] - w[0]) * (c0[0] - w[0]) + (c0[1] - w[1]) * (c0[1] - w[1]) + (c0[2] - w[2]) * (c0[2] - w[2])


def det3(m):
    return dot3v(col(m, 0), cross3(col(m, 1), col(m, 2)))


def lem_identity(m):
    """polynomial identity (Lagrange): |c0 - c1 x c2|^2 == |c0|^2 - 2 det + |c1|^2 |c2|^2 - (c1.c2)^2"""
    c0, c1, c2 = col(m, 0), col(m, 1), col(m, 2)
    return V.compare("==", sumsq_diff(m), dot3v(c0, c0) - 2 * det3(m) + dot3v(c1, c1) * dot3v(c2, c2)
                     - dot3v(c1, c2) * dot3v(c1, c2))


def lem_subst(ss, n0, n1, n2, d12, det):
    return V.implies(V.sand(V.compare("==", ss, n0 - 2 * det + n1 * n2 - d12 * d12), V.compare("==", n0, 1),
                            V.compare("==", n1, 1), V.compare("==", n2, 1), V.compare("==", d12, 0),
                            V.compare("==", det, 1)), V.compare("==", ss, 0))


def lem_sumsq_zero(a, b, c):
    return V.implies(V.compare("==", a * a + b * b + c * c, 0),
                     V.sand(V.compare("==", a, 0), V.compare("==", b, 0), V.compare("==", c, 0)))


def cof_instances(m):
    """the three lemma instances that yield col0 == col1 x col2 for an SO(3) matrix"""
    c0, c1, c2 = col(m, 0), col(m, 1), col(m, 2)
    w = cross3(c1, c2)
    return V.sand(lem_identity(m),
                  lem_subst(sumsq_diff(m), dot3v(c0, c0), dot3v(c1, c1), dot3v(c2, c2), dot3v(c1, c2), det3(m)),
                  lem_sumsq_zero(c0[0] - w[0], c0[1] - w[1], c0[2] - w[2]))


_H.update(RV=RV, transpose3=transpose3, equivariance=equivariance, col=col, cross3=cross3, veq=veq, cof_instances=cof_instances,
          lem_identity=lem_identity, lem_subst=lem_subst, lem_sumsq_zero=lem_sumsq_zero)
_LEM_COF = {
    "cof_instances": ("m00 m01 m02 m10 m11 m12 m20 m21 m22 ss n0 n1 n2 d12 dt a b c",
                      "lem_identity([[m00, m01, m02], [m10, m11, m12], [m20, m21, m22]]) and "
                      "lem_subst(ss, n0, n1, n2, d12, dt) and lem_sumsq_zero(a, b, c)"),
}




@contract("acryo.molecules.core:Molecules.rotate_by_rotvec_internal", props=["C11", "C01"])
class rotate_by_rotvec_internal:
    """internal rotation acts in the molecule's own frame: R_i from_rotvec(v_i) (right composition), positions fixed.
    Uses the SO(3) invariant (z = cross(x, y) in z,y,x order) and the trusted Rodrigues equivariance axiom."""
    params = dict(self=_M, vector=TArrN("self_N", 3), copy=T.OneOf(True, False))
    helpers = _H
    axioms = {"equivariance": "scipy Rotation.from_rotvec(M v) M == M from_rotvec(v) for M in SO(3)"}
    lemmas = _LEM_COF
    imports = NATIVE_IMPORTS
    native_call = "args['self'].rotate_by_rotvec_internal(args['vector'], copy=args['copy'])"
    native = {"right_composition": "True", "positions_fixed": "True"}
    ensures = {
        "right_composition": {
            "vars": {"i": "int"},
            "assume": "0 <= i < %s" % _N,
            "use_axiom": ["equivariance(M(old(self)._rotator, i), (vector[i, 0], vector[i, 1], vector[i, 2]))"],
            "use": ["cof_instances(M(old(self)._rotator, i))"],
            "steps": [
                # right-handedness in z,y,x order: column 0 (z axis) == column 1 (y) x column 2 (x)
                ("veq(col(M(old(self)._rotator, i), 0), cross3(col(M(old(self)._rotator, i), 1), col(M(old(self)._rotator, i), 2)))",
                 "all+opt"),
            ],
            "hint": "ring+ufabs",
            "show": "mateq(M(result._rotator, i), matmul3(M(old(self)._rotator, i), RV((vector[i, 0], vector[i, 1], vector[i, 2]))))",
        },
        "positions_fixed": "forall(lambda i: all(result._pos[i, a] == old(self)._pos[i, a] for a in range(3)), (0, %s))" % _N,
    }


def _fresh_mol(interp, me, copy, new_pos=False, new_rot=False):
    import z3
    from pyvc.rotation import RotV
    from pyvc.values import Sym, fresh_name
    from pyvc.arrays import SArr
    from pyvc import symex as X
    n = me.attrs["_pos"].shape[0]
    pos, rot = me.attrs["_pos"], me.attrs["_rotator"]
    if new_pos:
        f = z3.Function(fresh_name("moved_pos"), z3.IntSort(), z3.IntSort(), z3.RealSort())
        pos = SArr((n, 3), lambda idx: Sym(f(V.lift(idx[0]), V.lift(idx[1]))), "real")
    if new_rot:
        rot = RotV.symbolic(fresh_name("turned"), None, so3=False, n=n)
    feat = me.attrs["_features"]
    if copy is True:
        return X.Obj(me.cls, {"_pos": pos, "_rotator": rot, "_features": feat.clone() if feat is not None else None})
    if new_pos:
        interp.setattr(me, "_pos", pos)
    if new_rot:
        interp.setattr(me, "_rotator", rot)
    return me


from pyvc import contract as _C
_C.REGISTRY["acryo.molecules.core:Molecules.translate_internal"].result = \
    lambda interp, bound: _fresh_mol(interp, bound["self"], bound["copy"], new_pos=True)
_C.REGISTRY["acryo.molecules.core:Molecules.translate_internal"].call_ensures = ["own_frame"]
_C.REGISTRY["acryo.molecules.core:Molecules.rotate_by_rotvec_internal"].result = \
    lambda interp, bound: _fresh_mol(interp, bound["self"], bound["copy"], new_rot=True)
_C.REGISTRY["acryo.molecules.core:Molecules.rotate_by_rotvec_internal"].call_ensures = ["right_composition", "positions_fixed"]


@contract("acryo.molecules.core:Molecules.linear_transform", props=["C01", "C11"])
class linear_transform:
    """Pose update by an alignment result (shift s_i in the molecule frame, rotation Q_i about the box centre):
    the particle sits at pos_i + M_i s_i with orientation M_i Q_i (the transform an alignment result denotes is
    'rotate about the centre, then shift', so the shift is NOT rotated by Q_i)."""
    params = dict(self=_M, shift=TArrN("self_N", 3), rotator=TRotBatch("self_N"), inv=T.Const(False))
    helpers = _H
    imports = NATIVE_IMPORTS
    native_call = "args['self'].linear_transform(args['shift'], args['rotator'])"
    native = {
        "position": "np.allclose(result.pos, self.pos + np.einsum('nab,nb->na', self.rotator.as_matrix(), shift), atol=1e-4)",
        "orientation": "np.allclose(result.rotator.as_matrix(), self.rotator.as_matrix() @ rotator.as_matrix(), atol=1e-5)",
    }
    ensures = {
        "position": "forall(lambda i: all(result._pos[i, a] == old(self)._pos[i, a] + "
                    "matvec(M(old(self)._rotator, i), (shift[i, 0], shift[i, 1], shift[i, 2]))[a] for a in range(3)), (0, %s))" % _N,
        "orientation": "forall(lambda i: mateq(M(result._rotator, i), matmul3(M(old(self)._rotator, i), M(rotator, i))), "
                       "(0, %s))" % _N,
    }


# ---------------------------------------------------------------------------
# representations: reading a representation back and constructing from it describe the same orientation
from pyvc.rotation import quat_to_matrix, from_rotvec_matrix
from pyvc.contract import T as _T

_HREP = dict(_H, qm=lambda q, i: quat_to_matrix(tuple(q.at((i, c)) for c in range(4))),
             rvm=lambda v, i: from_rotvec_matrix([v.at((i, c)) for c in range(3)]))


@contract("acryo.molecules.core:Molecules.quaternion", props=["C11"])
class mol_quaternion:
    """row i is a unit quaternion (scipy order x, y, z, w) of molecule i's rotation; an empty set gives a (0, 4) array"""
    params = dict(self=_M, canonical=_T.Const(False))
    helpers = _HREP
    ensures = {"shape": "result.shape[0] == %s and result.shape[1] == 4" % _N,
               "same_rotation": "forall(lambda i: mateq(qm(result, i), M(self._rotator, i)), (0, %s))" % _N}


@contract("acryo.molecules.core:Molecules.rotvec", props=["C11"])
class mol_rotvec:
    params = dict(self=_M)
    helpers = _HREP
    ensures = {"shape": "result.shape[0] == %s and result.shape[1] == 3" % _N,
               "same_rotation": "forall(lambda i: mateq(rvm(result, i), M(self._rotator, i)), (0, %s))" % _N}


@contract("acryo.molecules.core:Molecules.matrix", props=["C11"])
class mol_matrix:
    params = dict(self=_M)
    helpers = _HREP
    ensures = {"shape": "result.shape[0] == %s and result.shape[1] == 3 and result.shape[2] == 3" % _N,
               "same_rotation": "forall(lambda i: all(result[i, a, b] == M(self._rotator, i)[a][b] for a in range(3) for b in range(3)), (0, %s))" % _N}


_CLS = _T.Class("acryo.molecules.core:Molecules", "_Molecules")


@contract("acryo.molecules.core:Molecules.from_quat", props=["C11"])
class from_quat:
    """molecule i gets the rotation of quaternion i (normalised), position i; zero molecules are accepted"""
    params = dict(cls=_CLS, pos=TArrN("N_in"), quat=TArrN("N_in", 4), features=_T.Const(None))
    requires = ["forall(lambda i: quat[i, 0] * quat[i, 0] + quat[i, 1] * quat[i, 1] + quat[i, 2] * quat[i, 2] + quat[i, 3] * quat[i, 3] > 0, (0, pos.shape[0]))",
                "pos.shape[0] >= 0"]
    helpers = _HREP
    ensures = {"count": "result._pos.shape[0] == pos.shape[0]",
               "orientation_of_the_quaternion": "forall(lambda i: mateq(M(result._rotator, i), qm(quat, i)), (0, pos.shape[0]))",
               "positions": "forall(lambda i: all(result._pos[i, a] == pos[i, a] for a in range(3)), (0, pos.shape[0]))"}


@contract("acryo.molecules.core:Molecules.from_rotvec", props=["C11"])
class from_rotvec:
    params = dict(cls=_CLS, pos=TArrN("N_in"), vec=TArrN("N_in", 3), features=_T.Const(None))
    requires = ["pos.shape[0] >= 0"]
    helpers = _HREP
    ensures = {"count": "result._pos.shape[0] == pos.shape[0]",
               "orientation_of_the_vector": "forall(lambda i: mateq(M(result._rotator, i), rvm(vec, i)), (0, pos.shape[0]))",
               "positions": "forall(lambda i: all(result._pos[i, a] == pos[i, a] for a in range(3)), (0, pos.shape[0]))"}
