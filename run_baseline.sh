#!/bin/sh
# Runs the repository's pinned baseline suite with the verification guard OFF (no hooks are installed in /repo).
# usage: run_baseline.sh [junit-xml-path]
out=${1:-/tmp/acryo_baseline.junit.xml}
cd /repo && env -u ACRYO_VERIF /venv/bin/python -m pytest -ra -q -p no:cacheprovider --timeout=900 \
  --continue-on-collection-errors --junitxml="$out"
