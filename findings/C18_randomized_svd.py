#!/verif/.venv/bin/python
"""Known finding C18/randomized: PcaClassifier uses DaskPCA(svd_solver='auto'), which selects the randomized
(svd_compressed) solver as soon as max(n_samples, n_features) > 500 and n_components < 0.8*min(...); its components and
singular values differ from the exact SVD of the centred data.  CONFIRMED while that is still the case."""
import numpy as np
from acryo.classification import PcaClassifier

rng = np.random.default_rng(0)
n, shape, k = 60, (9, 9, 9), 2          # 729 features > 500
stack = rng.normal(size=(n,) + shape).astype(np.float32)
clf = PcaClassifier(stack, n_components=k, n_clusters=2, seed=0).run()
solver = clf.pca._get_solver(clf._image_flat(mask=True), k)
X = stack.reshape(n, -1).astype(np.float64)
X = X - X.mean(axis=0)
S_exact = np.linalg.svd(X, compute_uv=False)[:k]
S = np.asarray(clf.pca.singular_values_)
rel = np.abs(S - S_exact) / S_exact
print("solver chosen:", solver, "| singular values", S, "exact", S_exact, "rel.err", rel)
bad = solver == "randomized" and bool(np.any(rel > 1e-3))
print("CONFIRMED" if bad else "NOT-CONFIRMED")
