#!/verif/.venv/bin/python
"""Known finding C08/nyquist: the missing-wedge mask is not symmetric under k -> -k on the Nyquist planes of even
box sizes (bin n/2 is its own negative, but (n/2, j) and (n/2, -j) get different signs).  Prints CONFIRMED while the
real code still shows it, NOT-CONFIRMED otherwise."""
import sys
import numpy as np
from scipy.spatial.transform import Rotation
from acryo.tilt import single_axis

shape = (4, 3, 2)
rot = Rotation.from_matrix(np.array([[0.0, -1.0, 0.0], [1.0, 0.0, 0.0], [0.0, 0.0, 1.0]]))
mask = single_axis((-30.0, 60.0), "y").create_mask(rot, shape)
bad = []
for idx in np.ndindex(*shape):
    neg = tuple((-i) % n for i, n in zip(idx, shape))
    if bool(mask[idx]) != bool(mask[neg]):
        bad.append(idx)
print("asymmetric bins:", bad)
on_nyquist = all(any(2 * i == n for i, n in zip(idx, shape)) for idx in bad)
print("all on Nyquist planes:", on_nyquist)
print("CONFIRMED" if bad and on_nyquist else "NOT-CONFIRMED")
