#!/verif/.venv/bin/python
"""Known finding C20/overlap depth: LoGPicker / DoGPicker extend each chunk by ceil(2*sigma_px) voxels, but the filter
response at a voxel depends on voxels up to int(4*sigma_px + 0.5) away (scipy's Gaussian truncation) and the maximum
search on a further ceil(sigma_px): inside a chunk's core the per-chunk response differs from the whole-image response,
so the reported scores (and, for crowded images, picks) depend on the chunking.  The template matcher's depth
ceil(template/2) likewise leaves no room for the exclusion radius (extra maxima at chunk borders).
CONFIRMED while the score of a particle next to a chunk border still depends on the chunking."""
import numpy as np
import dask.array as da
from acryo.pick import LoGPicker, ZNCCTemplateMatcher


def blob(shape, centers, s=2.0):
    zz, yy, xx = np.indices(shape)
    img = np.zeros(shape, np.float32)
    for c in centers:
        img += np.exp(-((zz - c[0]) ** 2 + (yy - c[1]) ** 2 + (xx - c[2]) ** 2) / (2 * s * s))
    return img


shape = (48, 48, 48)
cs = [(23, 24, 24), (12, 12, 12), (36, 30, 14), (25, 8, 40)]       # the first one sits next to the border of 24^3 chunks
img = blob(shape, cs) + 0.05 * np.random.default_rng(0).normal(size=shape).astype(np.float32)
picker = LoGPicker(sigma=2.0)
whole = picker.pick_molecules(img, scale=1.0)
parts = picker.pick_molecules(da.from_array(img, chunks=(24, 24, 24)), scale=1.0)


def score_at(m, c):
    d = np.linalg.norm(m.pos - np.array(c), axis=1)
    return float(m.features["score"][int(np.argmin(d))]) if len(m) and d.min() < 2 else None


s_whole, s_parts = score_at(whole, cs[0]), score_at(parts, cs[0])
print("LoG score of the particle at", cs[0], ": one chunk", s_whole, "| 24^3 chunks", s_parts,
      "| picks:", len(whole), "vs", len(parts))
log_differs = s_whole is None or s_parts is None or abs(s_whole - s_parts) > 1e-6 or len(whole) != len(parts)
tm = blob((9, 9, 9), [(4, 4, 4)], 1.5)
clean = blob(shape, cs)
zw = ZNCCTemplateMatcher(tm).pick_molecules(clean, scale=1.0, min_distance=3.0, min_score=0.5)
zp = ZNCCTemplateMatcher(tm).pick_molecules(da.from_array(clean, chunks=(24, 24, 24)), scale=1.0, min_distance=3.0, min_score=0.5)
print("ZNCC template matching: one chunk", len(zw), "picks | 24^3 chunks", len(zp), "picks")
bad = log_differs or len(zw) != len(zp)
print("CONFIRMED" if bad else "NOT-CONFIRMED")
