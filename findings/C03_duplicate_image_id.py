#!/verif/.venv/bin/python
"""Known finding C03/duplicate image id: BatchLoader.add_tomogram with an explicit image_id that is already registered
silently replaces the earlier tomogram; the molecules registered with the earlier tomogram keep the id and from then on
load from the new image ("the tomogram that molecule was registered with" no longer holds).  CONFIRMED while that is
still the case (a repair would have to reject or rename the id: an API decision)."""
import numpy as np
from acryo import BatchLoader, Molecules

b = BatchLoader(order=0, scale=1.0, output_shape=(3, 3, 3))
b.add_tomogram(np.full((12, 12, 12), 1.0, np.float32), Molecules(np.full((2, 3), 6.0)), image_id=0)
before = [float(a.compute().mean()) for a in b.construct_loading_tasks()]
try:
    b.add_tomogram(np.full((12, 12, 12), 2.0, np.float32), Molecules(np.full((1, 3), 6.0)), image_id=0)
except Exception as e:
    print("second add_tomogram with the same id was rejected:", type(e).__name__, e)
    print("NOT-CONFIRMED")
    raise SystemExit(0)
after = [float(a.compute().mean()) for a in b.construct_loading_tasks()]
print("molecules registered with tomogram 0 (value 1.0) loaded", before, "before and", after[:2],
      "after a second tomogram was added under the same id; registered images:", len(b.images))
print("CONFIRMED" if after[:2] != before else "NOT-CONFIRMED")
