#!/verif/.venv/bin/python
"""Known finding C03/batch order: BatchLoader.construct_loading_tasks concatenates the per-tomogram loaders' tasks in
group order (image ids by first appearance), while alignment kwargs, result write-back and features pair task j with
molecule j.  When the molecules of one tomogram are not contiguous in the table (e.g. after sorting / subsetting the
batch's molecules), task j loads another molecule's sub-volume.  CONFIRMED while that is still the case."""
import numpy as np
from acryo import BatchLoader, Molecules

t0 = np.zeros((20, 20, 20), np.float32) + 1.0
t1 = np.zeros((20, 20, 20), np.float32) + 2.0
b = BatchLoader(order=0, scale=1.0, output_shape=(3, 3, 3))
b.add_tomogram(t0, Molecules(np.full((2, 3), 10.0)), image_id=0)
b.add_tomogram(t1, Molecules(np.full((2, 3), 10.0)), image_id=1)
bb = b.replace(molecules=b.molecules.subset([2, 0, 3, 1]))          # image ids 1, 0, 1, 0
want = [1.0 + float(i) for i in bb.molecules.features["image-id"].to_list()]
got = [float(a.compute().mean()) for a in bb.construct_loading_tasks()]
print("image ids", bb.molecules.features["image-id"].to_list(), ": task j loads from tomogram", [int(g) - 1 for g in got],
      "| molecule j belongs to tomogram", [int(w) - 1 for w in want])
print("CONFIRMED" if got != want else "NOT-CONFIRMED")
