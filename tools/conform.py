#!/verif/.venv/bin/python
"""Conformance of the trusted library contracts (pyvc/stubs.py, rotation.py, frames.py) with the installed numpy /
scipy / dask / polars: each statement the verifier ASSUMES about a library call is evaluated here on seeded random
concrete inputs.  A failing line means a library contract misstates the library (the proofs built on it are void).
Run: /verif/.venv/bin/python /verif/tools/conform.py   (exit 0 = all statements held on every sample)."""
import itertools
import os
import sys
import tempfile

import numpy as np

sys.path.insert(0, os.path.dirname(os.path.dirname(os.path.abspath(__file__))))
rng = np.random.default_rng(int(os.environ.get("VERIF_SEED", "0") or 0))
FAILS = []
COUNT = [0]


def check(name, ok, detail=""):
    COUNT[0] += 1
    if not ok:
        FAILS.append(f"{name}: {detail}")


# -- numpy index maps ----------------------------------------------------------------------------------------
from pyvc import arrays as A
from pyvc import stubs as S


def concrete(arr):
    """evaluate a stub result with concrete elements"""
    a = A.from_nested(arr)
    out = np.empty(tuple(int(s) for s in a.shape), dtype=float)
    for idx in itertools.product(*[range(int(s)) for s in a.shape]):
        out[idx] = float(a.at(idx))
    return out


for n in range(1, 9):
    x = rng.normal(size=n)
    check("fftshift", np.allclose(concrete(S.REG["numpy.fft.fftshift"](A.from_nested(x))), np.fft.fftshift(x)), n)
    check("ifftshift", np.allclose(concrete(S.REG["numpy.fft.ifftshift"](A.from_nested(x))), np.fft.ifftshift(x)), n)
    check("fftfreq", np.allclose(concrete(S.REG["numpy.fft.fftfreq"](n)), np.fft.fftfreq(n)), n)
    for start, stop, step in itertools.product([None, -9, -3, -1, 0, 1, 2, 5, 9], [None, -9, -2, -1, 0, 1, 3, 9], [None, 1, -1]):
        s0, ln, st = A.norm_slice(slice(start, stop, step), n)
        want = list(range(n))[slice(start, stop, step)]
        got = [int(s0) + int(st) * j for j in range(int(ln))]
        check("norm_slice", got == want, (n, start, stop, step, got, want))
for shape in [(2, 3), (3, 1, 4), (1, 1, 1)]:
    x = rng.normal(size=shape)
    check("reshape", np.allclose(concrete(S.np_reshape(A.from_nested(x), (-1,))), x.reshape(-1)), shape)
    check("indices", np.allclose(concrete(S.REG["numpy.indices"](shape)), np.indices(shape)), shape)
    pw = [(1, 2)] * len(shape)
    check("pad", np.allclose(concrete(S.np_pad(A.from_nested(x), pw, mode="constant", constant_values=1.5)),
                             np.pad(x, pw, mode="constant", constant_values=1.5)), shape)
q = rng.normal(size=(5, 4)); ix = rng.integers(0, 5, size=(7, 1))
check("take_along_axis", np.allclose(concrete(S.np_take_along_axis(A.from_nested(q), A.from_nested(ix), 0)),
                                     np.take_along_axis(q, ix, axis=0)))

# -- scipy fft shapes ----------------------------------------------------------------------------------------
from scipy import fft as sfft
for shape in [(1, 1, 1), (2, 3, 4), (3, 3, 5), (4, 4, 1)]:
    x = rng.normal(size=shape).astype(np.float32)
    f = sfft.rfftn(x)
    check("rfftn shape", f.shape == shape[:-1] + (shape[-1] // 2 + 1,), shape)
    m = f.shape[-1]
    check("irfftn default", sfft.irfftn(f).shape[-1] == (2 * (m - 1) if m > 1 else 1), shape)
    check("irfftn s", sfft.irfftn(f, s=shape).shape == shape and np.allclose(sfft.irfftn(f, s=shape), x, atol=1e-5), shape)

# -- scipy.ndimage ---------------------------------------------------------------------------------------------
from scipy import ndimage as ndi
for order in (0, 1, 3):
    img = rng.normal(size=(6, 6, 6))
    mtx = np.eye(4); mtx[:3, 3] = (-0.6, 5.4, 2.0)
    out = ndi.affine_transform(img, mtx, order=order, mode="constant", cval=7.0, output_shape=(2, 2, 2))
    check("affine_transform constant mode", np.all(out[0, :, :] == 7.0) and np.all(out[:, 1, :] == 7.0), order)
for sigma in (0.7, 1.3, 2.0):
    r = int(4 * sigma + 0.5)
    img = rng.normal(size=(41,)); img2 = img.copy(); img2[20 + r + 1:] += 5.0; img2[:20 - r] -= 3.0
    check("gaussian_laplace support radius", abs(ndi.gaussian_laplace(img, sigma)[20] - ndi.gaussian_laplace(img2, sigma)[20]) < 1e-12, sigma)
    check("gaussian_filter support radius", abs(ndi.gaussian_filter(img, sigma)[20] - ndi.gaussian_filter(img2, sigma)[20]) < 1e-12, sigma)
check("center_of_mass empty index", np.array(ndi.center_of_mass(np.zeros((3, 3, 3)), np.zeros((3, 3, 3), int), range(1, 1))).shape == (0,))

# -- scipy Rotation -------------------------------------------------------------------------------------------
from scipy.spatial.transform import Rotation
for _ in range(20):
    a, b = Rotation.random(random_state=int(rng.integers(1 << 30))), Rotation.random(random_state=int(rng.integers(1 << 30)))
    v = rng.normal(size=3)
    check("rotation composition", np.allclose((a * b).apply(v), a.apply(b.apply(v))))
    check("rotation matrix product", np.allclose((a * b).as_matrix(), a.as_matrix() @ b.as_matrix()))
    check("rotvec round trip", np.allclose(Rotation.from_rotvec(a.as_rotvec()).as_matrix(), a.as_matrix()))
    check("quat round trip / unit", np.allclose(Rotation.from_quat(a.as_quat()).as_matrix(), a.as_matrix()) and abs(np.linalg.norm(a.as_quat()) - 1) < 1e-12)
    check("rotvec equivariance", np.allclose(Rotation.from_rotvec(a.apply(b.as_rotvec())).as_matrix() @ a.as_matrix(),
                                             a.as_matrix() @ b.as_matrix()))
    check("inverse", np.allclose(a.inv().as_matrix(), a.as_matrix().T))

# -- dask ---------------------------------------------------------------------------------------------------------
import dask.array as da
x = rng.normal(size=(12, 10, 9)).astype(np.float32)
for chunks, depth in itertools.product([(12, 10, 9), (6, 5, 9), (4, 10, 3)], [2, (1, 2, 3), [1, 2, 3], {0: 2, 1: 1, 2: 0}]):
    seen = []

    def probe(b, block_info=None):
        seen.append((b.shape, block_info[None]["array-location"], b.copy()))
        return np.array([[[0]]], dtype=object)
    da.from_array(x, chunks=chunks).map_overlap(probe, depth=depth, trim=False, boundary="nearest", dtype=object,
                                                meta=np.array([])).compute(scheduler="synchronous")
    if isinstance(depth, list):
        dep = [depth[0]] * 3                       # the contract: a list is one depth per ARRAY
    elif isinstance(depth, dict):
        dep = [depth[i] for i in range(3)]
    elif isinstance(depth, tuple):
        dep = list(depth)
    else:
        dep = [depth] * 3
    for shp, loc, blk in seen:
        if any(s == 0 for s in shp):
            continue
        ok = all(shp[i] == (loc[i][1] - loc[i][0]) + 2 * dep[i] for i in range(3))
        if ok:      # interior of the block is the array window
            core = blk[tuple(slice(dep[i], shp[i] - dep[i]) for i in range(3))]
            ok = np.array_equal(core, x[tuple(slice(loc[i][0], loc[i][1]) for i in range(3))])
        check("map_overlap block geometry", ok, (chunks, depth, shp, loc))
arr = da.from_delayed(__import__("dask").delayed(lambda: np.zeros((2, 2)))(), shape=(5, 5), dtype=float)
check("from_delayed does not check the declared shape", arr.shape == (5, 5) and arr.compute().shape == (2, 2))

# -- polars ------------------------------------------------------------------------------------------------------
import polars as pl
for n in (0, 1, 5, 17):
    df = pl.DataFrame({"a": rng.integers(0, 4, size=n).astype(float), "b": rng.normal(size=n), "i": np.arange(n)})
    mask = rng.random(n) < 0.5
    f = df.filter(mask)
    check("filter keeps the true rows in order", f["i"].to_list() == [i for i in range(n) if mask[i]], n)
    s = df.sort("a")
    check("sort is a permutation ordered by the key", sorted(s["i"].to_list()) == list(range(n)) and
          all(x <= y for x, y in zip(s["a"][:-1], s["a"][1:])), n)
    if n:
        k = min(3, n)
        smp = df.sample(k, seed=1)
        check("sample is injective", len(set(smp["i"].to_list())) == k, n)
        groups = list(df.group_by(["a"], maintain_order=True))
        rows = [g["i"].to_list() for _, g in groups]
        check("group_by partitions the rows, groups non-empty and in row order",
              sorted(sum(rows, [])) == list(range(n)) and all(r and r == sorted(r) for r in rows) and
              len({k[0] for k, _ in groups}) == len(groups) and
              all(set(g["a"].to_list()) == {k[0]} for k, g in groups), n)
        check("group order is first appearance", [r[0] for r in rows] == sorted(r[0] for r in rows), n)
    check("head/tail", df.head(3)["i"].to_list() == list(range(n))[:3] and df.tail(3)["i"].to_list() == list(range(n))[-3:], n)
    check("drop of all columns gives the 0 x 0 frame", df.drop(["a", "b", "i"]).shape == (0, 0), n)
    d2 = pl.concat([df, pl.DataFrame(None)], how="diagonal")
    check("diagonal concat with the 0 x 0 frame adds no rows", d2.shape == df.shape, n)
    with tempfile.TemporaryDirectory() as tmp:
        df.write_parquet(os.path.join(tmp, "x.parquet"))
        check("parquet round trip exact", pl.read_parquet(os.path.join(tmp, "x.parquet")).equals(df), n)
        for p in (0, 2, 4):
            df.write_csv(os.path.join(tmp, "x.csv"), float_precision=p)
            back = pl.read_csv(os.path.join(tmp, "x.csv"))
            ok = back.shape == df.shape and (n == 0 or np.all(np.abs(back["b"].to_numpy() - df["b"].to_numpy()) <= 0.5 * 10.0 ** -p + 1e-12))
            check("csv rounded to float_precision", ok, (n, p))
for _ in range(30):
    runs = rng.integers(1, 4, size=int(rng.integers(1, 5)))
    keys = rng.permutation(len(runs))
    col = np.concatenate([[float(k)] * int(r) for k, r in zip(keys, runs)])          # contiguous key column
    g = [x["i"].to_list() for _, x in pl.DataFrame({"k": col, "i": np.arange(len(col))}).group_by(["k"], maintain_order=True)]
    check("contiguous keys: groups are consecutive runs in row order", sum(g, []) == list(range(len(col))), col.tolist())
    col2 = rng.integers(0, 3, size=int(rng.integers(1, 9))).astype(float)
    g2 = [x["i"].to_list() for _, x in pl.DataFrame({"k": col2, "i": np.arange(len(col2))}).group_by(["k"], maintain_order=True)]
    check("the first group starts at row 0", g2[0][0] == 0, col2.tolist())
df = pl.DataFrame({"a": [1.0, 2.0], "b": [3.0, 4.0]})
try:
    pl.concat([df, df.select("a")], how="vertical")
    check("vertical concat of different columns is rejected", False)
except Exception as e:
    check("vertical concat of different columns is rejected", "Shape" in type(e).__name__ or "Schema" in type(e).__name__, type(e).__name__)
check("diagonal concat takes the union of the columns", pl.concat([df.select("a"), df.select("b")], how="diagonal").columns == ["a", "b"])
check("int_range/is_in filter is in table order", df.filter(pl.int_range(pl.len()).is_in([1, 0]))["a"].to_list() == [1.0, 2.0])

print(f"conformance statements evaluated: {COUNT[0]}, failed: {len(FAILS)}")
for f in FAILS[:40]:
    print("  FAILED", f)
sys.exit(1 if FAILS else 0)
