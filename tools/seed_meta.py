#!/usr/bin/env python3
"""augment /verif/seeded/<name>/meta.json with what was run here to confirm the change and which check caught it"""
import json, sys, os, re
name, pid = sys.argv[1], sys.argv[2]
d = f"/verif/seeded/{name}"
meta = json.load(open(f"{d}/meta.json"))
meta["property"] = pid
ev = open(f"{d}/eval.log").read() if os.path.exists(f"{d}/eval.log") else ""
ck = open(f"{d}/check.log").read() if os.path.exists(f"{d}/check.log") else ""
suite = [l for l in ev.splitlines() if re.search(r"\d+ passed", l)]
meta["confirmed_here"] = {
    "procedure": "tools/seed_eval.sh: fresh scratch worktree of /repo HEAD; demo.py on the unchanged tree, git apply patch.diff, "
                 "demo.py again, full test suite with the change (test_axes_to_rotator_invert deselected: it fails on the unchanged tree); "
                 "then git -C /repo apply, ./check <property>, git -C /repo checkout -- .",
    "suite_with_change": suite[-1].strip() if suite else None,
}
viol = [l for l in ck.splitlines() if l.startswith("VIOLATION")]
meta["check_result"] = {"exit_line": [l for l in ck.splitlines() if l.startswith("[C")][-1:] , "violations": viol[:4],
                        "failed_obligations": [l.strip() for l in ck.splitlines() if "failed obligation" in l][:4]}
json.dump(meta, open(f"{d}/meta.json", "w"), indent=1)
print(name, "detected" if viol else "MISSED", len(viol))
