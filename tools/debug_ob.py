#!/usr/bin/env python3
"""debug: regenerate the obligations of one contract and print / try those whose name contains a substring"""
import sys, os
sys.path.insert(0, os.path.dirname(os.path.dirname(os.path.abspath(__file__))))
from pyvc import driver, solve
import z3
key, sub = sys.argv[1], sys.argv[2]
show = len(sys.argv) > 3
contracts = driver.load_contracts()
rep = driver.gen_function(contracts[key], contracts)
for (name, hyps, goal, meta) in rep.obligations:
    if sub in name:
        print("=====", name, "hyps:", len(hyps), "opt:", len(meta.get("opt") or []))
        if show:
            for h in hyps: print("  H:", h.sexpr()[:2000])
            print("  G:", goal.sexpr()[:3000])
        texts = solve.prepare_staged(hyps, meta.get("opt") or [], goal)
        for k, t in texts.items():
            if isinstance(t, tuple): t = t[0]
            r = solve.run_one(t, 10, use_cvc5=False)
            print("   stage", k, r["verdict"], round(r["time"], 2))
        if show: break
