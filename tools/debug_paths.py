#!/usr/bin/env python3
"""debug: list the explored paths of one contract (kind, decisions, notes, exception)"""
import sys, os
sys.path.insert(0, os.path.dirname(os.path.dirname(os.path.abspath(__file__))))
from pyvc import driver, symex as X
key = sys.argv[1]
contracts = driver.load_contracts()
orig = X.Explorer.run
def run(self, body):
    res = orig(self, body)
    for i, r in enumerate(res):
        print("path", i, r.kind, "taken", list(r.path.taken)[:12], "notes", getattr(r.path, "notes", [])[:3],
              "exc", getattr(r, "exc", None) and (getattr(r.exc, "cls", None) and r.exc.cls.name, r.exc.attrs.get("args") if hasattr(r.exc, "attrs") else r.exc),
              "line", getattr(r, "lineno", None), "why", getattr(r, "why", None))
    return res
X.Explorer.run = run
rep = driver.gen_function(contracts[key], contracts)
print(rep.paths, len(rep.obligations))
for o in rep.obligations:
    print("  ", o[0])
