#!/usr/bin/env python3
"""Regenerate MANIFEST.json from the table below (kept in one place so it stays valid)."""
import json, os
ROOT = os.path.dirname(os.path.dirname(os.path.abspath(__file__)))
ALL = ["C%02d" % i for i in range(1, 21)]

# property -> (design ref, level text, level note, technique)
TECH = "contract-based deductive verification (sidecar contracts on the real functions, AST->SMT VC generation, z3/cvc5, native replay of counterexamples)"
NOTE = ("Trusted: z3/cvc5; the pyvc VC generator (symex/values/arrays/contract); the library contracts for numpy/scipy/dask "
        "(pyvc/stubs.py, rotation.py); machine floats as reals, fixed-width ints as integers; termination not proved. ")
CLAIMED = {
    "C02": ("DESIGN.md section 2 / C02",
            "Deductive, all inputs: make_slice_and_pad and prepare_affine are executed symbolically from /repo's source; "
            "slice/pad arithmetic, out-of-bound raising (iff no overlap), block == tomogram window, the affine matrix "
            "(sampling coordinate c + R(k-(s-1)/2)) and containment of every in-ball sample with its stencil in the block "
            "(orders 0,1,3, all rotations) are discharged by z3; interpolation itself is a trusted scipy contract.",
            NOTE + "Cauchy-Schwarz is used as proved instances; scipy.ndimage.affine_transform semantics assumed."),
    "C05": ("DESIGN.md section 2 / C05",
            "Deductive, all inputs: for every max_shifts >= 0 (not only the 1/20 grid) the backend alignment kernels "
            "(_create_mesh, upsample, subpixel_zncc/ncc/pcc/fsc, crop_by_max_shifts, ncc_landscape chain) raise no "
            "IndexError/shape error and return |shift_i| <= max_shifts_i; modular proofs over callee contracts.",
            NOTE + "fsc_landscape and _upsampled_dft have trusted shape contracts (loops / complex exponentials)."),
    "C06": ("DESIGN.md section 2 / C06",
            "Deductive for the decode step: for all template counts T, rotation counts K and all (j,k), a best flat "
            "candidate index k*T+j is reported as rotation quaternions[k] and label j by RotationImplemented.align "
            "(nonlinear integer VCs); counterexamples are replayed on a real ZNCCAlignment with synthetic data.",
            NOTE + "Candidate generation order and the argmax loop are not yet under contract (assumed: rotation-major, "
            "template-minor; label of BaseAlignmentModel.align is a maximiser's flat index)."),
    "C16": ("DESIGN.md section 2 / C16",
            "Deductive, all shapes/cutoffs/orders 1..3: Butterworth weight at FFT index equals 1/(1+(|f|/cutoff)^(2*order)) "
            "on the full and the half (rfftn) grid for both implementations, w[0,0,0]==1, identity branches, output shape "
            "== input shape, the spectrum handed to the inverse transform is weight x spectrum(input), and the Backend / "
            "pipeline entry points delegate with unchanged arguments.",
            NOTE + "FFT linearity, irfftn(rfftn(x), s=x.shape)==x and the half/full spectrum correspondence are assumed lemmas."),
}
NOT_YET = "check not built yet in this session (work in progress; see DESIGN.md section 7 for the order)"

def main():
    checks = []
    for pid, (ref, text, note) in sorted(CLAIMED.items()):
        tech = TECH
        checks.append({
            "property_id": pid,
            "quick_cmd": f"./check {pid} --tier quick",
            "thorough_cmd": f"./check {pid} --tier thorough",
            "evidence_file": f"evidence/{pid}.json",
            "replay_cmd_template": "/verif/.venv/bin/python {path}",
            "engine": "pyvc",
            "level_claimed": {"category": "proof", "text": text, "design_ref": ref},
            "level_note": note,
            "technique": tech,
        })
    na = [{"property_id": p, "reason": NOT_YET} for p in ALL if p not in CLAIMED]
    m = {
        "version": 1,
        "setup_cmd": "./setup.sh",
        "hooks": {
            "guard": "ACRYO_VERIF",
            "enable": "no source hooks are installed in /repo; checks read /repo's working tree directly (the guard name is reserved and unused)",
            "baseline_off_cmd": "/verif/run_baseline.sh",
            "source_commits": [],
            "add_only": True,
        },
        "engines": [{"name": "pyvc", "path": "pyvc/", "serves_properties": sorted(CLAIMED),
                     "kind_free_text": "verification-condition generator for Python (ast -> z3/cvc5) with sidecar contracts, modular calls, native replay of counterexamples"}],
        "checks": checks,
        "not_applicable": na,
        "notes": "Exit codes of ./check: 0 held, 1 VIOLATION (replayed), 2 undecided, 3 checker fault. See DESIGN.md.",
    }
    with open(os.path.join(ROOT, "MANIFEST.json"), "w") as f:
        json.dump(m, f, indent=1)
    print("MANIFEST.json written:", len(checks), "checks,", len(na), "not_applicable")

if __name__ == "__main__":
    main()
