#!/usr/bin/env python3
"""Regenerate MANIFEST.json from the table below (kept in one place so it stays valid)."""
import json, os
ROOT = os.path.dirname(os.path.dirname(os.path.abspath(__file__)))
ALL = ["C%02d" % i for i in range(1, 21)]

# property -> (design ref, level text, level note, technique)
TECH = "contract-based deductive verification (sidecar contracts on the real functions, AST->SMT VC generation, z3/cvc5, native replay of counterexamples)"
NOTE = ("Trusted: z3/cvc5; the pyvc VC generator (symex/values/arrays/contract); the library contracts for numpy/scipy/dask "
        "(pyvc/stubs.py, rotation.py); machine floats as reals, fixed-width ints as integers; termination not proved. ")
CLAIMED = {
    "C01": ("DESIGN.md section 2 / C01",
            "Deductive, any number of molecules (summarised loops) and all SO(3) orientations: LoaderBase.align end to end for "
            "the four models (task i aligns sub-volume i with range max_shifts/scale px and molecule i's pose; molecule i is "
            "moved by task i's shift and carries its score; the loader is not modified); LoaderBase._post_align and "
            "_post_align_multi_templates (label column, modulo the template count) turn "
            "result i into pos_i + scale*M_i s_i and M_i R_i with score/shift features of result i and the molecule's own "
            "feature row kept; LoaderBase.align_multi_templates end to end (2 or 3 templates, any number of searched rotations); "
            "Molecules.linear_transform / translate_internal / rotate_by_rotvec_internal implement "
            "'translate by the un-rotated shift in the molecule frame, then rotate internally'.",
            NOTE + "Trusted axiom: Rodrigues equivariance from_rotvec(M v) M == M from_rotvec(v); that model.align returns "
            "the true (s, R) is C04/C06's subject; batch/group write-back not yet under contract."),
    "C02": ("DESIGN.md section 2 / C02",
            "Deductive, all inputs: make_slice_and_pad and prepare_affine are executed symbolically from /repo's source; "
            "slice/pad arithmetic, out-of-bound raising (iff no overlap), block == tomogram window, the affine matrix "
            "(sampling coordinate c + R(k-(s-1)/2)) and containment of every in-ball sample with its stencil in the block "
            "(orders 0,1,3, all rotations) are discharged by z3; interpolation itself is a trusted scipy contract.",
            NOTE + "Cauchy-Schwarz is used as proved instances; scipy.ndimage.affine_transform semantics assumed."),
    "C03": ("DESIGN.md section 2 / C03",
            "Deductive for the single-tomogram loader, any number of molecules: construct_loading_tasks builds exactly one "
            "task per molecule in molecule order (task i: position pos_i/scale, orientation R_i, loader order, requested "
            "shape; the crop uses the block and matrix prepared for the same molecule; declared array shape == task shape) "
            "and _post_align writes result i to row i next to molecule i's own feature row, without modifying the source.",
            NOTE + "iter_mapping_tasks pairing is covered through construct_landscape (task i gets kwargs row i; "
            "dict_iterrows trusted); LoaderAccessor.__iter__ (1 and 2 tomograms) yields the per-tomogram loaders in molecule "
            "order when each tomogram's molecules are contiguous in the table (otherwise: recorded known finding); uses the "
            "trusted derived lemma 'contiguous keys => consecutive groups' of the polars group_by contract; "
            "BatchLoader.add_tomogram (registries of 0-2 tomograms under arbitrary ids: the new tomogram gets an unused id, "
            "earlier tomograms and rows are kept; an explicit id that is already registered replaces that tomogram: recorded "
            "known finding), "
            "LoaderBase.classify and align_multi_templates (row pairing) are under contract; loader groups, add_loader and "
            "BatchLoader's write-back are not."),
    "C05": ("DESIGN.md section 2 / C05",
            "Deductive, all inputs: for every max_shifts >= 0 (not only the 1/20 grid) the backend alignment kernels "
            "(_create_mesh, upsample, subpixel_zncc/ncc/pcc/fsc, crop_by_max_shifts, ncc_landscape chain) raise no "
            "IndexError/shape error and return |shift_i| <= max_shifts_i; ncc_landscape_no_pad never divides by a zero element "
            "(finite landscape for windows without variance); modular proofs over callee contracts.",
            NOTE + "fsc_landscape and _upsampled_dft have trusted shape contracts (loops / complex exponentials): 'finite "
            "score' is not claimed for the FSC model (observed: NaN score for a constant sub-volume, DESIGN.md section 2 / C05); "
            "trusted axiom x > 0 => sqrt(x) > 0."),
    "C06": ("DESIGN.md section 2 / C06",
            "Deductive for the decode step: for all template counts T, rotation counts K and all (j,k), a best flat "
            "candidate index k*T+j is reported as rotation quaternions[k] and label j by RotationImplemented.align "
            "(nonlinear integer VCs); _optimize_multiple (argmax over a symbolic number of candidates) and "
            "_get_template_and_mask_input (K*T candidates, rotation-major / template-minor); LoaderBase.align_multi_templates "
            "end to end (2 or 3 templates, any K, four models): row i gets label c % T and searched rotation c // T of task "
            "i's best candidate c; counterexamples are replayed on real models / loaders with synthetic data.",
            NOTE + "Abstract _optimize, pre_transform and Backend.affine_transform are trusted; that the best candidate is "
            "the true one is numerical (C04)."),
    "C07": ("DESIGN.md section 2 / C07",
            "Deductive for WHICH arrays are correlated and with which formula: ncc(a, b) == sum(a*b)/sqrt(sum(a*a) sum(b*b)), "
            "zncc is the same on the mean-centred images (Pearson); ZNCCAlignment / NCCAlignment.score correlate the inverse "
            "transforms of wedge * lowpass(img * mask) and of wedge * the model's cached pre-transformed template (mask -> "
            "low-pass -> wedge order on both sides, cutoff of the model; no-wedge and single-axis wedge), for every box shape; "
            "the backend's Butterworth weight and lowpass_filter_ft (the low-pass the scores depend on) are verified here too.",
            NOTE + "Sums over voxels are uninterpreted values with their summand as ghost state: the range [-1, 1], the value 1 "
            "for identical inputs, the invariance under a*x+b and the agreement of score / landscape centre / zero-range "
            "alignment score need sum and convolution algebra that is not built and are NOT claimed; PCC and FSC scores "
            "and union tilt models are not under contract."),
    "C08": ("DESIGN.md section 2 / C08",
            "Deductive, all box shapes / orientations / tilt ranges: the three copies of the FFT-ordered index grid "
            "equal fftindex per axis; the single-axis masks (tilt models, backend helper, utility) keep bin k iff "
            "(g.n0)(g.n1) <= 0 with g = R (k/shape) (proved by a Laurent-polynomial normalisation stage); dc bin kept; "
            "k -> -k symmetry proved off the Nyquist planes (on them: recorded known finding); NoWedge all ones; "
            "UnionAxes = element-wise OR of its members; tuple / model / legacy keyword select the same tilt model.",
            NOTE + "sin/cos are uninterpreted (sin^2+cos^2=1); the sign convention of the tilt angle is the code's."),
    "C09": ("DESIGN.md section 2 / C09",
            "Deductive, any molecule count: average is the axis-0 mean (sum over all N tasks / N) of the stack of this "
            "loader's own loading tasks; random_splitter's second index array is the complement of the first and the first "
            "is non-empty for n >= 2; average_split builds half-map (t,0)/(t,1) as the masked means selected by the two "
            "arrays of the t-th split over the same task stack, seeded by `seed`.",
            NOTE + "dask stack/rechunk/mean/boolean selection are value-preserving for any chunking (trusted); non-emptiness "
            "of the second half is a pigeonhole argument outside the solver; batch/group averages not yet under contract."),
    "C10": ("DESIGN.md section 2 / C10",
            "Deductive for what a per-call contract can decide about schedule independence: (a) the per-model template "
            "cache is only read by alignment / landscape tasks (frame clause writes_to(cache) == 0; lookup with an equal "
            "Backend hits); (b) results of functools.lru_cache'd helper grids are never updated in place by their callers "
            "(frame obligations on every verified caller); (c) declared shapes of lazy arrays equal computed shapes: "
            "construct_landscape (all four models, single- and multi-candidate, any search range / scale / up-sampling factor) and "
            "construct_loading_tasks; landscape task i gets sub-volume i, position i and orientation i; (d) prepare_affine "
            "hands the interpolation the tomogram window for every array, numpy or dask, however chunked.",
            NOTE + "Thread interleavings themselves are not explored (no concurrency in this technique): the argument is "
            "'tasks only read shared state'. dask's scheduler, chunking of the tomogram and the numpy/dask equivalence of "
            "array operations are trusted library contracts; the global default backend is not under contract; "
            "fsc_landscape's shape and dict_iterrows (incl. its one-dict aliasing) are trusted."),
    "C12": ("DESIGN.md section 2 / C12",
            "Deductive, any number of molecules: __init__ establishes or rejects (lengths of positions / orientations / "
            "feature rows agree), subset (int, slice, index array, boolean mask), head, tail, filter, sort, sample, "
            "concat, concat_with, append (in place, with frame), with_features, drop_features, group_by / cutby and the "
            "group iterators return molecules whose row j is the complete input row src(j) (position, orientation matrix, "
            "feature values) for the operation's index map src; to_dataframe / from_dataframe are row-wise inverse.",
            NOTE + "Trusted polars contract (pyvc/frames.py): filter keeps exactly the true rows in order, sort is a bijective "
            "row map ordered by the key, sample an injective one, group_by(maintain_order) a partition with non-empty "
            "groups, diagonal / vertical concat; feature values are reals (dtypes, nulls and strings are not modelled); "
            "float32 storage treated as exact."),
    "C13": ("DESIGN.md section 2 / C13",
            "Deductive: to_file and from_file dispatch on the suffix with the same rule (spec function fmt_of_suffix) for "
            "suffixes .csv/.pq/.parquet/.txt/none; to_csv / to_parquet / to_file write the complete table (columns z,y,x,"
            "zvec,yvec,xvec then features; row i = molecule i), CSV with exactly the requested float_precision (default 4); "
            "from_file of such a file yields molecule i == stored row i exactly (Parquet) or within 0.5e-4 per position "
            "component (CSV); the data-frame round trip (head(n >= N)) returns every molecule unchanged.",
            NOTE + "Trusted: polars writers / readers as an inverse pair (Parquet exact, CSV rounded to float_precision); "
            "float32 storage of the rotation vector and the rotation-vector branch cut near angle pi are treated in exact "
            "real arithmetic (from_rotvec(as_rotvec(R)) == R assumed); dtypes other than reals not modelled."),
    "C11": ("DESIGN.md section 2 / C11",
            "Deductive, any molecule count and all SO(3) orientations (matrix view): x/y/z are columns 2/1/0 of the rotation "
            "and unit vectors; rotate_by composes on the left and keeps positions; translate / translate_internal add the "
            "world / molecule-frame shift; rotate_by_rotvec_internal composes on the right (uses z = cross(x,y), proved "
            "from orthogonality + det = 1 by a lemma chain); copy=True leaves the receiver unmodified and, as a representation "
            "invariant that carries this through every sequence of calls, no two molecules objects share a position buffer "
            "(Molecules.__init__ and every copy=True result own their array); "
            "quaternion() / rotvec() / matrix() describe the molecule's own rotation and from_quat / from_rotvec build the "
            "rotation of the given representation (also for zero molecules).",
            NOTE + "Trusted: scipy Rotation algebra (incl. from_X(as_X(R)) == R), the Rodrigues equivariance axiom; from_axes "
            "(observed wrong for anti-parallel axes: see DESIGN.md section 7), Euler angles, affine_matrix and "
            "local_coordinates are not under contract."),
    "C14": ("DESIGN.md section 2 / C14",
            "Deductive, all template shapes (odd/even), poses, scales: _prep_iterators' affine coefficients put the "
            "template centre on pos/scale (fragment voxel o at start+o samples centre + R^-1(start+o-pos)); _prep_slices "
            "clips with equal source/destination lengths, destination inside the volume, None iff no overlap; "
            "_simulate_one's fragment voxel at tomogram index p is the transformed template at p - start; _simulate, "
            "simulate_2d and _simulate_with_color submit exactly one paste task per molecule, in molecule order, with that "
            "molecule's matrix (and colour).",
            NOTE + "DaskTaskPool.compute is replaced by a recording hook; the accumulation loops (tomogram[sl] += fragment) "
            "and the spline interpolation are not under contract (trusted: scipy.ndimage.affine_transform semantics)."),
    "C15": ("DESIGN.md section 2 / C15",
            "Deductive, all b >= 1, all image shapes and molecule counts: bin_image is the axis-sum over the within-block "
            "axes of the (n,b,n,b,n,b) view with element img[j*b+t], shape s//b; SubtomogramLoader.binning and "
            "BatchLoader.binning (1 and 2 tomograms, compute True/False) give scale*b, pos'/scale' == (pos/scale-(b-1)/2)/b, "
            "binned images, unchanged orientations, and do not modify the source loader (frame).",
            NOTE + "numpy's sum over an axis and dask's compute are trusted; the BatchLoader cases enumerate the number "
            "of tomograms (1, 2)."),
    "C16": ("DESIGN.md section 2 / C16",
            "Deductive, all shapes/cutoffs/orders 1..3: Butterworth weight at FFT index equals 1/(1+(|f|/cutoff)^(2*order)) "
            "on the full and the half (rfftn) grid for both implementations, w[0,0,0]==1, identity branches, output shape "
            "== input shape, the spectrum handed to the inverse transform is weight x spectrum(input), and the Backend / "
            "pipeline entry points delegate with unchanged arguments.",
            NOTE + "FFT linearity, irfftn(rfftn(x), s=x.shape)==x and the half/full spectrum correspondence are assumed lemmas."),
    "C17": ("DESIGN.md section 2 / C17",
            "Deductive, all shapes and shell widths: fourier_shell_correlation labels centred bin (i,j,k) with "
            "trunc(|f|/dfreq), sums Re(F0 conj F1), |F0|^2, |F1|^2 over the same shells and returns their normalised "
            "quotient with freq[l] = (l+0.5) dfreq; fsc_with_halfmaps correlates, per set, the two masked half-maps of "
            "average_split(n_set, seed) with the requested or default shell width and returns those halves.",
            NOTE + "scipy sum_labels / FFT are trusted; the [-1,1] range is Cauchy-Schwarz (not machine-checked here)."),
    "C18": ("DESIGN.md section 2 / C18",
            "Deductive for the part a contract can decide: exactness needs the decomposition to come from da.linalg.svd; "
            "DaskPCA._get_solver (configuration used by PcaClassifier: svd_solver='auto') is proved to return 'full' for "
            "every data shape and n_components outside the recorded known finding (randomized solver for "
            "max(n_samples,n_features) > 500 and n_components < 0.8*min); PcaClassifier masks the stack it fits and the "
            "stack it transforms alike; DaskPCA.transform centres with the fitted mean and projects on the fitted components; "
            "LoaderBase.classify builds the classifier from the stack whose row i is molecule i's masked difference, with the "
            "requested n_components / n_clusters / seed, writes label i to molecule i of a new loader and changes nothing else.",
            NOTE + "Equality of da.linalg.svd with an exact SVD and k-means separation are numerical (trusted); in classify the "
            "model constructor, masked_difference, PcaClassifier.__init__ and run are replaced by summaries."),
    "C19": ("DESIGN.md section 2 / C19",
            "Deductive over opaque images (providers and converters as uninterpreted functions): every binary, reflected "
            "and comparison operator of ImageProvider / ImageConverter acts voxel-wise with the right operand order, "
            "compose/@ is nested application, with_scale and the currying decorators supply scale/image later; nm "
            "parameters reach scipy.ndimage only as quotients by the scale (dilation/closing/gaussian_filter/shift/"
            "gaussian_smooth, lemma (lam r)/(lam s) == r/s); structuring element contains its centre; gaussian_smooth "
            "values in [0,1]; from_gaussian is a Gaussian centred in the box plus shift.",
            NOTE + "Extensivity of morphology with a centred structure, rescaling providers (zoom) and Otsu thresholding "
            "are trusted / not under contract."),
    "C20": ("DESIGN.md section 2 / C20",
            "Deductive for the chunk bookkeeping, for an arbitrary chunk of an arbitrary chunking (generic block): a pick at "
            "local index l of a block extended by the overlap depth is reported at (chunk_start + l - depth_used) * scale "
            "with its own rotation and score; a block reports exactly its picks whose voxel lies in its own chunk (none "
            "from the overlap margins, none lost); LoG / DoG parameters are converted to pixels with the scale; LoG / DoG "
            "picks carry the identity rotation; the template matcher reports a searched rotation whose template scores best "
            "at the maximum, at landscape index + (template + 1)/2, also for zero maxima; the blocks' extension does not "
            "depend on the chunking; the peak search's exclusion region is the ball of the exclusion radius (footprint "
            "passed to scipy's maximum filter). The clause 'overlap depth covers the dependency radius' fails and is a recorded "
            "known finding.",
            NOTE + "That LoG / DoG / ZNCC maxima sit on the particles is numerical (scipy filters, labelling, centre of mass: "
            "trusted, abstract picks); dask's map_overlap contract (block extension, array-location, depth as int / tuple / "
            "list) is trusted as observed with the installed dask; BaseTemplateMatcher.get_params_and_depth (the rotated "
            "template bank) is not under contract."),
}
NA_REASONS = {
    "C04": "Contract-based deductive verification cannot decide this property: 'the reported shift equals the true displacement "
           "to a tenth (half) of a pixel' is a statement about the numerical accuracy of FFT cross-correlation, cubic-spline "
           "up-sampling of the landscape and matrix-DFT refinement on floating-point data, for which no function-level "
           "contract over reals gives an error bound (the argmax of an interpolated landscape has no closed-form relation to "
           "the planted displacement). The parts of the alignment chain that ARE contract-decidable are claimed elsewhere: "
           "C05 (indices in range, |shift| <= max_shifts, sign/decoding of the integer peak), C06 (candidate decode), C01 "
           "(how the returned shift/rotation is applied), C07 (which arrays are correlated). A bounded numerical test would "
           "be a different technique and is not offered as a claim.",
}
NOT_YET = "check not built yet in this session (work in progress; see DESIGN.md section 7 for the order)"

def main():
    checks = []
    for pid, (ref, text, note) in sorted(CLAIMED.items()):
        tech = TECH
        checks.append({
            "property_id": pid,
            "quick_cmd": f"./check {pid} --tier quick",
            "thorough_cmd": f"./check {pid} --tier thorough",
            "evidence_file": f"evidence/{pid}.json",
            "replay_cmd_template": "/verif/.venv/bin/python {path}",
            "engine": "pyvc",
            "level_claimed": {"category": "proof", "text": text, "design_ref": ref},
            "level_note": note,
            "technique": tech,
        })
    na = [{"property_id": p, "reason": NA_REASONS.get(p, NOT_YET)} for p in ALL if p not in CLAIMED]
    m = {
        "version": 1,
        "setup_cmd": "./setup.sh",
        "hooks": {
            "guard": "ACRYO_VERIF",
            "enable": "no source hooks are installed in /repo; checks read /repo's working tree directly (the guard name is reserved and unused)",
            "baseline_off_cmd": "/verif/run_baseline.sh",
            "source_commits": [],
            "add_only": True,
        },
        "engines": [{"name": "pyvc", "path": "pyvc/", "serves_properties": sorted(CLAIMED),
                     "kind_free_text": "verification-condition generator for Python (ast -> z3/cvc5) with sidecar contracts, modular calls, native replay of counterexamples"}],
        "checks": checks,
        "not_applicable": na,
        "notes": "Exit codes of ./check: 0 held, 1 VIOLATION (replayed), 2 undecided, 3 checker fault. See DESIGN.md.",
    }
    with open(os.path.join(ROOT, "MANIFEST.json"), "w") as f:
        json.dump(m, f, indent=1)
    print("MANIFEST.json written:", len(checks), "checks,", len(na), "not_applicable")

if __name__ == "__main__":
    main()
