#!/usr/bin/env python3
"""Regenerate MANIFEST.json from the table below (kept in one place so it stays valid)."""
import json, os
ROOT = os.path.dirname(os.path.dirname(os.path.abspath(__file__)))
ALL = ["C%02d" % i for i in range(1, 21)]

# property -> (design ref, level text, level note, technique)
CLAIMED = {
    "C02": ("DESIGN.md section 2 / C02",
            "Deductive: the crop-window / slice-and-pad / affine-matrix arithmetic of the real functions is executed "
            "symbolically from /repo's source and every contract clause is discharged by z3/cvc5 for all integer and "
            "real inputs; the interpolation itself is a trusted scipy contract.",
            "Trusted: z3/cvc5, the pyvc VC generator, numpy/scipy/dask library contracts (stubs), reals for floats.",
            "contract-based deductive verification (sidecar contracts, AST->SMT VC generation, z3/cvc5, native replay)"),
}
NOT_YET = "check not built yet in this session (work in progress; see DESIGN.md section 7 for the order)"

def main():
    checks = []
    for pid, (ref, text, note, tech) in sorted(CLAIMED.items()):
        checks.append({
            "property_id": pid,
            "quick_cmd": f"./check {pid} --tier quick",
            "thorough_cmd": f"./check {pid} --tier thorough",
            "evidence_file": f"evidence/{pid}.json",
            "replay_cmd_template": "/verif/.venv/bin/python {path}",
            "engine": "pyvc",
            "level_claimed": {"category": "proof", "text": text, "design_ref": ref},
            "level_note": note,
            "technique": tech,
        })
    na = [{"property_id": p, "reason": NOT_YET} for p in ALL if p not in CLAIMED]
    m = {
        "version": 1,
        "setup_cmd": "./setup.sh",
        "hooks": {
            "guard": "ACRYO_VERIF",
            "enable": "no source hooks are installed in /repo; checks read /repo's working tree directly (the guard name is reserved and unused)",
            "baseline_off_cmd": "/verif/run_baseline.sh",
            "source_commits": [],
            "add_only": True,
        },
        "engines": [{"name": "pyvc", "path": "pyvc/", "serves_properties": sorted(CLAIMED),
                     "kind_free_text": "verification-condition generator for Python (ast -> z3/cvc5) with sidecar contracts, modular calls, native replay of counterexamples"}],
        "checks": checks,
        "not_applicable": na,
        "notes": "Exit codes of ./check: 0 held, 1 VIOLATION (replayed), 2 undecided, 3 checker fault. See DESIGN.md.",
    }
    with open(os.path.join(ROOT, "MANIFEST.json"), "w") as f:
        json.dump(m, f, indent=1)
    print("MANIFEST.json written:", len(checks), "checks,", len(na), "not_applicable")

if __name__ == "__main__":
    main()
