import sys, time, os
sys.path.insert(0, os.path.dirname(os.path.dirname(os.path.abspath(__file__))))
from pyvc import driver
contracts = driver.load_contracts()
c = contracts[sys.argv[1]]
t0 = time.time()
rep = driver.gen_function(c, contracts)
print("gen", round(time.time() - t0, 1), "s; obligations", len(rep.obligations), rep.paths)
