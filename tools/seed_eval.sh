#!/bin/sh
# tools/seed_eval.sh <seed-name> <property-id> <dir-with-patch.diff-demo.py-meta.json>
# Confirms a seeded change independently (demo PASS on the unchanged tree, FAIL with the change, suite green with the
# change) in a scratch worktree, then applies it to /repo, runs the property's check, and reverts /repo.
set -u
name=$1; pid=$2; src=$3
dst=/verif/seeded/$name
mkdir -p $dst
cp $src/patch.diff $src/demo.py $src/meta.json $dst/ 2>/dev/null; sed -i "/assert acryo.__file__/d" $dst/demo.py
wt=/tmp/seedeval_$name
git -C /repo worktree remove --force $wt >/dev/null 2>&1
git -C /repo worktree add -q --detach $wt HEAD || exit 3
log=$dst/eval.log; : > $log
( cd $wt && PYTHONPATH=$wt /venv/bin/python $dst/demo.py ) >> $log 2>&1; d0=$?
( cd $wt && git apply $dst/patch.diff ) >> $log 2>&1; ap=$?
( cd $wt && PYTHONPATH=$wt /venv/bin/python $dst/demo.py ) >> $log 2>&1; d1=$?
( cd $wt && PYTHONPATH=$wt /venv/bin/python -m pytest -q -p no:cacheprovider --timeout=900 --deselect tests/test_molecules.py::test_axes_to_rotator_invert 2>&1 | tail -2 ) >> $log 2>&1
suite=$(grep -E "passed|failed" $log | tail -1)
git -C /repo worktree remove --force $wt >/dev/null 2>&1
echo "demo_unchanged_exit=$d0 apply_exit=$ap demo_changed_exit=$d1 suite='$suite'"
# run the check against /repo with the change applied, then undo
git -C /repo apply $dst/patch.diff || { echo "patch does not apply to /repo"; exit 3; }
( cd /verif && ./check $pid ) > $dst/check.log 2>&1; rc=$?
git -C /repo checkout -- . 
git -C /verif checkout -- evidence 2>/dev/null
echo "check_exit=$rc"; grep -E "^VIOLATION|^UNDECIDED|^CHECKER-FAULT|^\[C" $dst/check.log | cut -c1-250 | head -8
