"""print, for the first obligation of every distinct clause of one contract, which stage decides it and how long"""
import sys, os, time, re
sys.path.insert(0, os.path.dirname(os.path.dirname(os.path.abspath(__file__))))
from pyvc import driver, solve
contracts = driver.load_contracts()
rep = driver.gen_function(contracts[sys.argv[1]], contracts)
budget = int(sys.argv[2]) if len(sys.argv) > 2 else 5
seen = set()
for (name, hyps, goal, meta) in rep.obligations:
    key = re.sub(r"@p\d+|@L\d+(\.ax\d)?|#\d+", "", name.split("/", 1)[1])
    if key in seen:
        continue
    seen.add(key)
    stg = solve.Staged(hyps, meta.get("opt") or [], goal)
    line = []
    for k in solve.PROVE_ORDER:
        t = stg.text(k)
        if t is None:
            continue
        r = solve.run_one(t, budget, use_cvc5=False)
        line.append(f"{k}:{r['verdict'][:3]}:{r['time']:.1f}")
        if r["verdict"] == "unsat":
            break
    print(key, "|", " ".join(line), flush=True)
