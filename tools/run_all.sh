#!/bin/bash
# run every claimed check (quick tier) and print one summary line each
cd /verif
for p in "$@"; do
  timeout 3000 ./check $p ${EXTRA} > /tmp/runall_$p.log 2>&1
  echo "$p exit=$? $(tail -1 /tmp/runall_$p.log)"
done
