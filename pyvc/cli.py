from __future__ import annotations
import argparse, os, sys
from . import driver


def main():
    ap = argparse.ArgumentParser()
    ap.add_argument("property")
    ap.add_argument("--tier", default=os.environ.get("VERIF_TIER", "quick"))
    ap.add_argument("--only", default=None, help="restrict to contracts whose key contains this text (debugging)")
    ap.add_argument("--write-baseline", action="store_true",
                    help="(maintainer only) record the obligations proved on this tree in baseline_obligations.json")
    a = ap.parse_args()
    seed = int(os.environ.get("VERIF_SEED", "0") or 0)
    try:
        from checks import HOOKS
    except ImportError:
        HOOKS = {}
    code = driver.check_property(a.property, a.tier, seed, bounded_hooks=HOOKS.get(a.property), only=a.only, write_baseline=a.write_baseline)
    if a.tier == "thorough" and code == 0 and not a.only and not os.environ.get("PYVC_REPO"):
        # self-test of the machinery (informational, never changes the exit code): every change kept under
        # /verif/seeded/ for this property is applied to a scratch copy of /repo and the same check is run on it
        driver.seeded_self_test(a.property)
    if a.tier == "thorough" and not a.only and not os.environ.get("PYVC_REPO"):
        # the library contracts the proofs rest on, evaluated against the installed libraries
        bad = driver.run_conformance(a.property)
        if bad and code == 0:
            print(f"CHECKER-FAULT property={a.property}: a trusted library contract disagrees with the installed library (tools/conform.py)")
            code = 3
    sys.exit(code)


if __name__ == "__main__":
    main()
