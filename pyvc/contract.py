"""Sidecar contracts: type specs for symbolic inputs, requires / ensures / raises clauses,
modular application at call sites, and per-function obligation generation."""
from __future__ import annotations

import ast
import itertools
import random
from fractions import Fraction

import z3

from . import values as V
from .values import Sym, Unsupported, CheckerFault, is_sym, is_num
from . import arrays as A
from .arrays import SArr
from . import symex as X

REGISTRY = {}          # key -> Contract


# ---------------------------------------------------------------------------
# type specs


def _mget(model, name, default):
    v = model.get(name, default)
    return v


def _num_src(v):
    if isinstance(v, bool):
        return repr(v)
    if isinstance(v, int):
        return repr(v)
    if isinstance(v, Fraction):
        if v.denominator == 1:
            return f"{v.numerator}.0"
        return f"({v.numerator}/{v.denominator})"
    return repr(v)


class TSpec:
    def fresh(self, name, path):
        raise NotImplementedError

    def candidates(self, name):
        """concrete instantiations offered to the (bounded) counterexample search; never used for proving"""
        return []

    def src(self, name, model):
        raise NotImplementedError

    def cases(self):
        return [self]


class TInt(TSpec):
    def __init__(self, lo=None, hi=None, default=1, cands=()):
        self.lo, self.hi, self.default, self.cands = lo, hi, default, cands

    def candidates(self, name):
        return [{name: v} for v in self.cands]

    def fresh(self, name, path):
        s = Sym(z3.Int(name))
        if self.lo is not None:
            path.assume(s >= self.lo)
        if self.hi is not None:
            path.assume(s <= self.hi)
        return s

    def src(self, name, model):
        d = self.default
        if self.lo is not None:
            d = max(d, self.lo)
        return _num_src(int(_mget(model, name, d)))


class TReal(TSpec):
    def __init__(self, lo=None, hi=None, default=0, cands=()):
        self.lo, self.hi, self.default, self.cands = lo, hi, default, cands

    def candidates(self, name):
        return [{name: v} for v in self.cands]

    def fresh(self, name, path):
        s = Sym(z3.Real(name))
        if self.lo is not None:
            path.assume(s >= self.lo)
        if self.hi is not None:
            path.assume(s <= self.hi)
        return s

    def src(self, name, model):
        v = _mget(model, name, self.default)
        v = Fraction(v)
        return _num_src(v) if v.denominator != 1 else f"{v.numerator}.0"


class TBool(TSpec):
    def fresh(self, name, path):
        return Sym(z3.Bool(name))

    def src(self, name, model):
        return repr(bool(_mget(model, name, False)))


class TTuple(TSpec):
    kind = tuple

    def __init__(self, *items):
        self.items = items

    def fresh(self, name, path):
        return self.kind(t.fresh(f"{name}_{i}", path) for i, t in enumerate(self.items))

    def src(self, name, model):
        inner = ", ".join(t.src(f"{name}_{i}", model) for i, t in enumerate(self.items))
        if self.kind is tuple:
            return f"({inner},)" if len(self.items) == 1 else f"({inner})"
        return f"[{inner}]"

    def cases(self):
        return [type(self)(*combo) for combo in itertools.product(*[t.cases() for t in self.items])]

    def candidates(self, name):
        per = [t.candidates(f"{name}_{i}") for i, t in enumerate(self.items)]
        if not any(per):
            return []
        n = max(len(p) for p in per)
        out = []
        for k in range(n):
            d = {}
            ok = True
            for p in per:
                if not p:
                    continue
                c = p[min(k, len(p) - 1)]
                if not isinstance(c, dict):
                    ok = False
                    break
                d.update(c)
            if ok and d:
                out.append(d)
        return out


class TList(TTuple):
    kind = list


class TConst(TSpec):
    def __init__(self, value, src=None):
        self.value, self._src = value, src

    def fresh(self, name, path):
        v = self.value
        return v() if callable(v) and getattr(v, "_factory", False) else v

    def src(self, name, model):
        return self._src if self._src is not None else repr(self.value)


class TOneOf(TSpec):
    """finite case split, verified case by case (complete, not bounded)"""

    def __init__(self, *values):
        self.values = values

    def cases(self):
        out = []
        for v in self.values:
            out.extend(v.cases() if isinstance(v, TSpec) else [TConst(v)])
        return out


class TSlice(TSpec):
    def fresh(self, name, path):
        return slice(Sym(z3.Int(name + "_start")), Sym(z3.Int(name + "_stop")), None)

    def src(self, name, model):
        return f"slice({_mget(model, name + '_start', 0)}, {_mget(model, name + '_stop', 1)})"


class TVec(TSpec):
    """1-d numpy array of n scalars"""

    def __init__(self, n, kind="real", lo=None, hi=None):
        self.n, self.kind, self.lo, self.hi = n, kind, lo, hi

    def fresh(self, name, path):
        mk = z3.Int if self.kind == "int" else z3.Real
        items = [Sym(mk(f"{name}_{i}")) for i in range(self.n)]
        for s in items:
            if self.lo is not None:
                path.assume(s >= self.lo)
            if self.hi is not None:
                path.assume(s <= self.hi)
        return A.from_nested(items, self.kind)

    def src(self, name, model):
        vals = [_mget(model, f"{name}_{i}", 0) for i in range(self.n)]
        dt = "np.int64" if self.kind == "int" else "np.float64"
        return f"np.array([{', '.join(_num_src(Fraction(v)) if self.kind != 'int' else str(int(v)) for v in vals)}], dtype={dt})"


class TArr(TSpec):
    """n-d array with symbolic shape (each >= min_size) and uninterpreted elements"""

    def __init__(self, ndim=3, kind="real", min_size=1, shape=None, default_size=5, dask=False, cand_shapes=()):
        self.ndim, self.kind, self.min_size, self.shape = ndim, kind, min_size, shape
        self.default_size, self.dask = default_size, dask
        self.cand_shapes = cand_shapes

    def candidates(self, name):
        return [{f"{name}_shape_{i}": s for i, s in enumerate(shp)} for shp in self.cand_shapes]

    def fresh(self, name, path):
        if self.shape is not None:
            shape = tuple(self.shape)
        else:
            shape = tuple(Sym(z3.Int(f"{name}_shape_{i}")) for i in range(self.ndim))
            for s in shape:
                path.assume(s >= self.min_size)
        rng = {"real": z3.RealSort(), "int": z3.IntSort(), "bool": z3.BoolSort()}[self.kind]
        f = z3.Function(f"{name}_elem", *([z3.IntSort()] * self.ndim), rng)
        return SArr(shape, lambda idx: Sym(f(*[V.lift(i) for i in idx])), self.kind)

    def src(self, name, model):
        if self.shape is not None:
            shape = tuple(int(s) for s in self.shape)
        else:
            shape = tuple(int(_mget(model, f"{name}_shape_{i}", max(self.default_size, self.min_size)))
                          for i in range(self.ndim))
        s = f"_generic_array({shape!r}, {self.kind!r})"
        if self.dask:
            s = f"da.from_array({s}, chunks={tuple(max(1, (x + 1) // 2) for x in shape)!r})"
        return s


class TRot(TSpec):
    """a single scipy Rotation: symbolic 3x3 matrix with the SO(3) invariant as an optional hypothesis group"""

    def __init__(self, so3=True):
        self.so3 = so3

    def fresh(self, name, path):
        from .rotation import RotV
        return RotV.symbolic(name, path, self.so3)

    def candidates(self, name):
        from fractions import Fraction as _F
        a, b = _F(3, 5), _F(4, 5)
        mats = [((1, 0, 0), (0, 1, 0), (0, 0, 1)), ((a, b, 0), (-b, a, 0), (0, 0, 1)),
                ((0, -1, 0), (1, 0, 0), (0, 0, 1)), ((0, 0, 1), (0, 1, 0), (-1, 0, 0))]
        return [{f"{name}_m{i}{j}": m[i][j] for i in range(3) for j in range(3)} for m in mats]

    def src(self, name, model):
        rows = []
        for i in range(3):
            rows.append("[" + ", ".join(_num_src(Fraction(_mget(model, f"{name}_m{i}{j}", 1 if i == j else 0)))
                                        for j in range(3)) + "]")
        return f"_rotation_from_matrix([{', '.join(rows)}])"


class TBackend(TSpec):
    """the numpy Backend object: the real acryo.backend._api.Backend class is instantiated by interpretation, so its
    thin wrapper methods are executed from source (inlined) over the numpy / scipy stubs"""

    def fresh(self, name, path):
        interp = path.interp
        cls = interp.resolve("acryo.backend._api:Backend")
        return interp.instantiate(cls, [], {})

    def src(self, name, model):
        return "_Backend()"


def fresh_array(name, ndim, kind="real", shape=None, path=None, min_size=0):
    """a fresh array value for modular-call results: symbolic shape (unless given) and uninterpreted elements"""
    n = V.fresh_name(name)
    la = V.loop_args()
    if shape is None:
        if la:
            shape = tuple(Sym(z3.Function(f"{n}_shape_{i}", *([z3.IntSort()] * len(la)), z3.IntSort())(*la))
                          for i in range(ndim))
        else:
            shape = tuple(Sym(z3.Int(f"{n}_shape_{i}")) for i in range(ndim))
        if path is not None:
            for s_ in shape:
                path.assume(s_ >= min_size)
    rng = {"real": z3.RealSort(), "int": z3.IntSort(), "bool": z3.BoolSort()}[kind]
    f = z3.Function(f"{n}_elem", *([z3.IntSort()] * (len(la) + len(shape))), rng)
    if len(shape) == 0:
        return Sym(f(*la))
    return SArr(tuple(shape), lambda idx: Sym(f(*(la + [V.lift(i) for i in idx]))), kind)


class TObj(TSpec):
    """instance of a repo class with the given attribute specs (the class invariant goes into `requires`)"""

    def __init__(self, clskey, attrs, src=None):
        self.clskey, self.attrs, self._src = clskey, attrs, src

    @property
    def value(self):
        return self.clskey.split(":")[-1].split(".")[-1]

    def fresh(self, name, path):
        interp = path.interp
        cls = interp.resolve(self.clskey)
        obj = X.Obj(cls, {})
        for k, sp in self.attrs.items():
            obj.attrs[k] = sp.fresh(f"{name}_{k}", path)
        return obj

    def src(self, name, model):
        if self._src is not None:
            return self._src
        if self.attrs:
            # (no constructor known: the replay gets the attribute values as a dict)
            return "{" + ", ".join(f"{k!r}: {sp.src(name + '_' + k, model)}" for k, sp in self.attrs.items()) + "}"
        return "None"

    def candidates(self, name):
        out = []
        for k, sp in self.attrs.items():
            out.extend(sp.candidates(f"{name}_{k}"))
        return out


class TClass(TSpec):
    """the repo class itself (the `cls` argument of a classmethod)"""

    def __init__(self, clskey, src="None"):
        self.clskey, self._src = clskey, src

    def fresh(self, name, path):
        return path.interp.resolve(self.clskey)

    def src(self, name, model):
        return self._src


def make_obj(interp, clskey, **attrs):
    cls = interp.resolve(clskey)
    o = X.Obj(cls, dict(attrs))
    if getattr(cls, "is_namedtuple", False):
        o.attrs["_fields"] = tuple(cls.fields)
    return o


class T:
    Rot = TRot
    Obj = TObj
    Backend = TBackend
    Class = TClass
    Int, Real, Bool, Tuple, List, Const, OneOf, Slice, Vec, Arr = (
        TInt, TReal, TBool, TTuple, TList, TConst, TOneOf, TSlice, TVec, TArr)


# ---------------------------------------------------------------------------


class _NoCall:
    """ghost value for `called(key)` when the function was not called on this path"""
    _pyvc_native = True

    def __getattr__(self, name):
        if name.startswith("__"):
            raise AttributeError(name)
        return _NoCall()


class _NoCallArgs:
    _pyvc_native = True

    def __getitem__(self, k):
        return _NoCall()

    def get(self, k, default=None):
        return _NoCall()


def contract(key, props=()):
    def deco(cls):
        c = Contract(key, cls, props)
        REGISTRY[key] = c
        return cls
    return deco


class Contract:
    def __init__(self, key, cls, props):
        self.key = key
        self.cls = cls
        self.props = list(props)
        self.params = dict(getattr(cls, "params", {}))
        self.requires = list(getattr(cls, "requires", []))
        ens = getattr(cls, "ensures", {})
        self.ensures = dict(ens)
        self.raises = dict(getattr(cls, "raises", {}))             # exception <=> condition
        self.may_raise = dict(getattr(cls, "may_raise", {}))       # exception => condition (allowed, not required)
        self.on_raise = dict(getattr(cls, "on_raise", {}))         # exception -> {name: clause holding when it is raised}
        self.raise_args = getattr(cls, "raise_args", None)        # constructor arguments of a modularly raised exception
        self.result = getattr(cls, "result", None)          # TSpec or callable(bound, mk) for modular calls
        self.inline = getattr(cls, "inline", False)
        self.trusted = getattr(cls, "trusted", False)       # contract assumed, body not verified
        self.helpers = dict(getattr(cls, "helpers", {}))
        self.native_helpers = dict(self.helpers)
        self.native_helpers.update(getattr(cls, "native_helpers", {}) or {})
        self.native = getattr(cls, "native", None)          # optional native clause evaluators
        self.call_ensures = getattr(cls, "call_ensures", None)   # ensures used at call sites (default: all)
        self.doc = (cls.__doc__ or "").strip()
        self.modifies = getattr(cls, "modifies", None)
        self.setup = getattr(cls, "setup", None)            # callable(interp) to install hooks
        self.replay = getattr(cls, "replay", None)          # custom replay source builder
        self.verify = getattr(cls, "verify", True)
        self.imports = getattr(cls, "imports", "")
        self.native_call = getattr(cls, "native_call", None)   # source expr for calling the real function
        self.axioms = dict(getattr(cls, "axioms", {}) or {})    # name -> statement of a trusted (unproved) axiom
        self.lemmas = dict(getattr(cls, "lemmas", {}) or {})
        # property id -> substrings: under that property only the obligations whose name contains one of them count
        self.only = dict(getattr(cls, "only", {}) or {})
        # substrings of obligation names that are not obligations of this function (with the reason in the docstring),
        # e.g. "safety.div" where the divisor is a numpy scalar: numpy division by zero yields nan / inf, never raises
        self.ignore = list(getattr(cls, "ignore", []) or [])    # name -> ("v1 v2 ...", universally valid formula)

    # evaluation of a clause -------------------------------------------------
    def _env(self, interp, bound, extra=None):
        vars = dict(HELPERS)

        def called(key, n=0):
            """ghost: result of the n-th modular call to `key` on this path"""
            hits = [e[2] for e in interp.call_log if key in e[0]]
            if len(hits) <= n:
                return _NoCall()        # compares unequal / non-identical to everything
            return hits[n]
        vars["called"] = called

        def old(x):
            """entry-state value of a mutable input (object, array, list, dict)"""
            sn = getattr(interp, "entry_snapshots", {})
            if id(x) in sn:
                return sn[id(x)][1]
            return x
        vars["old"] = old

        def called_args(key, n=0):
            hits = [e[1] for e in interp.call_log if key in e[0]]
            if len(hits) <= n:
                return _NoCallArgs()
            return hits[n]
        vars["called_args"] = called_args

        def called_at(key, j, n=0):
            """ghost: result of the modular call to `key` made in iteration j of the (innermost) summarised loop"""
            from . import loops as _loops
            hits = [e for e in interp.call_log if key in e[0] and len(e) > 3 and e[3]]
            if len(hits) <= n:
                return _NoCall()
            e = hits[n]
            return _loops.subst_value(e[2], e[3][-1], j)

        def called_args_at(key, j, n=0):
            from . import loops as _loops
            hits = [e for e in interp.call_log if key in e[0] and len(e) > 3 and e[3]]
            if len(hits) <= n:
                return _NoCallArgs()
            e = hits[n]
            return _loops.subst_value(e[1], e[3][-1], j)
        vars["called_at"] = called_at
        vars["called_args_at"] = called_args_at
        from . import stubs as _S

        def fft_arg(res, op=None):
            """ghost: the array that was transformed to obtain `res` (and, with op, a check of which transform)"""
            for (o, r, a, s_) in _S.GHOST["fft"]:
                if r is res and (op is None or o == op):
                    return A.from_nested(a)
            return fresh_array("no_such_transform", 3, "real")     # unconstrained: clauses about it cannot be proved

        def fft_of(x, op):
            """ghost: the result of applying transform `op` to exactly the array `x` on this path"""
            for (o, r, a, s_) in _S.GHOST["fft"]:
                if a is x and o == op:
                    return r
            return fresh_array("no_such_transform", 3, "real")

        def made_by(res, op):
            return any(r is res and o == op for (o, r, a, s_) in _S.GHOST["fft"])
        vars.update(fft_arg=fft_arg, fft_of=fft_of, made_by=made_by)

        def sum_src(res):
            """ghost: (array, axes) whose axis-sum produced `res` on this path"""
            for (r, a, ax) in _S.GHOST.get("sum", []):
                if r is res:
                    return a
            return fresh_array("no_such_sum", 6, "real")

        def sum_axes(res):
            for (r, a, ax) in _S.GHOST.get("sum", []):
                if r is res:
                    return ax
            return None

        def writes_to(obj):
            """frame ghost: number of attribute / item writes to this (pre-existing) object on this path"""
            return sum(1 for (o, n) in (getattr(interp, "write_log", None) or []) if o is obj)
        def flat_src(res):
            """ghost: the array whose trailing axes were flattened (row-major reshape to (n, -1)) to give `res`"""
            for (r, a) in _S.GHOST.get("flatten", []):
                if r is res:
                    return a
            return fresh_array("no_such_flatten", 4, "real")
        vars["flat_src"] = flat_src

        def ndi_call(name, n=0):
            """ghost: (result, positional args, keyword args) of the n-th scipy.ndimage.<name> call on this path"""
            hits = [e for e in _S.GHOST.get("ndi", []) if e[0] == name]
            if len(hits) <= n:
                return (_NoCall(), (), _NoCallArgs())
            return (hits[n][1], hits[n][2], hits[n][3])

        def ndi_count(name=None):
            return sum(1 for e in _S.GHOST.get("ndi", []) if name is None or e[0] == name)
        vars.update(sum_src=sum_src, sum_axes=sum_axes, writes_to=writes_to, ndi_call=ndi_call, ndi_count=ndi_count)
        vars.update(self.helpers)
        vars.update(bound)
        if extra:
            vars.update(extra)
        return X.Env(vars, None, None)

    def eval_clause(self, interp, text, bound, extra=None):
        node = _parse(text)
        env = self._env(interp, bound, extra)
        interp.spec += 1
        old = V.SAFETY[0]
        V.SAFETY[0] = False
        try:
            return interp.eval(node, env)
        except Unsupported as e:
            raise Unsupported(f"{e} [while evaluating clause of {self.key}: {text[:120]}]")
        finally:
            interp.spec -= 1
            V.SAFETY[0] = old

    # modular use -----------------------------------------------------------
    def apply_at_call(self, interp, f, bound):
        path = interp.path
        tag = f"call[{self.key}]@L{interp.lineno}"
        for i, r in enumerate(self.requires):
            path.oblige(f"{tag}.requires[{i}]", self.eval_clause(interp, r, bound), {"clause": r})
        for exc_name, cond in self.raises.items():
            c = self.eval_clause(interp, cond, bound)
            interp.in_raise_branch += 1
            try:
                taken = path.branch(c) if is_sym(c) else bool(c)
            finally:
                interp.in_raise_branch -= 1
            if taken:
                cls = self._exc_class(interp, f, exc_name)
                if self.raise_args is not None and isinstance(cls, X.RepoClass):
                    exc = interp.instantiate(cls, list(self.raise_args(interp, bound)), {})
                    exc.attrs["_modular"] = True
                else:
                    exc = X.Obj(cls, {"args": (f"<{exc_name} from {self.key}>",), "_modular": True})
                raise X.PyRaise(exc, interp.lineno)
        if self.result is None:
            res = None
        elif isinstance(self.result, TSpec):
            res = self.result.fresh(V.fresh_name(f"{f.node.name}_ret"), path)
        else:
            res = self.result(interp, bound)
        names = self.call_ensures if self.call_ensures is not None else list(self.ensures)
        for n in names:
            if isinstance(self.ensures[n], dict):
                # structured clause at a call site: forall vars. assume => show   (a quantified hypothesis)
                spec = self.ensures[n]
                consts, extra = [], {"result": res}
                for v, kind in spec.get("vars", {}).items():
                    c = z3.Real(V.fresh_name("cv_" + v)) if kind == "real" else z3.Int(V.fresh_name("cv_" + v))
                    consts.append(c)
                    extra[v] = Sym(c)
                n0 = len(path.conds)
                a = self.eval_clause(interp, spec["assume"], bound, extra) if spec.get("assume") else True
                sh = self.eval_clause(interp, spec["show"], bound, extra)
                body = V.implies(a, sh)
                bt = V._bool_term(body) if is_sym(body) else z3.BoolVal(bool(body))
                # instance axioms assumed while evaluating (they mention the bound constants) go inside the quantifier
                from . import loops as _loops
                local, keep = [], []
                for c in path.conds[n0:]:
                    (local if any(_loops._term_mentions(c, v) for v in consts) else keep).append(c)
                path.conds[n0:] = keep
                if local:
                    bt = z3.And(*(local + [bt]))
                path.conds.append(z3.ForAll(consts, bt) if consts else bt)
                continue
            path.assume(self.eval_clause(interp, self.ensures[n], bound, {"result": res}))
        interp.call_log.append((self.key, bound, res, [fr.L for fr in interp.loop_stack]))
        return res

    def _exc_class(self, interp, f, name):
        if name in X.BUILTIN_EXC:
            return X.BUILTIN_EXC[name]
        m = f.module
        if m.has(name):
            return m.get(name)
        for key in ("acryo._utils",):
            mm = interp.module(key)
            if mm.has(name):
                return mm.get(name)
        raise CheckerFault(f"exception class {name} not found for {self.key}")


_PARSE_CACHE = {}


def _parse(text):
    if text not in _PARSE_CACHE:
        _PARSE_CACHE[text] = ast.parse(text.strip(), mode="eval").body
    return _PARSE_CACHE[text]


# ---------------------------------------------------------------------------
# spec helpers available in every clause (work on symbolic and concrete values)

def _callable(interp, fn):
    if isinstance(fn, (X.Closure, X.RepoFunc, X.BoundMethod)):
        return lambda *a: interp.call(fn, list(a), {})
    return fn


def forall(interp, fn, *ranges):
    """forall(lambda i, j: body, (lo, hi), (lo, hi)) with hi exclusive. Symbolically a real quantifier."""
    fn = _callable(interp, fn)
    n = len(ranges)
    if all(not is_sym(lo) and not is_sym(hi) for lo, hi in ranges) and \
            all((hi - lo) <= 64 for lo, hi in ranges):
        # finite: expand
        vals = []
        for combo in itertools.product(*[range(int(lo), int(hi)) for lo, hi in ranges]):
            vals.append(fn(*combo))
        return V.sand(*vals) if vals else True
    names = [z3.Int(V.fresh_name("q")) for _ in range(n)]
    path = interp.path
    n0 = len(path.conds) if path is not None else 0
    body = fn(*[Sym(v) for v in names])
    # facts assumed while the body was evaluated (instance axioms of sqrt/exp/..., callee contracts) that mention the
    # bound variables belong inside the quantifier
    local = []
    if path is not None:
        from . import loops as _loops
        keep = []
        for c in path.conds[n0:]:
            if any(_loops._term_mentions(c, v) for v in names):
                local.append(c)
            else:
                keep.append(c)
        path.conds[n0:] = keep
    rng = z3.And(*[z3.And(v >= V.lift(lo), v < V.lift(hi)) for v, (lo, hi) in zip(names, ranges)])
    bt = V._bool_term(body) if is_sym(body) else z3.BoolVal(bool(body))
    if local:
        bt = z3.Implies(z3.And(*local), bt)
    return Sym(z3.ForAll(names, z3.Implies(rng, bt)))


def forall_real(interp, fn, n=1):
    fn = _callable(interp, fn)
    names = [z3.Real(V.fresh_name("qr")) for _ in range(n)]
    body = fn(*[Sym(v) for v in names])
    return Sym(z3.ForAll(names, V._bool_term(body) if is_sym(body) else z3.BoolVal(bool(body))))


def shape_eq(a, b):
    a = tuple(a.shape) if isinstance(a, SArr) else tuple(a)
    b = tuple(b.shape) if isinstance(b, SArr) else tuple(b)
    if len(a) != len(b):
        return False
    return V.sand(*[V.compare("==", x, y) for x, y in zip(a, b)]) if a else True


def _fftindex(i, n):
    return V.ite(V.compare("<=", i, V.arith("//", V.arith("-", n, 1), 2)), i, V.arith("-", i, n))


def exists(interp, fn, *ranges):
    """exists(lambda i: body, (lo, hi)): some index in range satisfies body"""
    fn = _callable(interp, fn)
    names = [z3.Int(V.fresh_name("e")) for _ in ranges]
    body = fn(*[Sym(v) for v in names])
    rng = z3.And(*[z3.And(v >= V.lift(lo), v < V.lift(hi)) for v, (lo, hi) in zip(names, ranges)])
    bt = V._bool_term(body) if is_sym(body) else z3.BoolVal(bool(body))
    return Sym(z3.Exists(names, z3.And(rng, bt)))


exists._wants_interp = True
forall._wants_interp = True
forall_real._wants_interp = True

def arr_eq(a, b):
    """two arrays are the same array value: equal shapes and equal elements at a generic index (ensures only: the
    generic index is a fresh free constant, so proving the clause proves it for every index)"""
    if not isinstance(a, SArr) or not isinstance(b, SArr):
        return a is b
    if a.ndim != b.ndim:
        return False
    idx = tuple(Sym(z3.Int(V.fresh_name("gidx"))) for _ in range(a.ndim))
    rng = V.sand(*[V.sand(i >= 0, i < s_) for i, s_ in zip(idx, a.shape)]) if a.ndim else True
    return V.sand(shape_eq(a, b), V.implies(rng, V.compare("==", a.at(idx), b.at(idx))))


HELPERS = {
    "exists": exists,
    "arr_eq": arr_eq,
    "close": lambda a, b, tol=None: V.compare("==", a, b),
    "forall": forall, "forall_real": forall_real, "implies": V.implies, "ite": V.ite, "shape_eq": shape_eq,
    "fftindex": _fftindex, "trunc": V.trunc, "floor": V.floor_, "ceil": V.ceil_, "iff": lambda a, b: V.compare("==", a, b)
    if (V.kind_of(a) == "bool" and V.kind_of(b) == "bool") else V.sand(V.implies(a, b), V.implies(b, a)),
}
