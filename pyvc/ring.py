"""Laurent-polynomial normalisation of z3 arithmetic terms (a proving stage).

Every maximal arithmetic subterm built from + - * / and numerals over *atoms* (anything else: uninterpreted
applications, ite, div, mod, variables) is rewritten to a canonical sum of monomials (atoms with integer powers,
sorted).  Two terms that are equal as Laurent polynomials become syntactically identical, so identities such as
sum_a k_a (sum_b R_ba n_b)/s_a == sum_b (sum_a R_ba k_a/s_a) n_b are decided by congruence alone.
Cancelling x * x^-1 needs x != 0: every atom that occurs with a negative power is returned as a side condition, and the
caller proves `side conditions and normalised goal`."""
from __future__ import annotations

from fractions import Fraction

import z3

MAX_TERMS = 4000


class TooBig(Exception):
    pass


def _is_num(t):
    return z3.is_int_value(t) or z3.is_rational_value(t)


def _num(t):
    if z3.is_int_value(t):
        return Fraction(t.as_long())
    return Fraction(t.numerator_as_long(), t.denominator_as_long())


def _padd(a, b, sign=1):
    out = dict(a)
    for m, c in b.items():
        v = out.get(m, 0) + sign * c
        if v == 0:
            out.pop(m, None)
        else:
            out[m] = v
    return out


def _mmul(m1, m2):
    d = dict(m1)
    for a, p in m2:
        d[a] = d.get(a, 0) + p
    return tuple(sorted((a, p) for a, p in d.items() if p != 0))


def _pmul(a, b):
    if len(a) * len(b) > MAX_TERMS:
        raise TooBig()
    out = {}
    for m1, c1 in a.items():
        for m2, c2 in b.items():
            m = _mmul(m1, m2)
            v = out.get(m, 0) + c1 * c2
            if v == 0:
                out.pop(m, None)
            else:
                out[m] = v
    return out


class Normalizer:
    def __init__(self):
        self.atoms = {}        # id -> z3 term
        self.neg_atoms = {}    # atoms used with a negative power
        self.cache = {}
        self.changed = False
        self.subst = {}        # atom id -> polynomial (from hypotheses `atom == polynomial`)

    def atom(self, t):
        t2 = self.rewrite_children(t)
        self.atoms[t2.get_id()] = t2
        if t2.get_id() in self.subst:
            return dict(self.subst[t2.get_id()])
        return {((t2.get_id(), 1),): Fraction(1)}

    def _subst_poly(self, p, x, e):
        """replace atom x (only where it occurs as a degree-1 factor) by polynomial e"""
        out = {}
        for m, c in p.items():
            pw = dict(m).get(x, 0)
            if pw == 0:
                out = _padd(out, {m: c})
            elif pw == 1:
                rest = tuple((a, q) for a, q in m if a != x)
                out = _padd(out, _pmul({rest: c}, e))
            else:
                return None
        return out

    def learn_equalities(self, hyps):
        """orient hypotheses `atom == polynomial` into substitutions (equational reasoning for the ring stage)"""
        for h in hyps:
            if not (z3.is_app(h) and h.decl().kind() == z3.Z3_OP_EQ):
                continue
            a, b = h.arg(0), h.arg(1)
            if a.sort() not in (z3.IntSort(), z3.RealSort()):
                continue
            try:
                p = _padd(self.poly(a), self.poly(b), -1)
            except TooBig:
                continue
            best = None
            for m, c in p.items():
                if len(m) == 1 and m[0][1] == 1:
                    x = m[0][0]
                    if any(x in dict(m2) for m2 in p if m2 != m):
                        continue
                    at = self.atoms[x]
                    is_uf = z3.is_app(at) and at.decl().kind() == z3.Z3_OP_UNINTERPRETED and at.num_args() > 0
                    score = (1 if is_uf else 0, x)
                    if best is None or score > best[0]:
                        best = (score, x, c, m)
            if best is None:
                continue
            _, x, c, m = best
            rest = {mm: cc for mm, cc in p.items() if mm != m}
            e = {mm: -cc / c for mm, cc in rest.items()}
            # keep the substitution triangular
            ok = True
            for y, ey in list(self.subst.items()):
                ny = self._subst_poly(ey, x, e)
                if ny is None:
                    ok = False
                    break
                self.subst[y] = ny
            if ok:
                self.subst[x] = e
                self.cache = {}

    def poly(self, t):
        """z3 arithmetic term -> {monomial: coeff}"""
        if _is_num(t):
            v = _num(t)
            return {(): v} if v != 0 else {}
        if not z3.is_app(t):
            return self.atom(t)
        k = t.decl().kind()
        ch = t.children()
        if k == z3.Z3_OP_ADD:
            r = {}
            for c in ch:
                r = _padd(r, self.poly(c))
            return r
        if k == z3.Z3_OP_SUB:
            r = self.poly(ch[0])
            for c in ch[1:]:
                r = _padd(r, self.poly(c), -1)
            return r
        if k == z3.Z3_OP_UMINUS:
            return _padd({}, self.poly(ch[0]), -1)
        if k == z3.Z3_OP_MUL:
            r = {(): Fraction(1)}
            for c in ch:
                r = _pmul(r, self.poly(c))
            return r
        if k == z3.Z3_OP_DIV:
            num, den = self.poly(ch[0]), self.poly(ch[1])
            if len(den) == 1:
                (m, c), = den.items()
                inv = {tuple(sorted((a, -p) for a, p in m)): 1 / c}
                for a, p in m:
                    if p > 0:
                        self.neg_atoms[a] = self.atoms[a]
                return _pmul(num, inv)
            return self.atom(t)
        if k == z3.Z3_OP_TO_REAL:
            return self.poly(ch[0])
        if k == z3.Z3_OP_POWER and _is_num(ch[1]) and _num(ch[1]).denominator == 1 and 0 <= _num(ch[1]) <= 6:
            r = {(): Fraction(1)}
            base = self.poly(ch[0])
            for _ in range(int(_num(ch[1]))):
                r = _pmul(r, base)
            return r
        return self.atom(t)

    def build(self, p, sort):
        """canonical z3 term of a polynomial (always Real-sorted unless every atom is Int and coefficients integral)"""
        real = sort == z3.RealSort()

        def lit(v):
            return z3.RealVal(str(v))
        terms = []
        for m in sorted(p, key=lambda mm: tuple((a, pw) for a, pw in mm)):
            c = p[m]
            factors = []
            for a, pw in m:
                at = self.atoms[a]
                at = z3.ToReal(at) if at.sort() == z3.IntSort() else at
                if pw > 0:
                    factors.extend([at] * pw)
                else:
                    factors.extend([lit(1) / at] * (-pw))
            term = lit(c)
            if factors:
                prod = factors[0]
                for f in factors[1:]:
                    prod = prod * f
                term = prod if c == 1 else lit(c) * prod
            terms.append(term)
        if not terms:
            return lit(0)
        r = terms[0]
        for t in terms[1:]:
            r = r + t
        return r

    def rewrite_children(self, t):
        if not z3.is_app(t) or t.num_args() == 0:
            return t
        new = [self.rewrite(c) for c in t.children()]
        if all(a.eq(b) for a, b in zip(new, t.children())):
            return t
        try:
            return t.decl()(*new)
        except z3.Z3Exception:
            return t

    def rewrite(self, t):
        key = t.get_id()
        if key in self.cache:
            return self.cache[key]
        r = self._rewrite(t)
        self.cache[key] = r
        return r

    def _rewrite(self, t):
        if z3.is_quantifier(t):
            return t
        if not z3.is_app(t):
            return t
        srt = t.sort()
        k = t.decl().kind()
        if srt in (z3.IntSort(), z3.RealSort()) and k in (z3.Z3_OP_ADD, z3.Z3_OP_SUB, z3.Z3_OP_MUL, z3.Z3_OP_DIV,
                                                         z3.Z3_OP_UMINUS, z3.Z3_OP_POWER):
            p = self.poly(t)
            self.changed = True
            r = self.build(p, z3.RealSort())
            if srt == z3.IntSort():
                # keep sorts: an Int-sorted polynomial stays wrapped (only its Real image is canonical)
                return z3.ToInt(r)
            return r
        if k in (z3.Z3_OP_LE, z3.Z3_OP_GE, z3.Z3_OP_LT, z3.Z3_OP_GT, z3.Z3_OP_EQ, z3.Z3_OP_DISTINCT) and \
                t.arg(0).sort() in (z3.IntSort(), z3.RealSort()):
            a, b = t.arg(0), t.arg(1)
            pa, pb = self.poly(a), self.poly(b)
            self.changed = True
            ra, rb = self.build(pa, z3.RealSort()), self.build(pb, z3.RealSort())
            if k == z3.Z3_OP_LE: return ra <= rb
            if k == z3.Z3_OP_GE: return ra >= rb
            if k == z3.Z3_OP_LT: return ra < rb
            if k == z3.Z3_OP_GT: return ra > rb
            if k == z3.Z3_OP_EQ: return ra == rb
            return ra != rb
        return self.rewrite_children(t)


def normalize_query(hyps, goal):
    """-> (hyps', goal') with goal' = side conditions and normalised goal, or None when nothing changes"""
    nz = Normalizer()
    try:
        nz.learn_equalities(hyps)
        g2 = nz.rewrite(goal)
        h2 = [nz.rewrite(h) for h in hyps]
    except (TooBig, z3.Z3Exception, RecursionError):
        return None
    if not nz.changed:
        return None
    side = [a != 0 for a in nz.neg_atoms.values()]
    return h2, (z3.And(*side, g2) if side else g2)
