"""Value domain of the pyvc symbolic executor.

Scalars are either concrete Python numbers (int, float, Fraction, bool) or
``Sym`` (a z3 term of sort Int / Real / Bool).  The same operator table is used
for both, so the executor can be run on purely concrete inputs (the CPython
cross-check) and on symbolic ones (VC generation).

Semantics assumed (stated in every evidence file):
  * int is mathematical, float is a mathematical real (no rounding, NaN, inf);
  * ``//`` and ``%`` are Python floor semantics; ``int()`` truncates toward 0;
  * ``round`` is round-half-to-even.
"""
from __future__ import annotations

import math
from fractions import Fraction
import z3

__all__ = [
    "Sym", "lift", "is_sym", "is_num", "kind_of", "to_real", "S", "ite", "sand", "sor", "snot",
    "implies", "py_floordiv", "py_mod", "trunc", "floor_", "ceil_", "round_half_even",
    "smin", "smax", "sabs", "PATH", "set_path", "Unsupported", "CheckerFault", "concrete_bool",
    "fresh", "fresh_name", "seq", "sne", "exact",
]


class Unsupported(Exception):
    """The executor met a construct outside its subset (checker fault, never a verdict)."""


class CheckerFault(Exception):
    pass


# the currently active path (set by the explorer); Sym.__bool__ forks through it
PATH = [None]
SAFETY = [True]      # False while a contract clause is being evaluated


def set_path(p):
    PATH[0] = p


_counter = [0]


def fresh_name(prefix: str) -> str:
    _counter[0] += 1
    return f"{prefix}!{_counter[0]}"


def reset_fresh():
    _counter[0] = 0


LOOP_INDEX = []      # generic iteration indices (z3 Int constants) of the enclosing summarised loops


def loop_args():
    return list(LOOP_INDEX)


def fresh(prefix: str, kind: str) -> "Sym":
    n = fresh_name(prefix)
    if LOOP_INDEX:
        # inside a summarised loop a fresh value is a Skolem *function* of the iteration
        rng = {"int": z3.IntSort(), "real": z3.RealSort(), "bool": z3.BoolSort()}[kind]
        f = z3.Function(n, *([z3.IntSort()] * len(LOOP_INDEX)), rng)
        return Sym(f(*LOOP_INDEX))
    if kind == "int":
        return Sym(z3.Int(n))
    if kind == "real":
        return Sym(z3.Real(n))
    if kind == "bool":
        return Sym(z3.Bool(n))
    raise ValueError(kind)


def exact(x):
    """Concrete number -> exact rational (floats by shortest repr: 0.02 -> 1/50)."""
    if isinstance(x, bool):
        return int(x)
    if isinstance(x, int):
        return x
    if isinstance(x, Fraction):
        return x
    if isinstance(x, float):
        if x != x or x in (math.inf, -math.inf):
            raise Unsupported("non-finite float constant")
        return Fraction(repr(x))
    try:
        import numpy as _np
        if isinstance(x, _np.integer):
            return int(x)
        if isinstance(x, _np.floating):
            return Fraction(repr(float(x)))
        if isinstance(x, _np.bool_):
            return int(bool(x))
    except ImportError:  # pragma: no cover
        pass
    raise Unsupported(f"not a number: {x!r}")


class Sym:
    """A z3 term with Python-number behaviour."""

    __slots__ = ("t",)
    __array_priority__ = 1000

    def __init__(self, t):
        self.t = t

    # -- sort helpers -----------------------------------------------------
    @property
    def kind(self) -> str:
        s = self.t.sort()
        if s == z3.IntSort():
            return "int"
        if s == z3.RealSort():
            return "real"
        if s == z3.BoolSort():
            return "bool"
        return str(s)

    def __repr__(self):
        return f"Sym({self.t})"

    def __hash__(self):
        return hash(self.t)

    # -- truthiness: fork -------------------------------------------------
    def __bool__(self):
        p = PATH[0]
        if p is None:
            raise Unsupported(f"truth value of symbolic {self.t} outside a path")
        if self.kind != "bool":
            return p.branch(self != 0)
        return p.branch(self)

    # -- arithmetic -------------------------------------------------------
    def __add__(self, o): return arith("+", self, o)
    def __radd__(self, o): return arith("+", o, self)
    def __sub__(self, o): return arith("-", self, o)
    def __rsub__(self, o): return arith("-", o, self)
    def __mul__(self, o): return arith("*", self, o)
    def __rmul__(self, o): return arith("*", o, self)
    def __truediv__(self, o): return arith("/", self, o)
    def __rtruediv__(self, o): return arith("/", o, self)
    def __floordiv__(self, o): return arith("//", self, o)
    def __rfloordiv__(self, o): return arith("//", o, self)
    def __mod__(self, o): return arith("%", self, o)
    def __rmod__(self, o): return arith("%", o, self)
    def __pow__(self, o): return arith("**", self, o)
    def __rpow__(self, o): return arith("**", o, self)
    def __neg__(self): return arith("-", 0, self)
    def __pos__(self): return self
    def __abs__(self): return sabs(self)
    def __lt__(self, o): return compare("<", self, o)
    def __le__(self, o): return compare("<=", self, o)
    def __gt__(self, o): return compare(">", self, o)
    def __ge__(self, o): return compare(">=", self, o)
    def __eq__(self, o): return compare("==", self, o)
    def __ne__(self, o): return compare("!=", self, o)
    def __and__(self, o): return sand(self, o)
    def __rand__(self, o): return sand(o, self)
    def __or__(self, o): return sor(self, o)
    def __ror__(self, o): return sor(o, self)
    def __invert__(self): return snot(self)
    def __int__(self):
        raise Unsupported("int() of symbolic outside executor; use values.trunc")
    def __float__(self):
        raise Unsupported("float() of symbolic outside executor")
    def __index__(self):
        raise Unsupported("symbolic value used as a Python index")
    def __round__(self, n=None):
        return round_half_even(self)
    def __trunc__(self):
        raise Unsupported("math.trunc of symbolic")


def is_sym(x) -> bool:
    return isinstance(x, Sym)


def is_num(x) -> bool:
    if isinstance(x, (int, float, Fraction, Sym)):
        return True
    try:
        import numpy as _np
        return isinstance(x, (_np.integer, _np.floating, _np.bool_))
    except ImportError:  # pragma: no cover
        return False


def kind_of(x) -> str:
    if isinstance(x, Sym):
        return x.kind
    if isinstance(x, bool):
        return "bool"
    if isinstance(x, int):
        return "int"
    if isinstance(x, (float, Fraction)):
        return "real"
    try:
        import numpy as _np
        if isinstance(x, _np.bool_):
            return "bool"
        if isinstance(x, _np.integer):
            return "int"
        if isinstance(x, _np.floating):
            return "real"
    except ImportError:  # pragma: no cover
        pass
    raise Unsupported(f"kind_of({type(x).__name__})")


def lift(x):
    """-> z3 term"""
    if isinstance(x, Sym):
        return x.t
    k = kind_of(x)
    if k == "bool":
        return z3.BoolVal(bool(x))
    if k == "int":
        return z3.IntVal(int(x))
    q = exact(x)
    if isinstance(q, int):
        return z3.RealVal(q)
    return z3.RealVal(str(q))


def S(x) -> Sym:
    return x if isinstance(x, Sym) else Sym(lift(x))


def _num_term(x):
    """z3 arithmetic term for x (bools become 0/1 ints)."""
    t = lift(x)
    if t.sort() == z3.BoolSort():
        return z3.If(t, z3.IntVal(1), z3.IntVal(0))
    return t


def to_real(x):
    if isinstance(x, Sym):
        t = _num_term(x)
        if t.sort() == z3.IntSort():
            return Sym(z3.ToReal(t))
        return Sym(t)
    if isinstance(x, (bool, int)):
        return float(x) if not isinstance(x, bool) else float(int(x))
    return x


def _simp(t):
    return z3.simplify(t)


def _wrap(t):
    t = _simp(t)
    # collapse to a concrete Python value when the term is a literal
    if z3.is_int_value(t):
        return t.as_long()
    if z3.is_rational_value(t):
        n, d = t.numerator_as_long(), t.denominator_as_long()
        return Fraction(n, d) if d != 1 else Fraction(n, 1)
    if z3.is_true(t):
        return True
    if z3.is_false(t):
        return False
    return Sym(t)


def _coerce2(a, b):
    ta, tb = _num_term(a), _num_term(b)
    if ta.sort() != tb.sort():
        if ta.sort() == z3.IntSort():
            ta = z3.ToReal(ta)
        if tb.sort() == z3.IntSort():
            tb = z3.ToReal(tb)
    return ta, tb


def py_floordiv(a, b):
    """floor(a/b) with Python semantics, ints or reals (z3 terms)."""
    if a.sort() == z3.IntSort() and b.sort() == z3.IntSort():
        if z3.is_int_value(b):
            bv = b.as_long()
            if bv > 0:
                return a / b          # SMT-LIB div floors for positive divisors
            if bv < 0:
                return (-a) / (-b)
        return z3.If(b > 0, a / b, (-a) / (-b))
    a = z3.ToReal(a) if a.sort() == z3.IntSort() else a
    b = z3.ToReal(b) if b.sort() == z3.IntSort() else b
    return z3.ToReal(z3.ToInt(a / b))


def py_mod(a, b):
    q = py_floordiv(a, b)
    if q.sort() != a.sort() or q.sort() != b.sort():
        a = z3.ToReal(a) if a.sort() == z3.IntSort() else a
        b = z3.ToReal(b) if b.sort() == z3.IntSort() else b
        q = z3.ToReal(q) if q.sort() == z3.IntSort() else q
    return a - b * q


def _concrete_arith(op, a, b):
    # numpy scalars behave like Python numbers here
    if op == "+": return a + b
    if op == "-": return a - b
    if op == "*": return a * b
    if op == "/": return a / b
    if op == "//": return a // b
    if op == "%": return a % b
    if op == "**": return a ** b
    raise Unsupported(op)


def arith(op, a, b):
    if not isinstance(a, Sym) and not isinstance(b, Sym):
        if isinstance(a, bool): a = int(a)
        if isinstance(b, bool): b = int(b)
        # keep exact rationals exact, floats float
        if isinstance(a, Fraction) and isinstance(b, float): b = exact(b)
        if isinstance(b, Fraction) and isinstance(a, float): a = exact(a)
        if op == "/" and isinstance(a, int) and isinstance(b, int):
            if b == 0:
                raise ZeroDivisionError
            return Fraction(a, b) if a % b else Fraction(a // b, 1)
        return _concrete_arith(op, a, b)
    ta, tb = _coerce2(a, b)
    if op == "+": return _wrap(ta + tb)
    if op == "-": return _wrap(ta - tb)
    if op == "*": return _wrap(ta * tb)
    if op == "/":
        if ta.sort() == z3.IntSort():
            ta, tb = z3.ToReal(ta), z3.ToReal(tb)
        return _wrap(ta / tb)
    if op == "//": return _wrap(py_floordiv(ta, tb))
    if op == "%": return _wrap(py_mod(ta, tb))
    if op == "**":
        if not isinstance(b, Sym):
            e = exact(b)
            if isinstance(e, int) or (isinstance(e, Fraction) and e.denominator == 1):
                e = int(e)
                if 0 <= e <= 8:
                    r = lift(1) if ta.sort() == z3.IntSort() else z3.RealVal(1)
                    for _ in range(e):
                        r = r * ta
                    if isinstance(b, float):
                        r = z3.ToReal(r) if r.sort() == z3.IntSort() else r
                    return _wrap(r)
        raise Unsupported(f"power with exponent {b!r}")
    raise Unsupported(op)


def compare(op, a, b):
    if not isinstance(a, Sym) and not isinstance(b, Sym):
        if isinstance(a, float) and isinstance(b, Fraction): a = exact(a)
        if isinstance(b, float) and isinstance(a, Fraction): b = exact(b)
        return {"<": a < b, "<=": a <= b, ">": a > b, ">=": a >= b, "==": a == b, "!=": a != b}[op]
    ka, kb = kind_of(a), kind_of(b)
    if ka == "bool" and kb == "bool" and op in ("==", "!="):
        t = lift(a) == lift(b)
        return _wrap(t if op == "==" else z3.Not(t))
    ta, tb = _coerce2(a, b)
    if op == "<": t = ta < tb
    elif op == "<=": t = ta <= tb
    elif op == ">": t = ta > tb
    elif op == ">=": t = ta >= tb
    elif op == "==": t = ta == tb
    elif op == "!=": t = ta != tb
    else: raise Unsupported(op)
    return _wrap(t)


def seq(a, b):
    return compare("==", a, b)


def sne(a, b):
    return compare("!=", a, b)


def _bool_term(x):
    if isinstance(x, Sym):
        if x.kind == "bool":
            return x.t
        return _num_term(x) != 0
    return z3.BoolVal(bool(x))


def concrete_bool(x):
    return not isinstance(x, Sym)


def sand(*xs):
    if all(not isinstance(x, Sym) for x in xs):
        return all(bool(x) for x in xs)
    if any((not isinstance(x, Sym)) and not bool(x) for x in xs):
        return False
    return _wrap(z3.And(*[_bool_term(x) for x in xs]))


def sor(*xs):
    if all(not isinstance(x, Sym) for x in xs):
        return any(bool(x) for x in xs)
    if any((not isinstance(x, Sym)) and bool(x) for x in xs):
        return True
    return _wrap(z3.Or(*[_bool_term(x) for x in xs]))


def snot(x):
    if not isinstance(x, Sym):
        return not bool(x)
    return _wrap(z3.Not(_bool_term(x)))


def implies(a, b):
    return sor(snot(a), b)


def ite(c, a, b):
    if not isinstance(c, Sym):
        return a if c else b
    if not is_num(a) or not is_num(b):
        # structural ite over tuples / lists
        if isinstance(a, (tuple, list)) and isinstance(b, (tuple, list)) and len(a) == len(b):
            return type(a)(ite(c, x, y) for x, y in zip(a, b))
        raise Unsupported(f"ite over {type(a).__name__}/{type(b).__name__}")
    ka, kb = kind_of(a), kind_of(b)
    if ka == "bool" and kb == "bool":
        return _wrap(z3.If(_bool_term(c), lift(a), lift(b)))
    ta, tb = _coerce2(a, b)
    return _wrap(z3.If(_bool_term(c), ta, tb))


def smin(a, b):
    if not isinstance(a, Sym) and not isinstance(b, Sym):
        return b if b < a else a       # Python's min(a, b): first minimal
    return ite(compare("<", b, a), b, a)


def smax(a, b):
    if not isinstance(a, Sym) and not isinstance(b, Sym):
        return b if b > a else a
    return ite(compare(">", b, a), b, a)


def sabs(a):
    if not isinstance(a, Sym):
        return abs(a)
    return ite(compare("<", a, 0), arith("-", 0, a), a)


def floor_(x):
    """mathematical floor -> int"""
    if not isinstance(x, Sym):
        return math.floor(x)
    if x.kind == "int":
        return x
    return _wrap(z3.ToInt(x.t))


def ceil_(x):
    if not isinstance(x, Sym):
        return math.ceil(x)
    if x.kind == "int":
        return x
    return _wrap(-z3.ToInt(-x.t))


def trunc(x):
    """int(x): truncation toward zero"""
    if not isinstance(x, Sym):
        return int(x)
    if x.kind == "int":
        return x
    if x.kind == "bool":
        return _wrap(_num_term(x))
    return _wrap(z3.If(x.t >= 0, z3.ToInt(x.t), -z3.ToInt(-x.t)))


def round_half_even(x):
    if not isinstance(x, Sym):
        return round(x)
    if x.kind == "int":
        return x
    f = z3.ToInt(x.t)
    d = x.t - z3.ToReal(f)
    half = z3.RealVal("1/2")
    return _wrap(z3.If(d < half, f, z3.If(d > half, f + 1, z3.If(f % 2 == 0, f, f + 1))))
