"""Opaque images for the pipeline algebra (C19): an image is a term of the uninterpreted sort Img; voxel-wise operators
are uninterpreted functions (only + and * with a scalar are normalised as commutative).  Providers / converters are
uninterpreted functions Real -> Img and Img x Real -> Img."""
from __future__ import annotations

from fractions import Fraction

import z3

from . import values as V
from .values import Sym, is_sym

Img = z3.DeclareSort("Img")
R = z3.RealSort()
_F = {}


def _f(name, *sorts):
    if name not in _F:
        _F[name] = z3.Function(name, *sorts)
    return _F[name]


def _real(x):
    return V.lift(V.to_real(x) if is_sym(x) else Fraction(x) if not isinstance(x, bool) else Fraction(int(x)))


class ImgTok:
    _pyvc_native = True
    ndim = 3
    dtype = "float32"

    def __init__(self, t):
        self.t = t

    @property
    def shape(self):
        return tuple(Sym(_f(f"img_shape{a}", Img, z3.IntSort())(self.t)) for a in range(3))

    def _bin(self, op, other, reflected=False):
        if isinstance(other, ImgTok):
            a, b = (other, self) if reflected else (self, other)
            return ImgTok(_f(f"img_{op}", Img, Img, Img)(a.t, b.t))
        if V.is_num(other):
            if op in ("add", "mul") or not reflected:
                return ImgTok(_f(f"img_{op}_scalar", Img, R, Img)(self.t, _real(other)))
            return ImgTok(_f(f"scalar_{op}_img", R, Img, Img)(_real(other), self.t))
        return NotImplemented

    def __add__(self, o): return self._bin("add", o)
    def __radd__(self, o): return self._bin("add", o, True)
    def __sub__(self, o): return self._bin("sub", o)
    def __rsub__(self, o): return self._bin("sub", o, True)
    def __mul__(self, o): return self._bin("mul", o)
    def __rmul__(self, o): return self._bin("mul", o, True)
    def __truediv__(self, o): return self._bin("div", o)
    def __rtruediv__(self, o): return self._bin("div", o, True)
    def __lt__(self, o): return self._bin("lt", o)
    def __le__(self, o): return self._bin("le", o)
    def __gt__(self, o): return self._bin("gt", o)
    def __ge__(self, o): return self._bin("ge", o)
    def __eq__(self, o): return self._bin("eq", o)
    def __ne__(self, o): return self._bin("ne", o)
    def __neg__(self): return ImgTok(_f("img_neg", Img, Img)(self.t))

    def astype(self, dtype, **kw):
        return self          # a change of element type does not change the values compared / combined here
    __hash__ = None


def same(a, b):
    """logical equality of two images (for contract clauses)"""
    if isinstance(a, ImgTok) and isinstance(b, ImgTok):
        return V._wrap(a.t == b.t)
    return a is b


def provider_fn(name):
    """an arbitrary provider: scale -> image"""
    f = _f(f"prov_{name}", R, Img)

    def fn(scale):
        return ImgTok(f(_real(scale)))
    fn.__name__ = name
    return fn


def converter_fn(name):
    """an arbitrary converter: (image, scale) -> image"""
    f = _f(f"conv_{name}", Img, R, Img)

    def fn(img, scale):
        if not isinstance(img, ImgTok):
            raise V.Unsupported("converter applied to a non-image")
        return ImgTok(f(img.t, _real(scale)))
    fn.__name__ = name
    return fn


def fresh_image(name):
    return ImgTok(z3.Const(name, Img))
