"""Native (CPython / numpy) counterparts of the spec helpers, used by replay scripts so that the
*same clause text* that was proved or refuted symbolically is evaluated on the real code's result."""
from __future__ import annotations

import itertools
import math
from fractions import Fraction

import numpy as np


def forall(fn, *ranges):
    for combo in itertools.product(*[range(int(lo), int(hi)) for lo, hi in ranges]):
        if not fn(*combo):
            return False
    return True


def forall_real(fn, n=1, samples=4000, lo=-2.0, hi=40.0, seed=0):
    """native stand-in for a quantifier over reals: dense random sampling (replay only; never a proof)"""
    rng = np.random.default_rng(seed)
    for _ in range(samples):
        if not fn(*[float(x) for x in rng.uniform(lo, hi, size=n)]):
            return False
    return True


def exists(fn, *ranges):
    for combo in itertools.product(*[range(int(lo), int(hi)) for lo, hi in ranges]):
        if fn(*combo):
            return True
    return False


def implies(a, b):
    return (not a) or bool(b)


def ite(c, a, b):
    return a if c else b


def iff(a, b):
    return bool(a) == bool(b)


def shape_eq(a, b):
    a = tuple(a.shape) if hasattr(a, "shape") else tuple(a)
    b = tuple(b.shape) if hasattr(b, "shape") else tuple(b)
    return a == b


def fftindex(i, n):
    return i if i <= (n - 1) // 2 else i - n


def trunc(x):
    return int(x)


def floor(x):
    return math.floor(x)


def ceil(x):
    return math.ceil(x)


def close(a, b, tol=1e-4):
    return abs(float(a) - float(b)) <= tol * max(1.0, abs(float(a)), abs(float(b)))


HELPERS = dict(exists=exists, forall=forall, forall_real=forall_real, implies=implies, ite=ite, iff=iff, shape_eq=shape_eq, fftindex=fftindex,
               trunc=trunc, floor=floor, ceil=ceil, close=close)


def _generic_array(shape, kind="real", seed=0):
    """an array whose entries are pairwise distinct and irregular, so index mix-ups change values"""
    rng = np.random.default_rng(seed)
    n = int(np.prod(shape)) if len(shape) else 1
    if kind == "bool":
        return rng.random(shape) > 0.5
    base = np.arange(n, dtype=np.float64).reshape(shape)
    a = base * 0.37 + rng.random(shape) * 0.2 + 1.0
    if kind == "int":
        return np.arange(n, dtype=np.int64).reshape(shape) * 3 + 1
    return a.astype(np.float32)


def _rotation_from_matrix(m):
    from scipy.spatial.transform import Rotation
    m = np.array(m, dtype=np.float64)
    return Rotation.from_matrix(m)


def _Backend():
    from acryo.backend import Backend
    return Backend()
