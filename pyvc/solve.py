"""Discharge obligations: one solver *process* per query (hard kill), z3 first, cvc5 on unknown."""
from __future__ import annotations

import os
import re
import shutil
import subprocess
import sys
import tempfile
import time
from concurrent.futures import ThreadPoolExecutor

import z3

HERE = os.path.dirname(os.path.abspath(__file__))
ROOT = os.path.dirname(HERE)


def _find(cands):
    for c in cands:
        if c and os.path.isabs(c) and os.access(c, os.X_OK):
            return c
        w = shutil.which(c) if c else None
        if w:
            return w
    return None


Z3_BIN = _find([os.path.join(ROOT, ".venv", "bin", "z3"), "z3-new", "z3"])
CVC5_BIN = _find(["/usr/bin/cvc5", "cvc5"])


def to_smt2(hyps, goal, logic=None):
    s = z3.Solver()
    for h in hyps:
        s.add(h)
    s.add(z3.Not(goal))
    txt = s.to_smt2()
    # to_smt2 ends with (check-sat); ask for a model
    return txt + "\n(get-model)\n"


_DEF = re.compile(r"\(define-fun\s+(\S+)\s+\(\)\s+(\w+)\s+(.*)\)\s*$")


def _parse_sexpr(s):
    toks = re.findall(r"\(|\)|[^\s()]+", s)
    pos = 0

    def rd():
        nonlocal pos
        t = toks[pos]
        pos += 1
        if t == "(":
            out = []
            while toks[pos] != ")":
                out.append(rd())
            pos += 1
            return out
        return t
    out = []
    while pos < len(toks):
        out.append(rd())
    return out


def _val(e):
    from fractions import Fraction
    if isinstance(e, str):
        if e == "true":
            return True
        if e == "false":
            return False
        try:
            if "." in e:
                return Fraction(e)
            return int(e)
        except ValueError:
            return e
    if e and e[0] == "-" and len(e) == 2:
        return -_val(e[1])
    if e and e[0] == "/" and len(e) == 3:
        return Fraction(_val(e[1])) / Fraction(_val(e[2]))
    if e and e[0] == "to_real":
        return _val(e[1])
    return None


def parse_model(text):
    """constants only: name -> int | Fraction | bool"""
    i = text.find("(")
    if i < 0:
        return {}
    try:
        sx = _parse_sexpr(text[i:])
    except Exception:
        return {}
    model = {}

    def walk(items):
        for it in items:
            if isinstance(it, list) and it and it[0] == "define-fun" and len(it) >= 5 and it[2] == []:
                v = _val(it[4])
                if v is not None:
                    model[it[1].strip("|")] = v
            elif isinstance(it, list) and it and it[0] == "model":
                walk(it[1:])
            elif isinstance(it, list) and it and isinstance(it[0], list):
                walk(it)
    walk(sx)
    return model


def run_one(smt2, timeout_s, use_cvc5=True):
    """-> dict(verdict='unsat'|'sat'|'unknown', backend, time, model, raw)"""
    t0 = time.time()
    fd, path = tempfile.mkstemp(suffix=".smt2", prefix="pyvc_")
    with os.fdopen(fd, "w") as f:
        f.write(smt2)
    res = {"verdict": "unknown", "backend": "z3", "model": {}, "raw": ""}
    try:
        try:
            p = subprocess.run([Z3_BIN, f"-T:{int(timeout_s)}", "model.completion=true", path], capture_output=True, text=True,
                               timeout=timeout_s + 5)
            out = p.stdout.strip()
        except subprocess.TimeoutExpired:
            out = "timeout"
        first = out.split("\n", 1)[0].strip()
        res["raw"] = out[:4000]
        if first.startswith("(error"):
            # a malformed query must never be read as a verdict
            res["error"] = first
            first = "unknown"
        if first == "unsat":
            res["verdict"] = "unsat"
        elif first == "sat":
            res["verdict"] = "sat"
            res["model"] = parse_model(out.split("\n", 1)[1] if "\n" in out else "")
        elif use_cvc5 and CVC5_BIN:
            res["backend"] = "cvc5"
            txt = smt2.replace("(get-model)", "")
            fd2, p2 = tempfile.mkstemp(suffix=".smt2", prefix="pyvc_c_")
            with os.fdopen(fd2, "w") as f:
                f.write("(set-option :produce-models true)\n(set-logic ALL)\n" + txt + "\n(get-model)\n")
            try:
                q = subprocess.run([CVC5_BIN, "--lang=smt2", f"--tlimit={int(timeout_s * 1000)}", "--nl-ext-tplanes", p2],
                                   capture_output=True, text=True, timeout=timeout_s + 5)
                o2 = q.stdout.strip()
            except subprocess.TimeoutExpired:
                o2 = "timeout"
            finally:
                os.unlink(p2)
            f2 = o2.split("\n", 1)[0].strip()
            res["raw"] = (res["raw"] + "\n--cvc5--\n" + o2)[:4000]
            if f2 == "unsat":
                res["verdict"] = "unsat"
            elif f2 == "sat":
                res["verdict"] = "sat"
                res["model"] = parse_model(o2.split("\n", 1)[1] if "\n" in o2 else "")
    finally:
        os.unlink(path)
    res["time"] = time.time() - t0
    return res


def symbols(t, _cache={}):
    """names of uninterpreted constants / functions occurring in a term"""
    key = t.get_id()
    if key in _cache:
        return _cache[key]
    out = set()
    seen = set()
    stack = [t]
    while stack:
        x = stack.pop()
        i = x.get_id()
        if i in seen:
            continue
        seen.add(i)
        if z3.is_quantifier(x):
            stack.append(x.body())
            continue
        if z3.is_app(x):
            d = x.decl()
            if d.kind() == z3.Z3_OP_UNINTERPRETED:
                out.add(d.name())
            stack.extend(x.children())
    _cache[key] = out
    return out


def cone(hyps, goal, level):
    """relevance filter. level 0: hyps over the goal's symbols only; 1: hyps sharing a symbol with the goal"""
    gs = set(symbols(goal))
    if level == 0:
        return [h for h in hyps if symbols(h) and symbols(h) <= gs]
    return [h for h in hyps if symbols(h) & gs]


def _subst(terms, cand):
    pairs = []
    for name, v in cand.items():
        if isinstance(v, bool):
            pairs.append((z3.Bool(name), z3.BoolVal(v)))
        elif isinstance(v, int):
            pairs.append((z3.Int(name), z3.IntVal(v)))
            pairs.append((z3.Real(name), z3.RealVal(v)))
        else:
            pairs.append((z3.Real(name), z3.RealVal(str(v))))
    return [z3.substitute(t, *pairs) for t in terms]


def _has_quant(t):
    seen = set()
    stack = [t]
    while stack:
        x = stack.pop()
        if z3.is_quantifier(x):
            return True
        i = x.get_id()
        if i in seen:
            continue
        seen.add(i)
        stack.extend(x.children())
    return False


_sk = [0]


def skolemize_goal(goal):
    """forall x. body  (as a goal)  ->  body[x := fresh constants]"""
    consts = []
    while z3.is_quantifier(goal) and goal.is_forall():
        n = goal.num_vars()
        fresh = []
        for i in range(n):
            _sk[0] += 1
            fresh.append(z3.Const(f"sk!{goal.var_name(i)}!{_sk[0]}", goal.var_sort(i)))
        consts.extend(fresh)
        goal = z3.substitute_vars(goal.body(), *reversed(fresh))
    if z3.is_implies(goal) and z3.is_quantifier(goal.arg(1)) and goal.arg(1).is_forall():
        g2, c2 = skolemize_goal(goal.arg(1))
        return z3.Implies(goal.arg(0), g2), consts + c2
    if z3.is_and(goal) or z3.is_or(goal):
        parts = []
        for ch in goal.children():
            g2, c2 = skolemize_goal(ch)
            parts.append(g2)
            consts.extend(c2)
        return (z3.And(*parts) if z3.is_and(goal) else z3.Or(*parts)), consts
    if z3.is_app(goal) and goal.decl().kind() == z3.Z3_OP_ITE and goal.sort() == z3.BoolSort():
        return goal, consts
    return goal, consts


def _index_terms(terms, limit=8):
    """Int-sorted ground terms that occur as arguments of uninterpreted functions, plus Int constants"""
    out = {}
    seen = set()
    stack = list(terms)
    while stack:
        x = stack.pop()
        i = x.get_id()
        if i in seen:
            continue
        seen.add(i)
        if z3.is_quantifier(x):
            continue
        if z3.is_app(x):
            d = x.decl()
            if d.kind() == z3.Z3_OP_UNINTERPRETED:
                if x.num_args() == 0 and x.sort() == z3.IntSort():
                    out.setdefault(x.get_id(), x)
                for a in x.children():
                    if a.sort() == z3.IntSort() and not z3.is_var(a):
                        out.setdefault(a.get_id(), a)
            stack.extend(x.children())
    return list(out.values())


def _ground_apps(terms):
    """uninterpreted function applications (with arguments) occurring outside quantifiers, by declaration name"""
    out = {}
    seen = set()
    stack = list(terms)
    while stack:
        x = stack.pop()
        i = x.get_id()
        if i in seen:
            continue
        seen.add(i)
        if z3.is_quantifier(x):
            continue
        if z3.is_app(x):
            if x.decl().kind() == z3.Z3_OP_UNINTERPRETED and x.num_args() > 0:
                out.setdefault(x.decl().name(), []).append(x)
            stack.extend(x.children())
    return out


def _patterns(body, nvars):
    """applications f(..) in a quantifier body whose arguments include every bound variable directly"""
    pats = []
    seen = set()
    stack = [body]
    while stack:
        x = stack.pop()
        i = x.get_id()
        if i in seen:
            continue
        seen.add(i)
        if z3.is_quantifier(x):
            continue
        if z3.is_app(x):
            if x.decl().kind() == z3.Z3_OP_UNINTERPRETED and x.num_args() > 0:
                pos = {}
                for ai, a in enumerate(x.children()):
                    if z3.is_var(a):
                        pos.setdefault(z3.get_var_index(a), ai)
                if len(pos) == nvars:
                    pats.append((x.decl().name(), pos, x))
            stack.extend(x.children())
    return pats


def instantiate(hyps, goal, max_inst=600):
    """replace every top-level universally quantified hypothesis by its instances over the index terms of the goal
    (sound for proving; a model of the result is only a *candidate* counterexample)"""
    import itertools as _it
    goal2, sk = skolemize_goal(goal)
    qf = [h for h in hyps if not _has_quant(h)]
    qs = [h for h in hyps if z3.is_quantifier(h) and h.is_forall()]
    cands = _index_terms([goal2]) + list(c for c in sk if c.sort() == z3.IntSort())
    # de-duplicate, prefer small terms
    uniq = {}
    for c in cands:
        uniq.setdefault(c.get_id(), c)
    cands = sorted(uniq.values(), key=lambda t: len(t.sexpr()))[:8]
    insts = []
    ground = _ground_apps([goal2] + qf)
    for q in qs:
        n = q.num_vars()
        if any(q.var_sort(i) != z3.IntSort() for i in range(n)):
            continue
        # E-matching light: bind the bound variables from ground applications of the same function
        matched = False
        done = set()
        for (fname, pos, pat) in _patterns(q.body(), n):
            for g in ground.get(fname, []):
                if g.num_args() != pat.num_args():
                    continue
                # de Bruijn index v corresponds to bound variable number (n - 1 - v)
                binding = [None] * n
                for v, ai in pos.items():
                    binding[n - 1 - v] = g.arg(ai)
                key = tuple(b.get_id() for b in binding)
                if key in done or len(done) > max_inst:
                    continue
                done.add(key)
                insts.append(z3.substitute_vars(q.body(), *reversed(binding)))
                matched = True
        if matched:
            continue
        combos = list(_it.product(cands, repeat=n))
        if len(combos) > max_inst:
            combos = combos[:max_inst]
        for combo in combos:
            insts.append(z3.substitute_vars(q.body(), *reversed(combo)))
    return qf + insts, goal2


_MULF = {}


def _uf(name, *sorts):
    k = (name, tuple(str(x) for x in sorts))
    if k not in _MULF:
        _MULF[k] = z3.Function(name, *sorts)
    return _MULF[k]


_SK_CACHE = {}


def _struct_key(a):
    k = a.get_id()
    r = _SK_CACHE.get(k)
    if r is None:
        head = a.decl().name() if z3.is_app(a) else "~"
        r = _SK_CACHE[k] = (head, a.num_args() if z3.is_app(a) else 0, a.sexpr())
        if len(_SK_CACHE) > 200000:
            _SK_CACHE.clear()
    return r


def _mulf_factors(a):
    """factors of an already abstracted product MULF(MULF(x, y), z) -> [x, y, z]"""
    out = []
    for c in a.children():
        if z3.is_app(c) and c.decl().kind() == z3.Z3_OP_UNINTERPRETED and c.decl().name().startswith("MULF_") and c.sort() == a.sort():
            out.extend(_mulf_factors(c))
        else:
            out.append(c)
    return out


def uf_abstract(t, cache=None):
    """replace nonlinear *, /, div, mod, ^ by uninterpreted functions (arguments in canonical order).
    Validity of the abstraction implies validity of the original formula."""
    if cache is None:
        cache = {}
    key = t.get_id()
    if key in cache:
        return cache[key]
    if z3.is_quantifier(t):
        body = uf_abstract(t.body(), cache)
        vars_ = [z3.Const(t.var_name(i), t.var_sort(i)) for i in range(t.num_vars())]
        # rebuild with the same bound variables (de Bruijn indices are preserved by substitute_vars on the body)
        r = z3.ForAll(vars_, z3.substitute_vars(body, *reversed(vars_))) if t.is_forall() else \
            z3.Exists(vars_, z3.substitute_vars(body, *reversed(vars_)))
        cache[key] = r
        return r
    if not z3.is_app(t) or t.num_args() == 0:
        cache[key] = t
        return t
    args = [uf_abstract(a, cache) for a in t.children()]
    k = t.decl().kind()
    isnum = lambda x: z3.is_int_value(x) or z3.is_rational_value(x)
    r = None
    if k == z3.Z3_OP_MUL:
        nums = [a for a in args if isnum(a)]
        # canonical argument order by structure (head symbol, then text), not by AST id: ids are not stable under the
        # substitution of a bound variable, so f(x) * g(x) inside a quantifier and f(c) * g(c) in the goal could be
        # ordered differently and the instance would no longer be congruent to the goal's product
        flat = []
        for a in args:
            if z3.is_app(a) and a.decl().kind() == z3.Z3_OP_UNINTERPRETED and a.decl().name().startswith("MULF_") and a.sort() == t.sort():
                flat.extend(_mulf_factors(a))
            else:
                flat.append(a)
        args = flat
        nums = [a for a in args if isnum(a)]
        rest = sorted([a for a in args if not isnum(a)], key=_struct_key)
        if len(rest) >= 2:
            srt = t.sort()
            acc = rest[0]
            for a in rest[1:]:
                acc = _uf("MULF_" + str(srt), srt, srt, srt)(acc, a)
            r = acc
            for c in nums:
                r = c * r
    elif k == z3.Z3_OP_DIV and not isnum(args[1]):
        r = _uf("DIVF", z3.RealSort(), z3.RealSort(), z3.RealSort())(args[0], args[1])
    elif k == z3.Z3_OP_IDIV and not isnum(args[1]):
        r = _uf("IDIVF", z3.IntSort(), z3.IntSort(), z3.IntSort())(args[0], args[1])
    elif k == z3.Z3_OP_MOD and not isnum(args[1]):
        r = _uf("MODF", z3.IntSort(), z3.IntSort(), z3.IntSort())(args[0], args[1])
    elif k == z3.Z3_OP_POWER:
        r = _uf("POWF", z3.RealSort(), z3.RealSort(), z3.RealSort())(
            z3.ToReal(args[0]) if args[0].sort() == z3.IntSort() else args[0],
            z3.ToReal(args[1]) if args[1].sort() == z3.IntSort() else args[1])
        if t.sort() == z3.IntSort():
            r = z3.ToInt(r)
    if r is None:
        r = t.decl()(*args)
    cache[key] = r
    return r


def prepare_staged(hyps, opt, goal, cands=()):
    """SMT-LIB texts for every stage, generated in the calling thread (the z3 API is not thread-safe)"""
    texts = {"all": to_smt2(hyps, goal)}
    if hyps:
        texts["pure"] = to_smt2([], skolemize_goal(goal)[0])      # valid without any hypothesis?
    if any(_has_quant(h) for h in list(hyps) + list(opt or [])) or _has_quant(goal):
        try:
            ih, ig = instantiate(list(hyps) + list(opt or []), goal)
            texts["inst"] = to_smt2(ih, ig)
            c2 = {}
            texts["inst+ufabs"] = to_smt2([uf_abstract(h, c2) for h in ih], uf_abstract(ig, c2))
        except z3.Z3Exception:
            pass
    try:
        cache = {}
        hh = [uf_abstract(h, cache) for h in list(hyps) + list(opt or [])]
        gg = uf_abstract(goal, cache)
        if any(not a.eq(b) for a, b in zip(hh + [gg], list(hyps) + list(opt or []) + [goal])):
            texts["ufabs"] = to_smt2(hh, gg)
    except z3.Z3Exception:
        pass
    try:
        from . import ring
        base_h, base_g = (ih, ig) if "inst" in texts else (list(hyps) + list(opt or []), skolemize_goal(goal)[0])
        nq = ring.normalize_query(base_h, base_g)
        if nq is not None:
            c3 = {}
            texts["ring"] = to_smt2(nq[0], nq[1])
            texts["ring+ufabs"] = to_smt2([uf_abstract(h, c3) for h in nq[0]], uf_abstract(nq[1], c3))
    except z3.Z3Exception:
        pass
    for ci, cand in enumerate(cands):
        # (substitution of input constants, extra hypotheses pinning uninterpreted inputs, labels for the replay)
        subst, extra, label = cand
        g2, _sk2 = skolemize_goal(goal)
        allh = list(hyps) + list(opt or []) + list(extra)
        weakened = False
        if any(_has_quant(h) for h in allh):
            # quantified hypotheses rarely admit a `sat` answer: search on their instances (candidate model only)
            try:
                allh, g2 = instantiate(allh, goal)
                weakened = True
            except z3.Z3Exception:
                pass
        if subst:
            allh = _subst(allh, subst)
            g2 = _subst([g2], subst)[0]
        lab = dict(label)
        lab.update(subst)
        texts[f"cand{ci}"] = (to_smt2(allh, g2), lab, weakened)
    if opt:
        texts["all+opt"] = to_smt2(list(hyps) + list(opt), goal)
    for level in (0, 1):
        for with_opt in (False, True):
            if with_opt and not opt:
                continue
            pool = list(hyps) + (list(opt) if with_opt else [])
            sub = cone(pool, goal, level)
            if len(sub) == len(pool):
                continue
            texts[f"cone{level}" + ("+opt" if with_opt else "")] = to_smt2(sub, goal)
    return texts


def discharge_staged(texts, timeout_s, hint=None):
    if hint and hint in texts:
        r0 = run_one(texts[hint], timeout_s, use_cvc5=False)
        if r0["verdict"] == "unsat":
            r0["stage"] = hint + "(hint)"
            return r0
    return _discharge_staged(texts, timeout_s)


def _discharge_staged(texts, timeout_s):
    """Dropping or instantiating hypotheses is sound for proving.  Two passes over the stages: a short budget first
    (most obligations are decided in well under a second by one of the stages), then the full budget.
    Only a model of *all* hypotheses counts as a refutation; a model of the instantiated query is a candidate."""
    total = 0.0
    full_key = "all+opt" if "all+opt" in texts else "all"
    prove_order = ["all", "all+opt", "pure", "inst", "inst+ufabs", "ufabs", "ring+ufabs", "ring", "cone0", "cone0+opt",
                   "cone1", "cone1+opt"]
    last_full = None
    candidate = None
    for budget, use_cvc5 in ((min(4, timeout_s), False), (timeout_s, True)):
        for k in prove_order:
            if k not in texts:
                continue
            r = run_one(texts[k], budget, use_cvc5=use_cvc5 and k in ("all", "all+opt"))
            total += r["time"]
            if r["verdict"] == "unsat":
                r["time"], r["stage"] = total, k
                return r
            if r["verdict"] == "sat":
                if k == full_key:
                    r["time"], r["stage"] = total, k
                    return r                      # genuine counter-model of the full query
                if k == "inst" and candidate is None:
                    candidate = r
            if k == full_key:
                last_full = r
        # bounded counterexample search: instantiate hard (nonlinear) inputs with concrete candidates; a model of
        # the instantiated query is a model of the original one
        for k in sorted(t for t in texts if t.startswith("cand")):
            txt, cand, weakened = texts[k]
            r3 = run_one(txt, budget, use_cvc5=False)
            total += r3["time"]
            if r3["verdict"] == "sat":
                r3["model"].update(cand)
                r3["time"], r3["stage"] = total, k
                if weakened:
                    r3["candidate_only"] = True
                return r3
        if candidate is not None:
            candidate["time"], candidate["stage"] = total, "inst"
            candidate["candidate_only"] = True
            return candidate
    r = last_full or {"verdict": "unknown", "backend": "z3", "model": {}, "raw": ""}
    r["time"], r["stage"] = total, full_key
    return r


class Staged:
    """lazily generated SMT-LIB texts of one obligation, stage by stage (always called from the main thread)"""

    def __init__(self, hyps, opt, goal, cands=()):
        self.hyps, self.opt, self.goal, self.cands = list(hyps), list(opt or []), goal, list(cands or ())
        self.cache = {}
        self._inst = None
        self.quant = None

    def has_quant(self):
        if self.quant is None:
            self.quant = any(_has_quant(h) for h in self.hyps + self.opt) or _has_quant(self.goal)
        return self.quant

    def inst(self):
        if self._inst is None:
            try:
                self._inst = instantiate(self.hyps + self.opt, self.goal)
            except z3.Z3Exception:
                self._inst = False
        return self._inst

    def text(self, stage):
        if stage not in self.cache:
            try:
                self.cache[stage] = self._gen(stage)
            except z3.Z3Exception:
                self.cache[stage] = None
        return self.cache[stage]

    def _gen(self, stage):
        hyps, opt, goal = self.hyps, self.opt, self.goal
        if stage == "all":
            return to_smt2(hyps, goal)
        if stage == "all+opt":
            return to_smt2(hyps + opt, goal) if opt else None
        if stage == "pure":
            return to_smt2([], skolemize_goal(goal)[0]) if hyps else None
        if stage in ("inst", "inst+ufabs"):
            if not self.has_quant() or not self.inst():
                return None
            ih, ig = self.inst()
            if stage == "inst":
                return to_smt2(ih, ig)
            c2 = {}
            return to_smt2([uf_abstract(h, c2) for h in ih], uf_abstract(ig, c2))
        if stage == "ufabs":
            cache = {}
            hh = [uf_abstract(h, cache) for h in hyps + opt]
            gg = uf_abstract(goal, cache)
            if all(a.eq(b) for a, b in zip(hh + [gg], hyps + opt + [goal])):
                return None
            return to_smt2(hh, gg)
        if stage in ("ring", "ring+ufabs"):
            from . import ring
            if self.has_quant() and self.inst():
                base_h, base_g = self.inst()
            else:
                base_h, base_g = hyps + opt, skolemize_goal(goal)[0]
            nq = ring.normalize_query(base_h, base_g)
            if nq is None:
                return None
            if stage == "ring":
                return to_smt2(nq[0], nq[1])
            c3 = {}
            return to_smt2([uf_abstract(h, c3) for h in nq[0]], uf_abstract(nq[1], c3))
        if stage.startswith("cone"):
            level = int(stage[4])
            with_opt = stage.endswith("+opt")
            if with_opt and not opt:
                return None
            pool = hyps + (opt if with_opt else [])
            sub = cone(pool, goal, level)
            if len(sub) == len(pool):
                return None
            return to_smt2(sub, goal)
        if stage.startswith("cand"):
            ci = int(stage[4:])
            if ci >= len(self.cands):
                return None
            subst, extra, label = self.cands[ci]
            g2, _sk2 = skolemize_goal(goal)
            allh = hyps + opt + list(extra)
            weakened = False
            if any(_has_quant(h) for h in allh):
                try:
                    allh, g2 = instantiate(allh, goal)
                    weakened = True
                except z3.Z3Exception:
                    pass
            if subst:
                allh = _subst(allh, subst)
                g2 = _subst([g2], subst)[0]
            lab = dict(label)
            lab.update(subst)
            return (to_smt2(allh, g2), lab, weakened)
        return None


PROVE_ORDER = ["all", "all+opt", "pure", "inst", "inst+ufabs", "ufabs", "ring+ufabs", "ring", "cone0", "cone0+opt",
               "cone1", "cone1+opt"]


# second pass (full budget): only the stages that profit from more time
# ("ufabs" is normally instant; it is repeated here so that a machine busy enough to starve the short round does not
# leave a congruence-only goal undecided)
PROVE_ORDER_FULL_BUDGET = ["ufabs", "all", "all+opt", "inst", "ring+ufabs", "cone0", "cone0+opt"]


_CAND_RANK = {"all": 0, "inst": 1, "cone1+opt": 2, "cone1": 3, "cone0+opt": 4, "cone0": 5}


def discharge_all(obligs, timeout_s=10, workers=16):
    """obligs: list of (hyps, opt, goal[, candidates[, hint]]).

    Stage-major ladder: for each stage, the texts of the still-open obligations are generated (main thread: the z3 API
    is not thread-safe) and solved in parallel (one solver process per query); solved obligations leave the ladder.
    First with a short budget, then with the full one.  Dropping / instantiating hypotheses is sound for proving;
    only a model of ALL hypotheses is a refutation, a model of a weakened query is a candidate (confirmed natively)."""
    n = len(obligs)
    st = [Staged(o[0], o[1], o[2], o[3] if len(o) > 3 else ()) for o in obligs]
    hints = [o[4] if len(o) > 4 else None for o in obligs]
    results = [None] * n
    total = [0.0] * n
    last_full = [None] * n
    candidate = [None] * n
    open_ = set(range(n))

    cap = 6 * timeout_s          # total solver time spent on one obligation before it is left undecided / to its candidates

    def run_stage(stage, idxs, budget, use_cvc5):
        jobs = []
        for i in idxs:
            if total[i] > cap and not stage.startswith("cand"):
                continue
            t = st[i].text(stage)
            if t is None:
                continue
            jobs.append((i, t))
        if not jobs:
            return
        with ThreadPoolExecutor(max_workers=workers) as ex:
            outs = list(ex.map(lambda job: run_one(job[1][0] if isinstance(job[1], tuple) else job[1], budget,
                                                   use_cvc5=use_cvc5 and stage in ("all", "all+opt")), jobs))
        for (i, t), r in zip(jobs, outs):
            total[i] += r["time"]
            full_key = "all+opt" if st[i].opt else "all"
            if stage.startswith("cand"):
                if r["verdict"] == "sat":
                    r["model"].update(t[1])
                    if t[2]:
                        r["candidate_only"] = True
                    r["stage"] = stage
                    results[i] = r
                    open_.discard(i)
                continue
            if r["verdict"] == "unsat":
                r["stage"] = stage
                results[i] = r
                open_.discard(i)
            elif r["verdict"] == "sat":
                if stage == full_key:
                    r["stage"] = stage
                    results[i] = r
                    open_.discard(i)
                elif stage in _CAND_RANK and (candidate[i] is None or _CAND_RANK[stage] < _CAND_RANK[candidate[i]["stage"]]):
                    # a model of a weakened query (optional axioms dropped / quantifiers instantiated / hypotheses
                    # outside the goal's cone dropped): only a candidate, decided by the native replay
                    r["stage"] = stage
                    candidate[i] = r
            if stage == full_key and i in open_:
                last_full[i] = r

    for budget, use_cvc5 in ((min(4, timeout_s), False), (timeout_s, True)):
        # hinted stages first
        by_hint = {}
        for i in sorted(open_):
            h = hints[i]
            if h:
                by_hint.setdefault(h.replace("(hint)", ""), []).append(i)
        for h, idxs in by_hint.items():
            run_stage(h, [i for i in idxs if i in open_], budget, False)
        for stage in (PROVE_ORDER if not use_cvc5 else PROVE_ORDER_FULL_BUDGET):
            if not open_:
                break
            run_stage(stage, sorted(open_), budget, use_cvc5)
        # bounded counterexample search over candidate instantiations
        maxc = max([len(x.cands) for x in st] + [0])
        for ci in range(maxc):
            if not open_:
                break
            run_stage(f"cand{ci}", sorted(open_), budget, False)
    # (only once no stage has proved the obligation with the full budget)
    for i in sorted(open_):
        if candidate[i] is not None:
            r = candidate[i]
            r["candidate_only"] = True
            results[i] = r
            open_.discard(i)
    for i in sorted(open_):
        r = last_full[i] or {"verdict": "unknown", "backend": "z3", "model": {}, "raw": ""}
        r["stage"] = "all+opt" if st[i].opt else "all"
        results[i] = r
    for i in range(n):
        results[i]["time"] = total[i]
    return results


def discharge(obligs, timeout_s=10, workers=16):
    """obligs: list of (name, hyps, goal). Returns list of result dicts aligned with input."""
    texts = [to_smt2(h, g) for (_, h, g) in obligs]
    with ThreadPoolExecutor(max_workers=workers) as ex:
        results = list(ex.map(lambda t: run_one(t, timeout_s), texts))
    return results


def quick_sat(conds, timeout_s=5):
    """is the conjunction satisfiable? -> 'sat' | 'unsat' | 'unknown' (subprocess)"""
    r = run_one(to_smt2(conds, z3.BoolVal(False)), timeout_s, use_cvc5=False)
    return r["verdict"], r["model"]
