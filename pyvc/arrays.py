"""Symbolic n-d arrays: (shape, element-at-index function).

An ``SArr`` has a tuple shape (entries int or Sym-int) and ``fn(idx_tuple)`` giving
the element (a concrete number or a Sym).  Point-wise operations compose the
closures; slicing / fftshift / reshape / stack remap indices.  Arrays are mutable
(``fn`` is replaced on in-place updates) and first-axis / integer-index views
write through to their base, which is what ``for ind, s in zip(inds, shape):
ind -= ...`` relies on.
"""
from __future__ import annotations

import itertools
from fractions import Fraction

from .values import (
    Sym, Unsupported, arith, compare, ite, is_sym, is_num, sand, sor, snot, trunc, floor_, ceil_,
    round_half_even, to_real, sabs, smin, smax, kind_of, S, exact,
)

__all__ = ["SArr", "MaskedSel", "mask_selection", "compress_rows", "asarr", "is_arr", "broadcast_shapes", "norm_index", "norm_slice",
           "pointwise", "from_nested", "full", "SliceV"]


def _is_concrete_int(x):
    return isinstance(x, int) and not isinstance(x, bool)


_STAMP = [0]


class SArr:
    def __init__(self, shape, fn, dtype="real", base=None, inv=None, fwd=None):
        _STAMP[0] += 1
        self.stamp = _STAMP[0] if base is None else base.stamp
        self.shape = tuple(shape)
        self._fn = fn
        self.dtype = dtype          # 'int' | 'real' | 'bool' | 'complex'
        self.base = base            # view support
        self.inv = inv              # base idx -> (cond, view idx)
        self.fwd = fwd              # view idx -> base idx

    # element access -----------------------------------------------------
    def at(self, idx):
        idx = tuple(idx)
        if len(idx) != len(self.shape):
            raise Unsupported(f"index rank {len(idx)} for array rank {len(self.shape)}")
        if self.base is not None:
            return self.base.at(self.fwd(idx))
        return self._fn(idx)

    @property
    def ndim(self):
        return len(self.shape)

    @property
    def size(self):
        r = 1
        for s in self.shape:
            r = arith("*", r, s)
        return r

    def __len__(self):
        n = self.shape[0]
        if not _is_concrete_int(n):
            raise Unsupported("len() of array with symbolic first axis")
        return n

    def copy(self):
        snap = self.snapshot()
        return SArr(self.shape, snap, self.dtype)

    def snapshot(self):
        """element function frozen at the current state"""
        if self.base is not None:
            bsnap = self.base.snapshot()
            fwd = self.fwd
            return lambda idx: bsnap(fwd(idx))
        return self._fn

    # mutation -----------------------------------------------------------
    def assign_fn(self, newfn):
        """replace every element: self[idx] = newfn(idx)"""
        tgt = self
        while tgt is not None:
            if getattr(tgt, "frozen", False):
                from . import values as _V
                p = _V.PATH[0]
                if p is not None and getattr(p, "interp", None) is not None:
                    # reported by the path's `frame.cached_results_read_only` obligation
                    p.interp.cached_mutated = True
                break
            tgt = tgt.base
        if self.base is not None:
            base, inv = self.base, self.inv
            old = base.snapshot()

            def bfn(b):
                cond, vidx = inv(b)
                if cond is True:
                    return newfn(vidx)
                if cond is False:
                    return old(b)
                return ite(cond, newfn(vidx), old(b))
            base.assign_fn(bfn)
        else:
            self._fn = newfn

    def concrete_shape(self):
        if not all(_is_concrete_int(s) for s in self.shape):
            raise Unsupported("array with symbolic shape where a concrete one is required")
        return self.shape

    def __iter__(self):
        n = len(self)
        for k in range(n):
            yield self.view_axis0(k)

    def view_axis0(self, k):
        rest = self.shape[1:]
        if not rest:
            return self.at((k,))
        me = self

        def inv(b, k=k):
            return compare("==", b[0], k), tuple(b[1:])
        return SArr(rest, None, self.dtype, base=me, inv=inv, fwd=lambda idx, k=k: (k,) + tuple(idx))

    def to_list(self):
        shp = self.concrete_shape()
        if len(shp) == 1:
            return [self.at((i,)) for i in range(shp[0])]
        return [self.view_axis0(i).to_list() for i in range(shp[0])]

    def to_numpy(self):
        import numpy as np
        shp = self.concrete_shape()
        out = np.empty(shp, dtype=object)
        for idx in itertools.product(*[range(s) for s in shp]):
            v = self.at(idx)
            if is_sym(v):
                raise Unsupported("to_numpy of symbolic element")
            out[idx] = v
        if self.dtype == "bool":
            return out.astype(bool)
        if self.dtype == "int":
            return out.astype(np.int64)
        if self.dtype == "complex":
            return out.astype(complex)
        return out.astype(float)

    def __repr__(self):
        return f"SArr(shape={self.shape}, dtype={self.dtype})"

    # numpy-like operators (used by stubs / contract helpers) ---------------
    def __add__(self, o): return pointwise("+", self, o)
    def __radd__(self, o): return pointwise("+", o, self)
    def __sub__(self, o): return pointwise("-", self, o)
    def __rsub__(self, o): return pointwise("-", o, self)
    def __mul__(self, o): return pointwise("*", self, o)
    def __rmul__(self, o): return pointwise("*", o, self)
    def __truediv__(self, o): return pointwise("/", self, o)
    def __rtruediv__(self, o): return pointwise("/", o, self)
    def __floordiv__(self, o): return pointwise("//", self, o)
    def __rfloordiv__(self, o): return pointwise("//", o, self)
    def __mod__(self, o): return pointwise("%", self, o)
    def __pow__(self, o): return pointwise("**", self, o)
    def __neg__(self): return pointwise("-", 0, self)
    def __lt__(self, o): return pointwise("<", self, o)
    def __le__(self, o): return pointwise("<=", self, o)
    def __gt__(self, o): return pointwise(">", self, o)
    def __ge__(self, o): return pointwise(">=", self, o)
    def __eq__(self, o): return pointwise("==", self, o)
    def __ne__(self, o): return pointwise("!=", self, o)
    def __and__(self, o): return pointwise("&", self, o)
    def __or__(self, o): return pointwise("|", self, o)
    def __invert__(self): return SArr(self.shape, (lambda f: lambda idx: snot(f(idx)))(self.snapshot()), "bool")
    __hash__ = None

    def __getitem__(self, key):
        return getitem(self, key)


class SliceV:
    """A slice value whose fields may be symbolic (Python's slice is fine for that too)."""


class MaskedSel:
    """``a[mask]`` for a boolean mask of a's shape: kept symbolic as (array, mask)."""

    def __init__(self, arr, mask):
        self.arr, self.mask = arr, mask

    def map(self, f):
        return MaskedSel(f(self.arr), self.mask)


def is_arr(x):
    return isinstance(x, SArr)


def full(shape, value, dtype=None):
    if dtype is None:
        dtype = kind_of(value) if is_num(value) else "real"
    return SArr(tuple(shape), lambda idx, v=value: v, dtype)


def from_nested(obj, dtype=None):
    """list / tuple nesting (possibly containing SArr) -> SArr"""
    if isinstance(obj, SArr):
        return obj
    if isinstance(obj, MaskedSel) and obj.mask.ndim == 1 and obj.arr.ndim >= 1:
        return materialize(obj)
    if is_num(obj):
        k = kind_of(obj)
        return SArr((), lambda idx, v=obj: v, dtype or k)
    try:
        import numpy as np
        if isinstance(obj, np.ndarray):
            arr = obj
            k = "bool" if arr.dtype == bool else ("int" if np.issubdtype(arr.dtype, np.integer) else "real")
            return SArr(arr.shape, lambda idx, a=arr: a[tuple(int(i) for i in idx)].item(), dtype or k)
    except ImportError:  # pragma: no cover
        pass
    if type(obj).__name__ == "SList":
        f = obj.fn
        probe = f(0) if isinstance(obj.n, int) and obj.n > 0 else None
        return SArr((obj.n,), lambda idx: f(idx[0]), dtype or "real")
    if isinstance(obj, (list, tuple)):
        items = [from_nested(o) for o in obj]
        n = len(items)
        if n == 0:
            return SArr((0,), lambda idx: 0, dtype or "real")
        rest = items[0].shape
        for it in items:
            if len(it.shape) != len(rest):
                raise Unsupported("ragged nested sequence")
        kinds = {it.dtype for it in items}
        k = dtype or ("complex" if "complex" in kinds else "real" if "real" in kinds else "int" if "int" in kinds else "bool")

        def fn(idx, items=items, n=n):
            i = idx[0]
            if _is_concrete_int(i):
                return items[i].at(idx[1:])
            # symbolic selector: if-chain
            r = items[n - 1].at(idx[1:])
            for j in range(n - 2, -1, -1):
                r = ite(compare("==", i, j), items[j].at(idx[1:]), r)
            return r
        return SArr((n,) + tuple(rest), fn, k)
    raise Unsupported(f"cannot make an array from {type(obj).__name__}")


def asarr(x, dtype=None):
    a = from_nested(x)
    if dtype is not None and dtype != a.dtype:
        return astype(a, dtype)
    return a


def astype(a, dtype):
    f = a.snapshot()
    if dtype == "int":
        if a.dtype == "int":
            return SArr(a.shape, f, "int")
        return SArr(a.shape, lambda idx: trunc(f(idx)), "int")
    if dtype == "real":
        if a.dtype == "bool":
            return SArr(a.shape, lambda idx: ite(f(idx), 1, 0), "real")
        return SArr(a.shape, lambda idx: to_real(f(idx)) if is_sym(f(idx)) else f(idx), "real")
    if dtype == "bool":
        return SArr(a.shape, lambda idx: compare("!=", f(idx), 0) if a.dtype != "bool" else f(idx), "bool")
    return SArr(a.shape, f, dtype)


def _same_dim(a, b):
    if _is_concrete_int(a) and _is_concrete_int(b):
        return a == b
    if is_sym(a) and is_sym(b):
        return a.t.eq(b.t)
    return False


def broadcast_shapes(sa, sb):
    n = max(len(sa), len(sb))
    sa = (1,) * (n - len(sa)) + tuple(sa)
    sb = (1,) * (n - len(sb)) + tuple(sb)
    out = []
    for a, b in zip(sa, sb):
        if _is_concrete_int(a) and a == 1:
            out.append(b)
        elif _is_concrete_int(b) and b == 1:
            out.append(a)
        elif _is_concrete_int(a) and _is_concrete_int(b):
            if a != b:
                raise Unsupported(f"operands could not be broadcast together: {sa} {sb}")
            out.append(a)
        else:
            # symbolic sizes: numpy raises unless equal (or one is 1) -> safety obligation in code mode
            if not _same_dim(a, b):
                from . import values as _V
                p = _V.PATH[0]
                if p is not None and _V.SAFETY[0]:
                    p.oblige("safety.broadcast", sor(compare("==", a, b), compare("==", a, 1), compare("==", b, 1)),
                             {"kind": "safety"})
                if p is not None:
                    # past this point the sizes agree (otherwise numpy raised)
                    out.append(ite(compare("==", a, 1), b, a))
                    continue
            out.append(a)
    return tuple(out), sa, sb


def _bidx(idx, shp, n):
    """index into an operand of padded shape shp from a broadcast index"""
    off = n - len(shp)
    return tuple(0 if (_is_concrete_int(s) and s == 1) else i for i, s in zip(idx[off:], shp))


_RESULT_KIND = {"<": "bool", "<=": "bool", ">": "bool", ">=": "bool", "==": "bool", "!=": "bool",
                "&": "bool", "|": "bool"}


def scalar_op(op, x, y):
    if op in ("<", "<=", ">", ">=", "==", "!="):
        return compare(op, x, y)
    if op == "&":
        return sand(x, y)
    if op == "|":
        return sor(x, y)
    if op == "max":
        return smax(x, y)
    if op == "min":
        return smin(x, y)
    return arith(op, x, y)


def pointwise(op, a, b):
    if isinstance(a, MaskedSel) or isinstance(b, MaskedSel):
        ma = a if isinstance(a, MaskedSel) else b
        aa = a.arr if isinstance(a, MaskedSel) else a
        bb = b.arr if isinstance(b, MaskedSel) else b
        return MaskedSel(pointwise(op, aa, bb), ma.mask)
    A, B = from_nested(a), from_nested(b)
    shp, sa, sb = broadcast_shapes(A.shape, B.shape)
    fa, fb = A.snapshot(), B.snapshot()
    la, lb = len(A.shape), len(B.shape)
    n = len(shp)
    sa_t, sb_t = sa[n - la:], sb[n - lb:]

    def fn(idx):
        x = fa(_bidx(idx, sa_t, n))
        y = fb(_bidx(idx, sb_t, n))
        return scalar_op(op, x, y)
    if op in _RESULT_KIND:
        k = "bool"
    elif op == "/":
        k = "complex" if "complex" in (A.dtype, B.dtype) else "real"
    else:
        k = ("complex" if "complex" in (A.dtype, B.dtype) else
             "real" if "real" in (A.dtype, B.dtype) else "int")
    return SArr(shp, fn, k)


def map1(f, a, dtype=None):
    if isinstance(a, MaskedSel):
        return a.map(lambda x: map1(f, x, dtype))
    A = from_nested(a)
    g = A.snapshot()
    return SArr(A.shape, lambda idx: f(g(idx)), dtype or A.dtype)


# ---------------------------------------------------------------------------
# indexing


def norm_index(i, n, force=False):
    """Python index normalisation for one integer index (force: also while a contract clause is being evaluated --
    for index maps that program code created and a clause merely looks through)."""
    if _is_concrete_int(i):
        if i < 0:
            return arith("+", i, n)
        return i
    if is_sym(i):
        from . import values as _V
        if not _V.SAFETY[0] and not force:
            # contract clauses index with in-range, non-negative indices only (stated convention)
            return i
        return ite(compare("<", i, 0), arith("+", i, n), i)
    try:
        import numpy as np
        if isinstance(i, np.integer):
            return norm_index(int(i), n)
    except ImportError:  # pragma: no cover
        pass
    raise Unsupported(f"index {i!r}")


def _clamp(v, lo, hi):
    return smax(lo, smin(v, hi))


def norm_slice(sl, n):
    """-> (start, length, step) with Python semantics; step in {1, -1} or a positive int"""
    step = 1 if sl.step is None else sl.step
    if not _is_concrete_int(step):
        raise Unsupported("symbolic slice step")
    if step > 0:
        start = 0 if sl.start is None else sl.start
        stop = n if sl.stop is None else sl.stop
        start = _clamp(norm_index(start, n), 0, n) if sl.start is not None else 0
        stop = _clamp(norm_index(stop, n), 0, n) if sl.stop is not None else n
        diff = arith("-", stop, start)
        if step == 1:
            length = smax(diff, 0)
        else:
            length = smax(arith("//", arith("+", diff, step - 1), step), 0)
        return start, length, step
    if step == -1:
        # a[::-1] and friends
        if sl.start is None:
            start = arith("-", n, 1)
        else:
            start = _clamp(norm_index(sl.start, n), -1, arith("-", n, 1))
        if sl.stop is None:
            stop = -1
        else:
            stop = _clamp(norm_index(sl.stop, n), -1, arith("-", n, 1))
        length = smax(arith("-", start, stop), 0)
        return start, length, -1
    raise Unsupported(f"slice step {step}")


def _is_full_slice(k):
    return isinstance(k, slice) and k.start is None and k.stop is None and k.step is None


def mask_selection(mask):
    """rows selected by a 1-d boolean mask of length n, as numpy / polars select them: a count c and an index map
    sel: [0, c) -> [0, n) that is strictly increasing, hits only rows where the mask holds and hits all of them
    (Skolem inverse `inv`).  Memoised on the mask object: every container indexed with the same mask gets the same
    map."""
    import z3
    from . import values as _V
    got = getattr(mask, "_selection", None)
    if got is not None:
        return got
    n = mask.shape[0]
    name = _V.fresh_name("msel")
    la = _V.loop_args()          # inside a summarised loop the selection is a Skolem function of the iteration
    ls = [z3.IntSort()] * len(la)
    cnt = Sym(z3.Function(name + "_count", *ls, z3.IntSort())(*la)) if la else Sym(z3.Int(name + "_count"))
    sf = z3.Function(name + "_row", *ls, z3.IntSort(), z3.IntSort())
    vf = z3.Function(name + "_inv", *ls, z3.IntSort(), z3.IntSort())
    self_f = lambda x: sf(*la, x)
    inv_f = lambda x: vf(*la, x)
    j, i = z3.Int(name + "!j"), z3.Int(name + "!i")
    mf = mask.snapshot()

    def mterm(ix):
        v = mf((Sym(ix),))
        return _V._bool_term(v) if is_sym(v) else z3.BoolVal(bool(v))
    p = _V.PATH[0]
    if p is not None:
        nn = _V.lift(n)
        p.assume(Sym(z3.And(cnt.t >= 0, cnt.t <= nn)))
        p.assume(Sym(z3.ForAll([j], z3.Implies(z3.And(j >= 0, j < cnt.t),
                                               z3.And(self_f(j) >= 0, self_f(j) < nn, mterm(self_f(j)))))))
        p.assume(Sym(z3.ForAll([j], z3.Implies(z3.And(j >= 0, j + 1 < cnt.t), self_f(j) < self_f(j + 1)))))
        p.assume(Sym(z3.ForAll([i], z3.Implies(z3.And(i >= 0, i < nn, mterm(i)),
                                               z3.And(inv_f(i) >= 0, inv_f(i) < cnt.t, self_f(inv_f(i)) == i)))))
    sel = (cnt, lambda jj: Sym(self_f(_V.lift(jj))), lambda ii: Sym(inv_f(_V.lift(ii))))
    try:
        mask._selection = sel
    except Exception:
        pass
    return sel


def materialize(ms):
    """the array a row-mask selection stands for (one array object per selection, so that later in-place updates of
    it are seen by later reads)"""
    got = getattr(ms, "_mat", None)
    if got is None:
        got = compress_rows(from_nested(ms.arr) if not isinstance(ms.arr, SArr) else ms.arr, ms.mask)
        ms._mat = got
    return got


def compress_rows(a, mask):
    """a[mask] for a 1-d boolean mask over the first axis of a (numpy semantics)"""
    cnt, sel, _ = mask_selection(mask)
    af = a.snapshot()
    return SArr((cnt,) + tuple(a.shape[1:]), lambda idx: af((sel(idx[0]),) + tuple(idx[1:])), a.dtype)


def getitem(a: SArr, key):
    if isinstance(key, SArr) and key.dtype == "bool":
        # same-shape mask, or a 1-d mask selecting rows (axis 0): kept symbolic; used as an array it is materialised
        # by from_nested (compress_rows)
        return MaskedSel(a, key)
    if isinstance(key, SArr) and key.ndim == 1 and a.ndim >= 1:
        # integer fancy index on the first axis
        kf = key.snapshot()
        af = a.snapshot()
        n0 = a.shape[0]
        from . import values as _V
        by_code = bool(_V.SAFETY[0])
        return SArr(key.shape + a.shape[1:],
                    lambda idx: af((norm_index(kf((idx[0],)), n0, force=by_code),) + tuple(idx[1:])), a.dtype)
    if not isinstance(key, tuple):
        key = (key,)
    # expand Ellipsis
    n_real = sum(1 for k in key if k is not None and k is not Ellipsis)
    if any(k is Ellipsis for k in key):
        i = next(j for j, k in enumerate(key) if k is Ellipsis)
        key = key[:i] + (slice(None),) * (a.ndim - n_real) + key[i + 1:]
    else:
        key = key + (slice(None),) * (a.ndim - n_real)
    if all(_is_full_slice(k) for k in key) and len(key) == a.ndim:
        # full view
        return SArr(a.shape, None, a.dtype, base=a, inv=lambda b: (True, tuple(b)), fwd=lambda idx: tuple(idx))
    out_shape = []
    plan = []   # per source axis: ('int', i) | ('slice', start, step, out_axis)
    ax = 0
    oax = 0
    for k in key:
        if k is None:
            out_shape.append(1)
            oax += 1
            continue
        n = a.shape[ax]
        if isinstance(k, slice):
            start, length, step = norm_slice(k, n)
            out_shape.append(length)
            plan.append(("slice", start, step, oax))
            oax += 1
        elif isinstance(k, SArr) and k.ndim == 0:
            plan.append(("int", norm_index(k.at(()), n)))
        elif isinstance(k, SArr):
            raise Unsupported("mixed fancy indexing")
        else:
            plan.append(("int", norm_index(k, n)))
        ax += 1

    def fwd(idx):
        src = []
        for p in plan:
            if p[0] == "int":
                src.append(p[1])
            else:
                _, start, step, o = p
                i = idx[o]
                src.append(arith("+", start, i if step == 1 else arith("*", i, step)))
        return tuple(src)

    if not out_shape:
        return a.at(fwd(()))

    def inv(b):
        conds = []
        vidx = [0] * len(out_shape)
        for p, bi in zip(plan, b):
            if p[0] == "int":
                conds.append(compare("==", bi, p[1]))
            else:
                _, start, step, o = p
                d = arith("-", bi, start)
                if step == 1:
                    v = d
                elif step == -1:
                    v = arith("-", 0, d)
                else:
                    conds.append(compare("==", arith("%", d, step), 0))
                    v = arith("//", d, step)
                conds.append(sand(compare(">=", v, 0), compare("<", v, out_shape[o])))
                vidx[o] = v
        return sand(*conds) if conds else True, tuple(vidx)
    return SArr(tuple(out_shape), None, a.dtype, base=a, inv=inv, fwd=fwd)


def _fancy_key(key):
    """1-d integer index list (python list of ints / symbolic-length list / int array) -> (length, getter) or None"""
    if type(key).__name__ == "SList":
        return key.n, key.fn
    if isinstance(key, SArr) and key.dtype == "int" and key.ndim == 1:
        f = key.snapshot()
        return key.shape[0], (lambda t: f((t,)))
    if isinstance(key, list) and key and all(isinstance(k, int) or is_sym(k) for k in key):
        return len(key), (lambda t: key[t] if isinstance(t, int) else None)
    return None


def setitem(a: SArr, key, value):
    fk = _fancy_key(key)
    if fk is not None and a.ndim == 1 and is_num(value):
        # a[index_list] = scalar : element i is overwritten iff some entry of the list equals i
        import z3 as _z3
        from . import values as _V
        m, get = fk
        old = a.snapshot()
        if isinstance(m, int):
            def fn(idx):
                hit = sor(*[compare("==", get(t), idx[0]) for t in range(m)]) if m else False
                return ite(hit, value, old(idx)) if hit is not False else old(idx)
        else:
            def fn(idx):
                t = _z3.Int(_V.fresh_name("hit"))
                body = compare("==", get(Sym(t)), idx[0])
                hit = Sym(_z3.Exists([t], _z3.And(t >= 0, t < _V.lift(m), _V._bool_term(body))))
                return ite(hit, value, old(idx))
        a.assign_fn(fn)
        return
    if isinstance(key, SArr) and key.dtype == "bool":
        mf = key.snapshot()
        old = a.snapshot()
        if isinstance(value, MaskedSel):
            vf = from_nested(value.arr).snapshot()
            a.assign_fn(lambda idx: ite(mf(idx), vf(idx), old(idx)))
            return
        if is_num(value):
            a.assign_fn(lambda idx: ite(mf(idx), value, old(idx)))
            return
        raise Unsupported("boolean-mask assignment of a non-scalar, non-masked value")
    view = getitem(a, key)
    if not isinstance(view, SArr):
        # scalar element assignment
        if not isinstance(key, tuple):
            key = (key,)
        tgt = tuple(norm_index(k, n) for k, n in zip(key, a.shape))
        old = a.snapshot()

        def fn(idx):
            c = sand(*[compare("==", i, t) for i, t in zip(idx, tgt)])
            return ite(c, value, old(idx)) if is_num(value) else _unsup()
        a.assign_fn(fn)
        return
    V = from_nested(value)
    shp, sa, sb = broadcast_shapes(view.shape, V.shape)
    vf = V.snapshot()
    n = len(shp)
    sb_t = sb[n - len(V.shape):]
    view.assign_fn(lambda idx: vf(_bidx(idx, sb_t, n)))


def _unsup():
    raise Unsupported("array element assignment of non-scalar")
