"""Trusted library contracts ("stubs") for builtins, math, numpy, scipy.fft, scipy.ndimage.

Every entry is executable on concrete values (so it can be conformance-tested
against the real library, see conform.py) and on symbolic ones.
"""
from __future__ import annotations

import itertools
import math
from fractions import Fraction
from functools import reduce as _reduce

import z3

from . import values as V
from .values import Sym, Unsupported, is_sym, is_num
from . import arrays as A
from .arrays import SArr, MaskedSel
from . import symex as X

REG = {}


def reg(name):
    def deco(f):
        REG[name] = f
        return f
    return deco


def wants_interp(f):
    f._wants_interp = True
    return f


# ---------------------------------------------------------------------------
# uninterpreted real functions with the axioms we need

_UF = {}


def uf(name, *sorts):
    key = (name, tuple(str(s) for s in sorts))
    if key not in _UF:
        _UF[key] = z3.Function(name, *sorts)
    return _UF[key]


R = z3.RealSort()
I = z3.IntSort()
AXIOMS = []        # global axioms about uninterpreted functions, added to every obligation that mentions them


def _sqrt(x):
    if not is_sym(x):
        x = V.exact(x)
        if x < 0:
            raise Unsupported("sqrt of negative constant")
        r = Fraction(math.isqrt(x.numerator), 1) / Fraction(math.isqrt(x.denominator), 1) if not isinstance(x, int) \
            else Fraction(math.isqrt(x), 1)
        if r * r == x:
            return r
        if V.PATH[0] is None:
            return math.sqrt(x)
        x = Sym(V.lift(Fraction(x)))      # irrational: keep it symbolic (sqrt(3) is not 1.7320508075688772)
    f = uf("u_sqrt", R, R)
    t = V.to_real(x).t
    res = Sym(f(t))
    p = V.PATH[0]
    if p is not None:
        # sqrt(x)^2 = x and sqrt(x) >= 0 for x >= 0 (instance axioms at the use site)
        # optional hypothesis group: most obligations only need sqrt(..) as an opaque real
        p.assume_optional("sqrt", V.implies(V.compare(">=", x, 0), V.sand(V.compare("==", res * res, V.to_real(x)), res >= 0)))
    return res


def _trig(name):
    def f(x):
        if not is_sym(x):
            return getattr(math, name)(float(x))
        g = uf("u_" + name, R, R)
        t = V.to_real(x).t
        res = Sym(g(t))
        p = V.PATH[0]
        if p is not None:
            s, c = Sym(uf("u_sin", R, R)(t)), Sym(uf("u_cos", R, R)(t))
            p.assume_optional("trig", V.compare("==", s * s + c * c, 1))
        return res
    return f


_sin, _cos = _trig("sin"), _trig("cos")


def _exp(x):
    if not is_sym(x):
        if isinstance(x, complex):
            import cmath
            return cmath.exp(x)
        return math.exp(float(x))
    g = uf("u_exp", R, R)
    res = Sym(g(V.to_real(x).t))
    p = V.PATH[0]
    if p is not None:
        p.assume(res > 0)
        # exp is <= 1 on non-positive arguments and exp(0) == 1 (instances at the use site)
        p.assume(V.implies(V.compare("<=", x, 0), V.compare("<=", res, 1)))
        p.assume(V.implies(V.compare("==", x, 0), V.compare("==", res, 1)))
    return res


# ---------------------------------------------------------------------------
# builtins

B = {}
REG["__builtins__"] = B


def bi(name):
    def deco(f):
        B[name] = f
        return f
    return deco


@bi("len")
@wants_interp
def _len(interp, x):
    if isinstance(x, (list, tuple, dict, str, set, range)):
        return len(x)
    if isinstance(x, SArr):
        return x.shape[0]
    if getattr(x, "_pyvc_native", False) and hasattr(x, "__len__"):
        try:
            return type(x).__len__(x)
        except TypeError as e:
            raise X.PyRaise(interp.make_exc("TypeError", str(e)))
    if isinstance(x, X.Obj) and isinstance(x.cls, X.RepoClass):
        m = x.cls.lookup(interp, "__len__")
        if m is not None:
            return interp.call_repo(m, [x], {})
    h = REG.get("__len__")
    if h is not None:
        r = h(interp, x)
        if r is not NotImplemented:
            return r
    raise Unsupported(f"len of {type(x).__name__}")


@bi("int")
def _int(x=0):
    if isinstance(x, SArr) and x.ndim == 0:
        x = x.at(())
    if isinstance(x, str):
        return int(x)
    return V.trunc(x)


@bi("float")
def _float(x=0):
    if hasattr(x, "_as_float"):
        return x._as_float()
    if isinstance(x, SArr):
        if x.ndim == 0:
            x = x.at(())
        else:
            raise X.PyRaise(X.Obj(X.BUILTIN_EXC["TypeError"], {"args": ("only length-1 arrays can be converted",)}))
    if isinstance(x, str):
        return V.exact(float(x))
    if is_sym(x):
        return V.to_real(x)
    if isinstance(x, bool):
        return Fraction(int(x), 1)
    if isinstance(x, int):
        return Fraction(x, 1)
    if isinstance(x, (tuple, list, dict, set)) or x is None:
        raise X.PyRaise(X.Obj(X.BUILTIN_EXC["TypeError"], {"args": ("float() argument must be a string or a real number",)}))
    return x


@bi("bool")
@wants_interp
def _bool(interp, x=False):
    if is_sym(x):
        return x if x.kind == "bool" else V.compare("!=", x, 0)
    return interp.truth(x)


@bi("round")
def _round(x, n=None):
    if n is None:
        return V.round_half_even(x)
    if is_sym(x):
        # round(x, n): kept as x (the rounding to n decimals is a presentation detail; stated assumption)
        return x
    return round(x, n)


@bi("abs")
def _abs(x):
    if isinstance(x, SArr):
        return A.map1(V.sabs, x)
    return V.sabs(x)


class ChunkSizesV:
    """the chunk lengths of one axis of a dask array (an arbitrary partition of the axis): only min() / max() / sum()
    are modelled -- values between 1 and the axis length, unconstrained otherwise (they depend on the chunking)"""
    _pyvc_native = True

    def __init__(self, n):
        self.n = n

    def extreme(self, which, interp):
        v = V.fresh("chunk_" + which, "int")
        interp.path.assume(V.sand(V.compare(">=", v, 1), V.compare("<=", v, self.n)))
        return v

    def __iter__(self):
        raise Unsupported("iteration over the chunk sizes of a dask array")


def _minmax(which):
    f2 = V.smin if which == "min" else V.smax

    @wants_interp
    def f(interp, *args, **kw):
        if len(args) == 1 and isinstance(args[0], ChunkSizesV):
            return args[0].extreme(which, interp)
        if len(args) == 1:
            items = list(interp.iterate(args[0]))
        else:
            items = list(args)
        if not items:
            if "default" in kw:
                return kw["default"]
            raise X.PyRaise(interp.make_exc("ValueError", f"{which}() arg is an empty sequence"))
        r = items[0]
        for x in items[1:]:
            r = f2(r, x)
        return r
    return f


B["min"] = _minmax("min")
B["max"] = _minmax("max")


@bi("sum")
@wants_interp
def _sum(interp, it, start=0):
    r = start
    for x in interp.iterate(it):
        r = interp.binop("+", r, x)
    return r


def _loops():
    from . import loops
    return loops


@bi("range")
def _range(*a):
    a = [X._unfrac(x) for x in a]
    if any(is_sym(x) for x in a):
        if len(a) == 1:
            start, stop, step = 0, a[0], 1
        elif len(a) == 2:
            start, stop, step = a[0], a[1], 1
        else:
            start, stop, step = a
        if not (isinstance(step, int) and step == 1):
            raise Unsupported("symbolic range with a step")
        n = V.smax(V.arith("-", stop, start), 0)
        return _loops().SList(n, lambda i: V.arith("+", start, i))
    return range(*a)


@bi("zip")
@wants_interp
def _zip(interp, *its, strict=False):
    L = _loops()
    sis = [L.siter(i) for i in its]
    if any(s_ is not None for s_ in sis):
        gets, ns = [], []
        for it, s_ in zip(its, sis):
            if s_ is not None:
                ns.append(s_[0])
                gets.append(s_[1])
            else:
                seq = list(interp.iterate(it))
                ns.append(len(seq))
                gets.append((lambda seq: lambda i: L._seq_get(seq, i))(seq))
        if any(not is_sym(m) and m == 0 for m in ns):
            return []
        n = ns[0]
        for m in ns[1:]:
            same = (is_sym(n) and is_sym(m) and n.t.eq(m.t)) or (not is_sym(n) and not is_sym(m) and n == m)
            if not same:
                n = V.smin(n, m)
        return L.SList(n, lambda i: tuple(g(i) for g in gets))
    ls = [list(interp.iterate(i)) for i in its]
    return list(zip(*ls))


@bi("enumerate")
@wants_interp
def _enumerate(interp, it, start=0):
    L = _loops()
    s_ = L.siter(it)
    if s_ is not None:
        n, get = s_
        return L.SList(n, lambda i: (V.arith("+", i, start), get(i)))
    return list(enumerate(list(interp.iterate(it)), start))


@bi("reversed")
@wants_interp
def _reversed(interp, it):
    return list(reversed(list(interp.iterate(it))))


@bi("sorted")
@wants_interp
def _sorted(interp, it, key=None, reverse=False):
    items = list(interp.iterate(it))
    if any(is_sym(x) for x in items):
        raise Unsupported("sorted() of symbolic values")
    if key is not None:
        return sorted(items, key=lambda x: interp.call(key, [x], {}), reverse=reverse)
    return sorted(items, reverse=reverse)


@bi("list")
@wants_interp
def _list(interp, it=()):
    s_ = _loops().siter(it)
    if s_ is not None:
        if getattr(it, "aliased", False):
            # materialising a generator that yields one object it keeps updating: n references to its final state
            n_, get_ = s_
            return _loops().SList(n_, lambda i: get_(V.arith("-", n_, 1)))
        return _loops().SList(s_[0], s_[1])
    return list(interp.iterate(it))


@bi("tuple")
@wants_interp
def _tuple(interp, it=()):
    s_ = _loops().siter(it)
    if s_ is not None:
        if getattr(it, "aliased", False):
            n_, get_ = s_
            return _loops().SList(n_, lambda i: get_(V.arith("-", n_, 1)))
        return _loops().SList(s_[0], s_[1])
    return tuple(interp.iterate(it))


@bi("set")
@wants_interp
def _set(interp, it=()):
    if isinstance(it, _frames_mod().ValueSet):
        return it
    return set(interp.iterate(it))


def _frames_mod():
    from . import frames
    return frames


def _contains_hook(interp, container, item):
    if isinstance(container, _frames_mod().ValueSet):
        return container.contains(item)
    return NotImplemented


REG["__contains__"] = _contains_hook


@bi("dict")
@wants_interp
def _dict(interp, *a, **kw):
    d = {}
    if a:
        src = a[0]
        if isinstance(src, dict):
            d.update(src)
        else:
            for k, v in interp.iterate(src):
                d[k] = v
    d.update(kw)
    return d


@bi("all")
@wants_interp
def _all(interp, it):
    vals = list(interp.iterate(it))
    if interp.spec:
        return V.sand(*vals) if vals else True
    for v in vals:
        if not interp.truth(v):
            return False
    return True


@bi("any")
@wants_interp
def _any(interp, it):
    vals = list(interp.iterate(it))
    if interp.spec:
        return V.sor(*vals) if vals else False
    for v in vals:
        if interp.truth(v):
            return True
    return False


class TypeTag:
    def __init__(self, name, pred):
        self.name, self.pred = name, pred

    def __call__(self, *a, **k):
        return B["__ctor__" + self.name](*a, **k)

    def __repr__(self):
        return f"<type {self.name}>"


def _is_intlike(x):
    return (isinstance(x, int) and not isinstance(x, bool)) or (is_sym(x) and x.kind == "int")


def _is_floatlike(x):
    return isinstance(x, (float, Fraction)) or (is_sym(x) and x.kind == "real")


def _is_boollike(x):
    return isinstance(x, bool) or (is_sym(x) and x.kind == "bool")


@bi("isinstance")
@wants_interp
def _isinstance(interp, x, t):
    if isinstance(t, tuple):
        return any(_isinstance(interp, x, u) for u in t)
    if t is B["int"]:
        return _is_intlike(x) or _is_boollike(x)
    if t is B["float"]:
        return _is_floatlike(x)
    if t is B["bool"]:
        return _is_boollike(x)
    if t is B["str"]:
        return isinstance(x, str)
    if t is B["list"]:
        return isinstance(x, list)
    if t is B["tuple"]:
        return isinstance(x, tuple)
    if t is B["dict"]:
        return isinstance(x, dict)
    if t is B["set"]:
        return isinstance(x, set)
    if t is B["slice"]:
        return isinstance(x, slice)
    if isinstance(t, X.RepoClass):
        return isinstance(x, X.Obj) and isinstance(x.cls, X.RepoClass) and t in x.cls.mro(interp)
    if isinstance(t, X.ExcClass):
        return isinstance(x, X.Obj) and interp.exc_matches(x, t)
    if isinstance(t, TypeTag):
        return bool(t.pred(x))
    if isinstance(t, type):
        return isinstance(x, t)
    h = REG.get("__isinstance__")
    if h is not None:
        r = h(interp, x, t)
        if r is not NotImplemented:
            return r
    raise Unsupported(f"isinstance against {t!r}")


@bi("str")
def _str(x=""):
    return X._to_str(x)


@bi("repr")
def _repr(x):
    return X._to_str(x)


B["slice"] = slice
B["print"] = lambda *a, **k: None
B["NotImplemented"] = NotImplemented
B["Ellipsis"] = Ellipsis
B["object"] = TypeTag("object", lambda x: True)
B["type"] = lambda x: (x.cls if isinstance(x, X.Obj) else type(x))
@bi("callable")
@wants_interp
def _callable(interp, x):
    if isinstance(x, (X.RepoFunc, X.Closure, X.BoundMethod, X.RepoClass)):
        return True
    if isinstance(x, X.Obj):
        return isinstance(x.cls, X.RepoClass) and x.cls.lookup(interp, "__call__") is not None
    return callable(x)
B["id"] = id


@bi("hash")
@wants_interp
def _hash(interp, x):
    if isinstance(x, X.Obj) and isinstance(x.cls, X.RepoClass):
        h = x.cls.lookup(interp, "__hash__")
        if h is not None:
            return interp.call_repo(h, [x], {})
        return id(x)
    if is_sym(x):
        raise Unsupported("hash of a symbolic value")
    try:
        return hash(x)
    except TypeError:
        raise X.PyRaise(interp.make_exc("TypeError", "unhashable type"))


@bi("hasattr")
@wants_interp
def _hasattr(interp, o, name):
    if isinstance(o, (tuple, list, dict, set, frozenset, str, range)) or (isinstance(o, SArr) and name in ("__iter__", "__len__", "shape")):
        if isinstance(o, SArr):
            return o.ndim > 0 or name == "shape"
        return hasattr(o, name)
    if (is_sym(o) or isinstance(o, (int, float, Fraction))) and name in ("__iter__", "__len__"):
        return False
    try:
        interp.getattr(o, name)
        return True
    except (Unsupported, X.PyRaise):
        return False


@bi("getattr")
@wants_interp
def _getattr(interp, o, name, *default):
    try:
        return interp.getattr(o, name)
    except (Unsupported, X.PyRaise):
        if default:
            return default[0]
        raise


@bi("setattr")
@wants_interp
def _setattr(interp, o, name, v):
    interp.setattr(o, name, v)


@bi("divmod")
def _divmod(a, b):
    return (V.arith("//", a, b), V.arith("%", a, b))


@bi("pow")
def _pow(a, b):
    return V.arith("**", a, b)


@bi("map")
@wants_interp
def _map(interp, f, *its):
    ls = [list(interp.iterate(i)) for i in its]
    return X.GenV([interp.call(f, list(args), {}) for args in zip(*ls)])


@bi("filter")
@wants_interp
def _filter(interp, f, it):
    return X.GenV([x for x in interp.iterate(it) if interp.truth(interp.call(f, [x], {}) if f is not None else x)])


@bi("iter")
@wants_interp
def _iter(interp, it):
    s_ = _loops().siter(it)
    if s_ is not None:
        return _loops().SList(s_[0], s_[1])
    return X.GenV(list(interp.iterate(it)))


@bi("next")
@wants_interp
def _next(interp, it, *default):
    if isinstance(it, X.GenV):
        if it.items and not it.consumed:
            return it.items.pop(0)
        if default:
            return default[0]
        raise X.PyRaise(interp.make_exc("StopIteration"))
    raise Unsupported("next() of non-generator")


# ---------------------------------------------------------------------------
# math

REG["math.pi"] = Sym(z3.Real("PI"))      # only ever used symbolically (pi is irrational)
REG["math.ceil"] = lambda x: V.ceil_(x)
REG["math.floor"] = lambda x: V.floor_(x)
REG["math.sqrt"] = _sqrt
REG["math.sin"] = _sin
REG["math.cos"] = _cos
REG["math.exp"] = _exp
REG["math.fabs"] = V.sabs
REG["math.isclose"] = lambda a, b, **k: V.compare("==", a, b)


def _radians(x):
    return x * REG["math.pi"] / 180


REG["math.radians"] = _radians
REG["math.inf"] = Sym(z3.Real("INF"))

# ---------------------------------------------------------------------------
# numpy


class DType:
    _pyvc_native = True

    def __init__(self, name, kind):
        self.name, self.kind = name, kind

    def __eq__(self, other):
        # element types are compared by kind (float32 / float64 are both "real" in this value domain)
        if isinstance(other, DType):
            return self.kind == other.kind
        if isinstance(other, str):
            try:
                return _dt(other) == self.kind
            except Unsupported:
                return False
        return NotImplemented

    def __ne__(self, other):
        r = self.__eq__(other)
        return r if r is NotImplemented else not r

    def __hash__(self):
        return hash(self.kind)

    def __call__(self, x=0):
        if isinstance(x, SArr):
            return A.astype(x, self.kind)
        if self.kind == "int":
            return V.trunc(x)
        if self.kind == "real":
            return _float(x)
        if self.kind == "bool":
            return V.compare("!=", x, 0) if not _is_boollike(x) else x
        return x

    def __repr__(self):
        return f"<dtype {self.name}>"


for _n, _k in [("float32", "real"), ("float64", "real"), ("float16", "real"), ("float_", "real"),
               ("int8", "int"), ("int16", "int"), ("int32", "int"), ("int64", "int"), ("intp", "int"),
               ("uint8", "int"), ("uint16", "int"), ("uint32", "int"), ("uint64", "int"),
               ("bool_", "bool"), ("complex64", "complex"), ("complex128", "complex")]:
    REG["numpy." + _n] = DType(_n, _k)


def _dt(dtype, default=None):
    if dtype is None:
        return default
    if isinstance(dtype, DType):
        return dtype.kind
    if dtype is B["int"]:
        return "int"
    if dtype is B["float"]:
        return "real"
    if dtype is B["bool"]:
        return "bool"
    if isinstance(dtype, str):
        if dtype.startswith(("float", "f")):
            return "real"
        if dtype.startswith(("int", "uint", "i", "u")):
            return "int"
        if dtype.startswith("bool"):
            return "bool"
        if dtype in ("real", "int", "bool", "complex"):
            return dtype
    raise Unsupported(f"dtype {dtype!r}")


def _pick(items, k):
    if isinstance(k, int):
        return items[k]
    r = items[-1]
    for j in range(len(items) - 2, -1, -1):
        r = V.ite(V.compare("==", k, j), items[j], r)
    return r


@reg("numpy.array")
def np_array(x, dtype=None, copy=True, **kw):
    L_ = _loops()
    if isinstance(x, L_.SList) and not isinstance(x.n, int):
        probe = x.fn(Sym(z3.Int("probe!row")))
        if isinstance(probe, tuple):
            # a list of n equal-length tuples: shape (n, len) -- but numpy gives shape (0,) for the empty list
            p = V.PATH[0]
            empty = p.branch(V.compare("==", x.n, 0)) if p is not None else False
            if empty:
                return SArr((0,), lambda idx: 0, _dt(dtype) or "real")
            w = len(probe)
            fn = x.fn
            return SArr((x.n, w), lambda idx: _pick(fn(idx[0]), idx[1]), _dt(dtype) or "real")
        if is_num(probe) and dtype is None:
            # a list of n numbers: numpy infers the dtype from the elements -- and float64 for the EMPTY list
            p = V.PATH[0]
            empty = p.branch(V.compare("==", x.n, 0)) if p is not None else False
            if empty:
                return SArr((0,), lambda idx: 0, "real")
            fn = x.fn
            return SArr((x.n,), lambda idx: fn(idx[0]), V.kind_of(probe) if hasattr(V, "kind_of") else "real")
    if dtype is B.get("object") or dtype == "object":
        # object array: nested lists give the shape, the leaves are kept as they are
        shape = []
        y = x
        while isinstance(y, (list, tuple)):
            shape.append(len(y))
            y = y[0] if y else None

        def leaf(idx, x=x):
            v = x
            for i in idx:
                v = v[i]
            return v
        return SArr(tuple(shape), leaf, "object")
    a = A.from_nested(x)
    if isinstance(x, SArr):
        a = a.copy()
    k = _dt(dtype)
    if k is not None and k != a.dtype:
        a = A.astype(a, k)
    return a


@reg("numpy.asarray")
def np_asarray(x, dtype=None, **kw):
    a = A.from_nested(x)
    k = _dt(dtype)
    if k is not None and k != a.dtype:
        a = A.astype(a, k)
    return a


REG["numpy.atleast_1d"] = lambda x: (lambda a: a if a.ndim >= 1 else SArr((1,), lambda idx: a.at(()), a.dtype))(A.from_nested(x))


def _shape_arg(shape):
    if isinstance(shape, SArr):
        shape = shape.to_list()
    if is_num(shape):
        shape = (shape,)
    return tuple(X._unfrac(s) for s in shape)


@reg("numpy.zeros")
def np_zeros(shape, dtype=None, **kw):
    return A.full(_shape_arg(shape), 0, _dt(dtype, "real"))


@reg("numpy.ones")
def np_ones(shape, dtype=None, **kw):
    return A.full(_shape_arg(shape), 1, _dt(dtype, "real"))


@reg("numpy.empty")
def np_empty(shape, dtype=None, **kw):
    return A.full(_shape_arg(shape), 0, _dt(dtype, "real"))


@reg("numpy.full")
def np_full(shape, fill_value, dtype=None, **kw):
    return A.full(_shape_arg(shape), fill_value, _dt(dtype, None))


REG["numpy.zeros_like"] = lambda a, dtype=None: A.full(A.from_nested(a).shape, 0, _dt(dtype, A.from_nested(a).dtype))
REG["numpy.ones_like"] = lambda a, dtype=None: A.full(A.from_nested(a).shape, 1, _dt(dtype, A.from_nested(a).dtype))


@reg("numpy.eye")
def np_eye(n, dtype=None, **kw):
    return SArr((n, n), lambda idx: V.ite(V.compare("==", idx[0], idx[1]), 1, 0), _dt(dtype, "real"))


@reg("numpy.arange")
def np_arange(*args, dtype=None, **kw):
    args = [X._unfrac(a) for a in args]
    if len(args) == 1:
        start, stop, step = 0, args[0], 1
    elif len(args) == 2:
        start, stop, step = args[0], args[1], 1
    else:
        start, stop, step = args
    if not (isinstance(step, int) and step == 1):
        if is_sym(step):
            raise Unsupported("arange with symbolic step")
        n = V.ceil_(V.arith("/", V.arith("-", stop, start), step))
    else:
        n = V.arith("-", stop, start)
        if V.kind_of(n) == "real":
            n = V.ceil_(n)
    n = V.smax(n, 0)
    kinds = {V.kind_of(x) for x in (start, stop, step)}
    k = _dt(dtype, "real" if "real" in kinds else "int")
    return SArr((n,), lambda idx: V.arith("+", start, V.arith("*", idx[0], step)), k)


@reg("numpy.linspace")
def np_linspace(start, stop, num=50, endpoint=True, dtype=None, **kw):
    num = X._unfrac(num)
    if endpoint is not True:
        raise Unsupported("linspace(endpoint=False)")
    # numpy: start + i * (stop-start)/(num-1); num == 1 -> [start]
    def fn(idx):
        i = idx[0]
        d = V.arith("-", num, 1)
        if not is_sym(d) and d == 0:
            return start
        step = V.arith("/", V.arith("-", stop, start), V.smax(d, 1) if is_sym(d) else d)
        return V.arith("+", start, V.arith("*", i, step))
    return SArr((num,), fn, "real")


@reg("numpy.indices")
def np_indices(dimensions, dtype=None, sparse=False, **kw):
    dims = tuple(X._unfrac(d) for d in (dimensions.to_list() if isinstance(dimensions, SArr) else dimensions))
    n = len(dims)
    return SArr((n,) + dims, lambda idx: _sel(idx[0], idx[1:]), _dt(dtype, "int"))


def _sel(k, items):
    """items[k] for concrete or symbolic k"""
    if isinstance(k, int):
        return items[k]
    r = items[-1]
    for j in range(len(items) - 2, -1, -1):
        r = V.ite(V.compare("==", k, j), items[j], r)
    return r


@reg("numpy.meshgrid")
def np_meshgrid(*xi, indexing="xy", sparse=False, copy=True):
    if indexing != "ij":
        raise Unsupported("meshgrid(indexing='xy')")
    arrs = [A.from_nested(x) for x in xi]
    n = len(arrs)
    out = []
    for a_i, a in enumerate(arrs):
        f = a.snapshot()
        if sparse:
            shp = tuple(a.shape[0] if j == a_i else 1 for j in range(n))
        else:
            shp = tuple(b.shape[0] for b in arrs)
        out.append(SArr(shp, (lambda f, a_i: lambda idx: f((idx[a_i],)))(f, a_i), a.dtype))
    return tuple(out)       # numpy >= 2 returns a tuple


@reg("numpy.stack")
@wants_interp
def np_stack(interp, arrays, axis=0, **kw):
    if isinstance(arrays, X.Obj) and isinstance(arrays.cls, X.RepoClass) and arrays.cls.lookup(interp, "__iter__"):
        arrays = interp.call_repo(arrays.cls.lookup(interp, "__iter__"), [arrays], {})
    if type(arrays).__name__ == "SList" and not isinstance(arrays.n, int):
        if axis != 0:
            raise Unsupported("stack of a symbolic-length list along axis != 0")
        get = arrays.fn
        pv = z3.Int(V.fresh_name("stackprobe"))
        if interp.path is not None:
            # the element shape is read off an arbitrary existing element (there is one whenever the list is not empty)
            interp.path.conds.append(z3.Implies(V.lift(arrays.n) > 0, z3.And(pv >= 0, pv < V.lift(arrays.n))))
        probe = A.from_nested(get(Sym(pv)))
        return SArr((arrays.n,) + tuple(probe.shape), lambda idx: A.from_nested(get(idx[0])).at(tuple(idx[1:])), probe.dtype)
    if isinstance(arrays, X.RepList):
        if axis != 0:
            raise Unsupported("stack of a symbolically repeated list along axis != 0")
        e = A.from_nested(arrays.elem)
        f = e.snapshot()
        return SArr((arrays.n,) + tuple(e.shape), lambda idx: f(tuple(idx[1:])), e.dtype)
    arrs = [A.from_nested(a) for a in interp.iterate(arrays)]
    n = len(arrs)
    if n == 0:
        raise X.PyRaise(interp.make_exc("ValueError", "need at least one array to stack"))
    nd = arrs[0].ndim
    if axis < 0:
        axis += nd + 1
    fs = [a.snapshot() for a in arrs]
    shp = arrs[0].shape[:axis] + (n,) + arrs[0].shape[axis:]
    kinds = {a.dtype for a in arrs}
    k = "complex" if "complex" in kinds else "real" if "real" in kinds else "int" if "int" in kinds else "bool"

    def fn(idx):
        sel = idx[axis]
        rest = tuple(idx[:axis]) + tuple(idx[axis + 1:])
        if isinstance(sel, int):
            return fs[sel](rest)
        return _sel(sel, [f(rest) for f in fs])
    return SArr(shp, fn, k)


@reg("numpy.concatenate")
@wants_interp
def np_concatenate(interp, arrays, axis=0, **kw):
    arrs = [A.from_nested(a) for a in interp.iterate(arrays)]
    if not arrs:
        raise X.PyRaise(interp.make_exc("ValueError", "need at least one array to concatenate"))
    nd = arrs[0].ndim
    if axis < 0:
        axis += nd
    fs = [a.snapshot() for a in arrs]
    offs = [0]
    for a in arrs:
        offs.append(V.arith("+", offs[-1], a.shape[axis]))
    shp = arrs[0].shape[:axis] + (offs[-1],) + arrs[0].shape[axis + 1:]

    def fn(idx):
        i = idx[axis]
        r = None
        for j in range(len(arrs) - 1, -1, -1):
            loc = tuple(idx[:axis]) + (V.arith("-", i, offs[j]),) + tuple(idx[axis + 1:])
            if r is None:
                r = fs[j](loc)
            else:
                c = V.compare("<", i, offs[j + 1])
                if c is True:
                    r = fs[j](loc)
                elif c is False:
                    pass
                else:
                    r = V.ite(c, fs[j](loc), r)
        return r
    return SArr(shp, fn, arrs[0].dtype)


def _shift_axes(a, axes, inverse):
    a = A.from_nested(a)
    if axes is None:
        axes = tuple(range(a.ndim))
    if isinstance(axes, int):
        axes = (axes,)
    axes = tuple(ax % a.ndim for ax in axes)
    f = a.snapshot()
    shape = a.shape

    def fn(idx):
        src = list(idx)
        for ax in axes:
            n = shape[ax]
            # fftshift: out[i] = in[(i - n//2) mod n] ; ifftshift: out[i] = in[(i + n//2) mod n]
            h = V.arith("//", n, 2)
            if inverse:
                src[ax] = V.arith("%", V.arith("+", idx[ax], h), n)
            else:
                src[ax] = V.arith("%", V.arith("-", idx[ax], h), n)
        return f(tuple(src))
    out = SArr(shape, fn, a.dtype)
    if getattr(a, "im", None) is not None:
        out.im = _shift_axes(a.im, axes, inverse)
    return out


REG["numpy.fft.fftshift"] = lambda a, axes=None: _shift_axes(a, axes, False)
REG["numpy.fft.ifftshift"] = lambda a, axes=None: _shift_axes(a, axes, True)


def fftindex(i, n):
    """signed frequency index of FFT bin i for length n: i if i <= (n-1)//2 else i - n"""
    return V.ite(V.compare("<=", i, V.arith("//", V.arith("-", n, 1), 2)), i, V.arith("-", i, n))


@reg("numpy.fft.fftfreq")
def np_fftfreq(n, d=1):
    n = X._unfrac(n)
    return SArr((n,), lambda idx: V.arith("/", fftindex(idx[0], n), V.arith("*", n, d)), "real")


def _map_scalar_or_arr(f, kind=None):
    def g(x, *a, **k):
        if isinstance(x, (SArr, MaskedSel, list, tuple)):
            return A.map1(f, x if not isinstance(x, (list, tuple)) else A.from_nested(x), kind)
        return f(x)
    return g


REG["numpy.ceil"] = _map_scalar_or_arr(lambda x: V.to_real(V.ceil_(x)) if is_sym(x) else Fraction(math.ceil(x), 1), "real")
REG["numpy.floor"] = _map_scalar_or_arr(lambda x: V.to_real(V.floor_(x)) if is_sym(x) else Fraction(math.floor(x), 1), "real")
REG["numpy.fix"] = _map_scalar_or_arr(lambda x: V.to_real(V.trunc(x)) if is_sym(x) else Fraction(int(x), 1), "real")
def _np_round(x, decimals=0, **kw):
    # rounding to `decimals` > 0 places is a presentation detail: modelled as the identity (stated assumption);
    # decimals == 0 is round-half-to-even as numpy documents
    if not (isinstance(decimals, int) and decimals == 0):
        return A.from_nested(x) if isinstance(x, (SArr, list, tuple)) else x
    f = lambda v: V.to_real(V.round_half_even(v)) if is_sym(v) else Fraction(round(v), 1)
    if isinstance(x, (SArr, MaskedSel, list, tuple)):
        return A.map1(f, x if not isinstance(x, (list, tuple)) else A.from_nested(x))
    return f(x)


REG["numpy.round"] = _np_round
REG["numpy.rint"] = REG["numpy.round"]
REG["numpy.sqrt"] = _map_scalar_or_arr(_sqrt, "real")
REG["numpy.abs"] = _map_scalar_or_arr(V.sabs)
REG["numpy.absolute"] = REG["numpy.abs"]
REG["numpy.sin"] = _map_scalar_or_arr(_sin, "real")
REG["numpy.cos"] = _map_scalar_or_arr(_cos, "real")
REG["numpy.exp"] = _map_scalar_or_arr(_exp, "real")
REG["numpy.pi"] = REG["math.pi"]
REG["numpy.inf"] = REG["math.inf"]
REG["numpy.newaxis"] = None
def _is_ndarray(x):
    from .imgtok import ImgTok
    return isinstance(x, (SArr, ImgTok))


REG["numpy.ndarray"] = TypeTag("ndarray", _is_ndarray)
def _np_compare_ufunc(_nm, _op):
    @wants_interp
    def f(interp, a, b, out=None, dtype=None, **kw):
        # numpy 2.x: comparison ufuncs only have boolean (and object) output loops; any other `dtype=` raises
        # "No loop matching the specified signature and casting was found" (measured on numpy 2.5)
        if dtype is not None and _dt(dtype) != "bool":
            raise X.PyRaise(interp.make_exc(
                "TypeError", f"No loop matching the specified signature and casting was found for ufunc {_nm}"))
        return interp.cmp(_op, a, b)
    return f


for _nm, _op in (("greater_equal", ">="), ("less_equal", "<="), ("greater", ">"), ("less", "<")):
    REG["numpy." + _nm] = _np_compare_ufunc(_nm, _op)
REG["numpy.number"] = TypeTag("number", lambda x: is_num(x))
REG["numpy.integer"] = TypeTag("integer", _is_intlike)
REG["numpy.floating"] = TypeTag("floating", _is_floatlike)
REG["numpy.isscalar"] = lambda x: is_num(x) or isinstance(x, str)


def _deg2rad(x):
    if isinstance(x, (tuple, list, SArr)):
        return A.map1(_radians, A.from_nested(x), "real")
    return _radians(x)


REG["numpy.deg2rad"] = _deg2rad
REG["numpy.radians"] = _deg2rad
REG["numpy.maximum"] = lambda a, b: A.pointwise("max", a, b) if isinstance(a, SArr) or isinstance(b, SArr) else V.smax(a, b)
REG["numpy.minimum"] = lambda a, b: A.pointwise("min", a, b) if isinstance(a, SArr) or isinstance(b, SArr) else V.smin(a, b)
REG["numpy.add"] = lambda a, b: A.pointwise("+", a, b) if isinstance(a, SArr) or isinstance(b, SArr) else V.arith("+", a, b)
REG["numpy.multiply"] = lambda a, b: A.pointwise("*", a, b) if isinstance(a, SArr) or isinstance(b, SArr) else V.arith("*", a, b)
REG["numpy.where"] = lambda c, a, b: _where(c, a, b)


def _where(c, a, b):
    C, Aa, Bb = A.from_nested(c), A.from_nested(a), A.from_nested(b)
    shp, _, _ = A.broadcast_shapes(A.broadcast_shapes(C.shape, Aa.shape)[0], Bb.shape)
    t1 = A.pointwise("*", C, 1)  # noqa
    fc, fa, fb = C.snapshot(), Aa.snapshot(), Bb.snapshot()
    n = len(shp)

    def pad(s):
        return (1,) * (n - len(s)) + tuple(s)
    sc, sa, sb = pad(C.shape), pad(Aa.shape), pad(Bb.shape)

    def fn(idx):
        return V.ite(fc(A._bidx(idx, sc[n - C.ndim:], n)), fa(A._bidx(idx, sa[n - Aa.ndim:], n)),
                     fb(A._bidx(idx, sb[n - Bb.ndim:], n)))
    return SArr(shp, fn, Aa.dtype if Aa.dtype == Bb.dtype else "real")


# reductions over *concrete-shape* arrays are exact finite sums; symbolic extents use Sum terms (rules.py)
def _reduce_concrete(a, op, axis):
    a = A.from_nested(a)
    if axis is not None:
        _ax = (axis,) if isinstance(axis, int) else tuple(axis)
        if any(not isinstance(a.shape[x % a.ndim], int) for x in _ax):
            raise Unsupported("reduction over a symbolic extent")
    if axis is None:
        shp = a.concrete_shape()
        vals = [a.at(idx) for idx in itertools.product(*[range(s) for s in shp])]
        return _fold(op, vals)
    if isinstance(axis, int):
        axis = (axis,)
    axis = tuple(ax % a.ndim for ax in axis)
    for ax in axis:
        if not isinstance(a.shape[ax], int):
            raise Unsupported("reduction over a symbolic extent")
    f = a.snapshot()
    keep = [i for i in range(a.ndim) if i not in axis]
    shp = tuple(a.shape[i] for i in keep)

    def fn(idx):
        vals = []
        for sub in itertools.product(*[range(a.shape[ax]) for ax in axis]):
            full = [None] * a.ndim
            for i, k in zip(keep, idx):
                full[i] = k
            for ax, s in zip(axis, sub):
                full[ax] = s
            vals.append(f(tuple(full)))
        return _fold(op, vals)
    if not shp:
        return fn(())
    return SArr(shp, fn, a.dtype)


def _fold(op, vals):
    if not vals:
        if op in ("+",):
            return 0
        if op == "*":
            return 1
        raise Unsupported("reduction of empty array")
    r = vals[0]
    for v in vals[1:]:
        r = A.scalar_op(op, r, v)
    return r


SUM_HOOK = [None]        # rules.py installs the symbolic-extent Sum here


def np_sum(a, axis=None, dtype=None, **kw):
    a = A.from_nested(a)
    try:
        return _reduce_concrete(a, "+", axis)
    except Unsupported:
        if SUM_HOOK[0] is not None:
            return SUM_HOOK[0](a, axis)
        raise


REG["numpy.sum"] = np_sum
REG["numpy.prod"] = lambda a, axis=None, dtype=None, **kw: _reduce_concrete(a, "*", axis)
REG["numpy.max"] = lambda a, axis=None, **kw: _reduce_concrete(a, "max", axis)
REG["numpy.min"] = lambda a, axis=None, **kw: _reduce_concrete(a, "min", axis)
REG["numpy.amax"] = REG["numpy.max"]
REG["numpy.percentile"] = lambda a, q, axis=None, **kw: V.fresh("percentile", "real")
REG["numpy.nanmin"] = REG["numpy.min"]
REG["numpy.nanmax"] = REG["numpy.max"]
REG["numpy.nan"] = Sym(z3.Real("NAN"))
REG["numbers.Integral"] = TypeTag("Integral", _is_intlike)
REG["numbers.Number"] = TypeTag("Number", lambda x: is_num(x))
REG["numpy.amin"] = REG["numpy.min"]


def np_all(a, axis=None, **kw):
    a = A.from_nested(a)
    return _reduce_concrete(a, "&", axis)


def np_any(a, axis=None, **kw):
    a = A.from_nested(a)
    return _reduce_concrete(a, "|", axis)


REG["numpy.all"] = np_all
REG["numpy.any"] = np_any


def np_mean(a, axis=None, **kw):
    a = A.from_nested(a)
    s = np_sum(a, axis)
    if axis is None:
        n = a.size
    else:
        ax = (axis,) if isinstance(axis, int) else axis
        n = 1
        for x in ax:
            n = V.arith("*", n, a.shape[x % a.ndim])
    res = s / n if isinstance(s, SArr) else V.arith("/", s, n)
    GHOST.setdefault("mean", []).append((res, a, axis, s, n))     # ghost: result = (sum of `a` over `axis`) / n
    return res


REG["numpy.mean"] = np_mean


def np_dot(a, b):
    a, b = A.from_nested(a), A.from_nested(b)
    if b.ndim == 1:
        n = b.shape[0]
        if not isinstance(n, int):
            raise Unsupported("dot over symbolic extent")
        fa, fb = a.snapshot(), b.snapshot()
        shp = a.shape[:-1]

        def fn(idx):
            return _fold("+", [V.arith("*", fa(tuple(idx) + (k,)), fb((k,))) for k in range(n)])
        if not shp:
            return fn(())
        return SArr(shp, fn, "real" if "real" in (a.dtype, b.dtype) else a.dtype)
    if a.ndim == 2 and b.ndim == 2:
        return np_matmul(a, b)
    raise Unsupported("dot of these ranks")


def np_matmul(a, b):
    a, b = A.from_nested(a), A.from_nested(b)
    if a.ndim == 2 and b.ndim == 2:
        n = a.shape[1]
        if not isinstance(n, int):
            raise Unsupported("matmul over symbolic extent")
        fa, fb = a.snapshot(), b.snapshot()
        return SArr((a.shape[0], b.shape[1]),
                    lambda idx: _fold("+", [V.arith("*", fa((idx[0], k)), fb((k, idx[1]))) for k in range(n)]),
                    "real" if "real" in (a.dtype, b.dtype) else a.dtype)
    if a.ndim == 2 and b.ndim == 1:
        return np_dot(a, b)
    if a.ndim == 1 and b.ndim == 2:
        n = a.shape[0]
        fa, fb = a.snapshot(), b.snapshot()
        return SArr((b.shape[1],), lambda idx: _fold("+", [V.arith("*", fa((k,)), fb((k, idx[0]))) for k in range(n)]),
                    "real")
    if a.ndim == 1 and b.ndim == 1:
        return np_dot(a, b)
    raise Unsupported("matmul of these ranks")


REG["numpy.dot"] = np_dot
REG["numpy.matmul"] = np_matmul


def np_cross(a, b, **kw):
    a, b = A.from_nested(a), A.from_nested(b)
    fa, fb = a.snapshot(), b.snapshot()
    shp, _, _ = A.broadcast_shapes(a.shape, b.shape)

    def fn(idx):
        pre, k = tuple(idx[:-1]), idx[-1]
        pa = pre[len(pre) - (a.ndim - 1):] if a.ndim > 1 else ()
        pb = pre[len(pre) - (b.ndim - 1):] if b.ndim > 1 else ()
        ax = [fa(pa + (i,)) for i in range(3)]
        bx = [fb(pb + (i,)) for i in range(3)]
        comps = [ax[1] * bx[2] - ax[2] * bx[1], ax[2] * bx[0] - ax[0] * bx[2], ax[0] * bx[1] - ax[1] * bx[0]]
        return _sel(k, comps)
    return SArr(shp, fn, "real")


REG["numpy.cross"] = np_cross


def np_einsum(subscripts, *operands):
    """einsum over concrete contracted extents (the two patterns used in acryo contract 4x4 matrices)"""
    ops = [A.from_nested(o) for o in operands]
    lhs, rhs = subscripts.replace(" ", "").split("->")
    terms = lhs.split(",")
    sizes = {}
    for t, o in zip(terms, ops):
        if len(t) != o.ndim:
            raise Unsupported("einsum rank mismatch")
        for ch, s_ in zip(t, o.shape):
            sizes.setdefault(ch, s_)
    contracted = [ch for ch in sizes if ch not in rhs]
    for ch in contracted:
        if not isinstance(sizes[ch], int):
            raise Unsupported("einsum contraction over a symbolic extent")
    fs = [o.snapshot() for o in ops]

    def fn(idx):
        env = dict(zip(rhs, idx))
        total = 0
        for combo in itertools.product(*[range(sizes[ch]) for ch in contracted]):
            env2 = dict(env)
            env2.update(zip(contracted, combo))
            prod = 1
            for t, f in zip(terms, fs):
                prod = V.arith("*", prod, f(tuple(env2[ch] for ch in t)))
            total = V.arith("+", total, prod)
        return total
    return SArr(tuple(sizes[ch] for ch in rhs), fn, "real")


REG["numpy.einsum"] = np_einsum


def np_unravel_index(indices, shape, **kw):
    shape = tuple(shape)
    if isinstance(indices, UnraveledArgmax):
        return indices.coords(shape)
    rem = indices
    out = []
    for i in range(len(shape)):
        stride = 1
        for s in shape[i + 1:]:
            stride = V.arith("*", stride, s)
        out.append(V.arith("//", rem, stride))
        rem = V.arith("%", rem, stride)
    return tuple(out)


class UnraveledArgmax:
    """result of argmax(a) over a whole array, kept as the index tuple of a maximiser
    (the flat index k*stride arithmetic is nonlinear and never needed: the code only
    ever passes it to unravel_index(…, a.shape))"""

    def __init__(self, arr, idx):
        self.arr, self.idx = arr, idx

    def coords(self, shape):
        return SArr((len(self.idx),), lambda i: _sel(i[0], list(self.idx)), "int")


def np_argmax(a, axis=None, **kw):
    a = A.from_nested(a)
    if axis is not None:
        if axis != 0 or a.ndim < 2:
            raise Unsupported("argmax along an axis other than 0")
        # per position of the remaining axes an index r into axis 0 with a[r, ...] >= a[t, ...] for every t
        # (the first maximiser; only "a maximiser" is modelled)
        p0 = V.PATH[0]
        rest = a.shape[1:]
        f = z3.Function(V.fresh_name("argmax0"), *([z3.IntSort()] * len(rest)), z3.IntSort())
        af = a.snapshot()
        if p0 is not None:
            js = [z3.Int(V.fresh_name("aj")) for _ in rest]
            t = z3.Int(V.fresh_name("at"))
            rng = z3.And(*[z3.And(j >= 0, j < V.lift(s_)) for j, s_ in zip(js, rest)])
            r = f(*js)
            ge = V.lift(V.compare(">=", af((Sym(r),) + tuple(Sym(j) for j in js)), af((Sym(t),) + tuple(Sym(j) for j in js))))
            p0.conds.append(z3.ForAll(js, z3.Implies(rng, z3.And(r >= 0, r < V.lift(a.shape[0])))))
            p0.conds.append(z3.ForAll(js + [t], z3.Implies(z3.And(rng, t >= 0, t < V.lift(a.shape[0])), ge)))
            if V.SAFETY[0]:
                p0.oblige("safety.argmax_nonempty", V.compare(">=", a.shape[0], 1), {"kind": "safety", "clause": "argmax of a non-empty axis"})
        return SArr(tuple(rest), lambda idx: Sym(f(*[V.lift(i) for i in idx])), "int")
    p = V.PATH[0]
    if all(isinstance(s, int) for s in a.shape) and a.size <= 64 and all(
            not is_sym(a.at(idx)) for idx in itertools.product(*[range(s) for s in a.shape])):
        best, bi_ = None, None
        for flat, idx in enumerate(itertools.product(*[range(s) for s in a.shape])):
            v = a.at(idx)
            if best is None or v > best:
                best, bi_ = v, idx
        if a.ndim == 1:
            return bi_[0]
        return UnraveledArgmax(a, bi_)
    idx = tuple(V.fresh("argmax", "int") for _ in a.shape)
    if p is None:
        raise Unsupported("symbolic argmax outside a path")
    if V.SAFETY[0]:
        # numpy raises ValueError for the argmax of an empty array
        p.oblige("safety.argmax_nonempty", V.sand(*[V.compare(">=", s_, 1) for s_ in a.shape]),
                 {"kind": "safety", "clause": "argmax of a non-empty array"})
    for i, s in zip(idx, a.shape):
        p.assume(V.sand(i >= 0, i < s))
    # maximiser: forall j in range: a[idx] >= a[j]
    js = [z3.Int(V.fresh_name("j")) for _ in a.shape]
    rng = z3.And(*[z3.And(j >= 0, j < V.lift(s)) for j, s in zip(js, a.shape)])
    body = V.lift(V.compare(">=", a.at(idx), a.at(tuple(Sym(j) for j in js))))
    p.conds.append(z3.ForAll(js, z3.Implies(rng, body)))
    if a.ndim == 1:
        return idx[0]
    return UnraveledArgmax(a, idx)


REG["numpy.argmax"] = np_argmax


@reg("numpy.argsort")
def np_argsort(a, axis=-1, kind=None, **kw):
    """argsort of a 1-d array: a permutation p of the positions with a[p[0]] <= a[p[1]] <= ... (trusted numpy contract;
    stability is not modelled)"""
    a = A.from_nested(a)
    if a.ndim != 1:
        raise Unsupported("argsort of a multi-dimensional array")
    n = a.shape[0]
    f = z3.Function(V.fresh_name("argsort"), z3.IntSort(), z3.IntSort())
    g = z3.Function(V.fresh_name("argsort_inv"), z3.IntSort(), z3.IntSort())
    p = V.PATH[0]
    af = a.snapshot()
    if p is not None:
        j, i = z3.Int(V.fresh_name("sj")), z3.Int(V.fresh_name("si"))
        nn = V.lift(n)
        p.conds.append(z3.ForAll([j], z3.Implies(z3.And(j >= 0, j < nn), z3.And(f(j) >= 0, f(j) < nn, g(f(j)) == j))))
        p.conds.append(z3.ForAll([i], z3.Implies(z3.And(i >= 0, i < nn), z3.And(g(i) >= 0, g(i) < nn, f(g(i)) == i))))
        le = V.compare("<=", af((Sym(f(j)),)), af((Sym(f(j + 1)),)))
        p.conds.append(z3.ForAll([j], z3.Implies(z3.And(j >= 0, j + 1 < nn), V.lift(le) if is_sym(le) else z3.BoolVal(bool(le)))))
    return SArr((n,), lambda idx: Sym(f(V.lift(idx[0]))), "int")
REG["numpy.unravel_index"] = np_unravel_index


def np_pad(a, pad_width, mode="constant", constant_values=0, **kw):
    a = A.from_nested(a)
    pw = pad_width
    if isinstance(pw, SArr):
        pw = pw.to_list()
    if is_num(pw):
        pw = [(pw, pw)] * a.ndim
    pw = [tuple(p) if not is_num(p) else (p, p) for p in pw]
    if len(pw) == 1 and a.ndim > 1:
        pw = pw * a.ndim
    f = a.snapshot()
    shp = tuple(V.arith("+", V.arith("+", s, p[0]), p[1]) for s, p in zip(a.shape, pw))
    if mode == "constant":
        fillv = lambda: constant_values
    elif mode == "mean":
        m = [None]

        def fillv():
            if m[0] is None:
                m[0] = V.fresh("padmean", "real")     # a finite fill value (mean of the in-bounds block)
            return m[0]
    else:
        raise Unsupported(f"pad mode {mode}")

    def fn(idx):
        src = tuple(V.arith("-", i, p[0]) for i, p in zip(idx, pw))
        inside = V.sand(*[V.sand(V.compare(">=", s_, 0), V.compare("<", s_, n)) for s_, n in zip(src, a.shape)])
        if inside is True:
            return f(src)
        if inside is False:
            return fillv()
        return V.ite(inside, f(src), fillv())
    return SArr(shp, fn, a.dtype)


REG["numpy.pad"] = np_pad

# scipy.fft -----------------------------------------------------------------
REG["scipy.fft.next_fast_len"] = None  # set below


def _next_fast_len(n, real=False):
    if not is_sym(n):
        from scipy.fft import next_fast_len
        return next_fast_len(int(n), real)
    r = V.fresh("fastlen", "int")
    p = V.PATH[0]
    if p is not None:
        p.assume(r >= n)
    return r


REG["scipy.fft.next_fast_len"] = _next_fast_len


# ---------------------------------------------------------------------------
# attribute / method protocol for arrays and numbers (stub hook used by Interp.getattr)

class OverlapResult:
    """result of dask `map_overlap(..., dtype=object)` reduced to ONE generic block (an arbitrary chunk of an arbitrary
    chunking): .compute().ravel() is the list holding what the function returned for that block"""
    _pyvc_native = True

    def __init__(self, items, info):
        self.items, self.info = items, info

    def compute(self, **kw):
        return self

    def ravel(self):
        return list(self.items)


def _map_overlap(interp, a, func, *args, depth=0, boundary=None, trim=True, dtype=None, meta=None, **kwargs):
    """dask.array.map_overlap, trusted contract (observed with the installed dask, see DESIGN.md): the function is
    called once per chunk with the chunk extended by `depth` voxels on each side (the boundary mode supplies the voxels
    outside the array) and with block_info[None]['array-location'] = the chunk's (start, stop) per axis in the
    UN-extended array.  The generic chunk: 0 <= start < stop <= shape, any location."""
    if trim:
        raise Unsupported("map_overlap(trim=True)")
    nd = a.ndim
    # dask's depth argument (observed, installed dask): an int is used for every axis, a tuple / dict is per axis,
    # a LIST is "one depth per array argument": with a single array its first element is used for every axis
    if isinstance(depth, list):
        depth = depth[0]
    if isinstance(depth, dict):
        depth = tuple(depth.get(i, 0) for i in range(nd))
    dep = list(depth) if isinstance(depth, tuple) else [depth] * nd
    name = V.fresh_name("chunk")
    starts = [Sym(z3.Int(f"{name}_start{i}")) for i in range(nd)]
    stops = [Sym(z3.Int(f"{name}_stop{i}")) for i in range(nd)]
    for i in range(nd):
        interp.path.assume(V.sand(V.compare(">=", starts[i], 0), V.compare("<", starts[i], stops[i]),
                                  V.compare("<=", stops[i], a.shape[i])))
    bshape = tuple(V.arith("+", V.arith("-", stops[i], starts[i]), V.arith("*", 2, dep[i])) for i in range(nd))
    af = a.snapshot()
    f = z3.Function(name + "_halo", *([z3.IntSort()] * nd), z3.RealSort())

    def elem(idx):
        # inside the array: the array's voxel; outside: whatever the boundary mode supplies
        g = [V.arith("-", V.arith("+", starts[i], idx[i]), dep[i]) for i in range(nd)]
        inside = V.sand(*[V.sand(V.compare(">=", g[i], 0), V.compare("<", g[i], a.shape[i])) for i in range(nd)])
        halo = Sym(f(*[V.lift(x) for x in g]))
        if inside is True:
            return af(tuple(g))
        return V.ite(inside, af(tuple(g)), halo) if inside is not False else halo
    block = SArr(bshape, elem, a.dtype)
    info = {None: {"array-location": [(starts[i], stops[i]) for i in range(nd)], "shape": tuple(a.shape)},
            0: {"array-location": [(V.arith("+", starts[i], 0), V.arith("+", stops[i], V.arith("*", 2, dep[i]))) for i in range(nd)]}}
    GHOST.setdefault("overlap", []).append({"starts": starts, "stops": stops, "depth": dep, "block": block})
    out = interp.call(func, [block] + list(args), dict(kwargs, block_info=info))
    items = []

    def flat(x):
        if isinstance(x, SArr):
            if any(not isinstance(s_, int) for s_ in x.shape):
                raise Unsupported("map_overlap function returned a symbolic-shape array")
            import itertools
            for idx in itertools.product(*[range(s_) for s_ in x.shape]):
                items.append(x.at(idx))
        elif isinstance(x, (list, tuple)):
            for y in x:
                flat(y)
        else:
            items.append(x)
    flat(out)
    return OverlapResult(items, info)


def _map_blocks(interp, a, func, *args, dtype=None, chunks=None, drop_axis=None, new_axis=None, meta=None, name=None, **kw):
    """dask `arr.map_blocks(f, ...)`: f is applied to every block separately and the results are put side by side.
    The chunking is arbitrary (n_a >= 1 blocks along axis a, symbolic).  With one block per axis the result is
    f(whole array); otherwise only the shape is known: each block contributes what f adds to its extent (modelled for
    shape-changing f through the extent f gives the whole array: n_a blocks grow the axis n_a times)."""
    if chunks is not None or drop_axis is not None or new_axis is not None:
        raise Unsupported("map_blocks with chunks / drop_axis / new_axis")
    whole = A.from_nested(interp.call(func, [a] + list(args), kw))
    if whole.ndim != a.ndim:
        raise Unsupported("map_blocks with a function changing the number of axes")
    nbs, single = [], []
    for ax in range(a.ndim):
        nb = V.fresh("numblocks", "int")
        interp.path.assume(V.compare(">=", nb, 1))
        interp.path.assume(V.compare("<=", nb, V.smax(a.shape[ax], 1)))
        nbs.append(nb)
        single.append(V.compare("==", nb, 1))
    one = V.sand(*single)
    grow = [V.arith("-", whole.shape[ax], a.shape[ax]) for ax in range(a.ndim)]
    shp = tuple(V.arith("+", a.shape[ax], V.arith("*", nbs[ax], grow[ax])) for ax in range(a.ndim))
    wf = whole.snapshot()
    other = _uf_array("map_blocks", shp, whole.dtype)
    of = other.snapshot()

    def fn(idx):
        return V.ite(one, wf(idx), of(idx))
    return SArr(shp, fn, whole.dtype)


def _arr_method(arr, name):
    a = arr
    if name == "chunks":
        return tuple(ChunkSizesV(s_) for s_ in a.shape)
    if name == "map_blocks":
        return wants_interp(lambda interp, func, *args, **kw: _map_blocks(interp, a, func, *args, **kw))
    if name == "map_overlap":
        return wants_interp(lambda interp, func, *args, **kw: _map_overlap(interp, a, func, *args, **kw))
    if name == "shape":
        return tuple(a.shape)
    if name == "ndim":
        return a.ndim
    if name == "size":
        return a.size
    if name == "dtype":
        return DType(a.dtype, a.dtype)
    if name == "T":
        if a.ndim == 2:
            f = a.snapshot()
            return SArr((a.shape[1], a.shape[0]), lambda idx: f((idx[1], idx[0])), a.dtype)
        raise Unsupported(".T of non-matrix")
    if name == "real":
        return a
    if name == "imag":
        if getattr(a, "im", None) is not None:
            return a.im
        if a.dtype != "complex":
            return A.full(a.shape, 0, "real")
        a.im = _uf_array("imag", a.shape, "real")      # one imaginary part per array object
        return a.im
    if name == "astype":
        def _astype(dtype, **kw):
            # copy=False: numpy returns the array itself when it already has the requested dtype.  The element kinds here
            # do not tell float32 from float64, so "same kind" stands for the case "same dtype" (the aliasing case)
            if kw.get("copy", True) is False and _dt(dtype) == a.dtype:
                return a
            return A.astype(a, _dt(dtype))
        return _astype
    if name == "copy":
        return lambda **kw: a.copy()
    if name == "sum":
        return lambda axis=None, **kw: np_sum(a, axis)
    if name == "mean":
        return lambda axis=None, **kw: np_mean(a, axis)
    if name == "max":
        def _amax(axis=None, **kw):
            try:
                return _reduce_concrete(a, "max", axis)
            except Unsupported:
                if axis is None:
                    return _max_symbolic(a)
                raise
        return _amax
    if name == "min":
        return lambda axis=None, **kw: _reduce_concrete(a, "min", axis)
    if name in ("all", "any"):
        def _allany(axis=None, _n=name, **kw):
            try:
                return (np_all if _n == "all" else np_any)(a, axis)
            except Unsupported:
                if axis is not None:
                    raise
                return V.fresh("arr_" + _n, "bool")       # reduction over a symbolic extent: an uninterpreted bool
        return _allany
    if name == "dot":
        return lambda b: np_dot(a, b)
    if name == "reshape":
        return lambda *shape, **kw: np_reshape(a, shape[0] if len(shape) == 1 and not is_num(shape[0]) else shape)
    if name == "ravel" or name == "flatten":
        return lambda: np_reshape(a, (a.size,))
    if name == "tolist":
        def _tolist():
            if a.ndim == 1 and is_sym(a.shape[0]):
                f = a.snapshot()
                return _loops().SList(a.shape[0], lambda i: f((i,)))
            return a.to_list()
        return _tolist
    if name == "rechunk":
        return lambda *args, **kw: a          # dask: chunking does not change values (trusted; this is C09/C10's clause)
    if name == "item":
        return lambda: a.at((0,) * a.ndim)
    if name == "conj":
        return lambda: a
    if name == "argmax":
        return lambda axis=None: np_argmax(a, axis)
    if name == "get":
        return lambda: a
    if name == "compute":
        return lambda *args, **kw: a
    return NotImplemented


def np_reshape(a, shape):
    a = A.from_nested(a)
    shape = tuple(X._unfrac(s) for s in shape)
    if any((not is_sym(s)) and s == -1 for s in shape):
        known = 1
        for s in shape:
            if not ((not is_sym(s)) and s == -1):
                known = V.arith("*", known, s)
        shape = tuple(V.arith("//", a.size, known) if ((not is_sym(s)) and s == -1) else s for s in shape)
    f = a.snapshot()
    src_shape = a.shape

    # (n, ...) -> (n, -1): row-major flattening of all but the first axis (numpy semantics, trusted).  The flat index
    # arithmetic (division by symbolic extents) is kept, and the source is recorded as ghost state so that contracts
    # can speak about the un-flattened array
    if len(shape) == 2 and len(src_shape) > 2 and A._same_dim(shape[0], src_shape[0]):
        GHOST.setdefault("flatten", []).append((None, a))
        _flat_pending = True
    else:
        _flat_pending = False

    # Special case used by bin_image: (n0*b0, n1*b1, ...) -> (n0, b0, n1, b1, ...): splitting each axis
    # in two is exact without nonlinear flat-index arithmetic: src[a] = idx[2a]*shape[2a+1] + idx[2a+1]
    if len(shape) == 2 * len(src_shape):
        def fn_split(idx):
            return f(tuple(V.arith("+", V.arith("*", idx[2 * k], shape[2 * k + 1]), idx[2 * k + 1])
                           for k in range(len(src_shape))))
        return SArr(shape, fn_split, a.dtype)

    def strides(shp):
        out = []
        for i in range(len(shp)):
            st = 1
            for s in shp[i + 1:]:
                st = V.arith("*", st, s)
            out.append(st)
        return out
    st_new, st_old = strides(shape), strides(src_shape)

    def fn(idx):
        flat = 0
        for i, s in zip(idx, st_new):
            flat = V.arith("+", flat, V.arith("*", i, s))
        src = []
        for s in st_old:
            src.append(V.arith("//", flat, s))
            flat = V.arith("%", flat, s)
        return f(tuple(src))
    res = SArr(shape, fn, a.dtype)
    if _flat_pending:
        GHOST["flatten"][-1] = (res, a)
    return res


REG["numpy.reshape"] = np_reshape


@reg("numpy.take_along_axis")
def np_take_along_axis(arr, indices, axis):
    """result[k, c] = arr[indices[k, 0], c] for a (R, C) array, (K, 1) integer indices and axis 0 (numpy broadcasts the
    index column over the other axis); other uses are outside the modelled subset"""
    a, ix = A.from_nested(arr), A.from_nested(indices)
    if not (a.ndim == 2 and ix.ndim == 2 and axis == 0 and isinstance(ix.shape[1], int) and ix.shape[1] == 1):
        raise Unsupported("take_along_axis other than rows of a matrix")
    if ix.dtype not in ("int", "bool"):
        raise X.PyRaise(X.Obj(X.BUILTIN_EXC["IndexError"], {"args": ("arrays used as indices must be of integer (or boolean) type",)}))
    af, xf = a.snapshot(), ix.snapshot()
    n0 = a.shape[0]
    return SArr((ix.shape[0], a.shape[1]), lambda idx: af((A.norm_index(xf((idx[0], 0)), n0, force=True), idx[1])), a.dtype)


class BlockStructure:
    """the chunking of a dask array along axis 0: `nb` >= 1 blocks, block i = rows [b(i), b(i+1)) with b(0) = 0,
    b(nb) = number of rows, b strictly increasing -- an arbitrary partition (what rechunk('auto') produces depends on
    dask's configuration and the data size).  The other axes are taken as one block each only when the caller asks
    for numblocks[0] / blocks[i] (anything else is unsupported)."""
    _pyvc_native = True

    def __init__(self, interp, a):
        self.a, self.interp = a, interp
        self.nb = V.fresh("numblocks", "int")
        self.b = z3.Function(V.fresh_name("block_start"), z3.IntSort(), z3.IntSort())
        n = a.shape[0]
        p = interp.path
        k = z3.Int(V.fresh_name("k"))
        p.assume(V.compare(">=", self.nb, 1))
        p.assume(V.compare("<=", self.nb, n))
        p.assume(Sym(self.b(0) == 0))
        p.assume(Sym(self.b(self.nb.t) == V.lift(n)))
        p.assume(Sym(z3.ForAll([k], z3.Implies(z3.And(k >= 0, k < self.nb.t), self.b(k) < self.b(k + 1)))))

    def __getitem__(self, i):
        if isinstance(i, tuple):
            if len(i) != 1:
                raise Unsupported("blocks[...] with more than the first axis")
            i = i[0]
        if isinstance(i, slice):
            raise Unsupported("blocks[slice]")
        a = self.a
        f = a.snapshot()
        lo, hi = Sym(self.b(V.lift(i))), Sym(self.b(V.lift(i) + 1))
        return SArr((V.arith("-", hi, lo),) + tuple(a.shape[1:]),
                    lambda idx: f((V.arith("+", lo, idx[0]),) + tuple(idx[1:])), a.dtype)


def _block_structure(interp, a):
    bs = getattr(a, "_blocks", None)
    if bs is None:
        bs = a._blocks = BlockStructure(interp, a)
    return bs


class _NumBlocks:
    _pyvc_native = True

    def __init__(self, bs):
        self.bs = bs

    def __getitem__(self, ax):
        if not (isinstance(ax, int) and ax == 0):
            raise Unsupported("numblocks of an axis other than the first")
        return self.bs.nb


def _getattr_hook(interp, obj, name):
    if isinstance(obj, SArr) and name == "numblocks":
        return _NumBlocks(_block_structure(interp, obj))
    if isinstance(obj, SArr) and name == "blocks":
        return _block_structure(interp, obj)
    if isinstance(obj, SArr):
        return _arr_method(obj, name)
    if isinstance(obj, MaskedSel):
        if name in ("shape", "ndim", "copy", "astype", "T", "dtype") and obj.mask.ndim == 1 and isinstance(obj.arr, SArr):
            return _arr_method(A.materialize(obj), name)
        if name == "rechunk":
            return lambda *a, **k: obj
        if name == "sum":
            def _msum(axis=None, **kw):
                # sum over the rows selected by a 1-d boolean mask on axis 0: uninterpreted, recorded as ghost state
                src = A.from_nested(obj.arr)
                if axis != 0 or obj.mask.ndim != 1:
                    raise Unsupported("masked sum other than rows-by-mask over axis 0")
                res = _uf_array("masked_sum", src.shape[1:], "real")
                GHOST.setdefault("masked_sum", []).append((res, src, obj.mask))
                return res
            return _msum
        if name == "mean":
            def _mmean(axis=None, **kw):
                # mean over the rows selected by a 1-d boolean mask on axis 0: an uninterpreted array; the selection
                # (source array, mask) is recorded as ghost state
                src = A.from_nested(obj.arr)
                if axis != 0 or obj.mask.ndim != 1:
                    raise Unsupported("masked mean other than rows-by-mask over axis 0")
                res = _uf_array("masked_mean", src.shape[1:], "real")
                GHOST.setdefault("masked_mean", []).append((res, src, obj.mask))
                return res
            return _mmean
        return NotImplemented
    if is_num(obj):
        if name == "real":
            return obj
        if name == "imag":
            return 0
        if name == "astype":
            return lambda dtype, **kw: DType("", _dt(dtype))(obj)
        if name == "item":
            return lambda: obj
        if name == "is_integer":
            return lambda: V.compare("==", V.to_real(V.floor_(obj)) if is_sym(obj) else math.floor(obj), obj)
        return NotImplemented
    if isinstance(obj, list):
        if name == "append" and interp.loop_stack and id(obj) in interp.loop_stack[-1].outer_lists:
            fr = interp.loop_stack[-1]

            def _append(v):
                fr.appends.setdefault(id(obj), (obj, []))[1].append(("one", v))
                fr.written.add(id(obj))
            return _append
        if name == "extend" and interp.loop_stack and id(obj) in interp.loop_stack[-1].outer_lists:
            fr = interp.loop_stack[-1]

            def _extend(it):
                L_ = _loops()
                if isinstance(it, X.RepList):
                    blk = L_.SList(it.n, (lambda e: lambda q: e)(it.elem))
                elif isinstance(it, L_.SList):
                    blk = it
                else:
                    blk = list(interp.iterate(it))
                fr.appends.setdefault(id(obj), (obj, []))[1].append(("block", blk))
                fr.written.add(id(obj))
            return _extend
        if name == "append":
            return obj.append
        if name == "extend":
            def _ext(it):
                L_ = _loops()
                if isinstance(it, X.RepList) or (isinstance(it, L_.SList) and not isinstance(it.n, int)):
                    blk = L_.SList(it.n, (lambda e: lambda q: e)(it.elem)) if isinstance(it, X.RepList) else it
                    interp.rebind(obj, L_.SList.concat(list(obj), blk), interp.current_env)
                    return None
                obj.extend(list(interp.iterate(it)))
            return _ext
        if name in ("pop", "insert", "index", "copy", "reverse", "clear", "count", "remove", "sort"):
            return getattr(obj, name)
    if isinstance(obj, tuple):
        if name in ("index", "count"):
            return getattr(obj, name)
    if isinstance(obj, dict):
        if name == "get":
            def _dget(k, default=None):
                kk = interp.dict_key(obj, k)
                return default if kk is X._MISSING else obj[kk]
            return _dget
        if name in ("get", "pop", "setdefault", "copy", "clear", "popitem"):
            if name in ("pop", "setdefault", "clear", "popitem"):
                def mut(*a, _n=name):
                    interp.frame_write(obj, a[0] if a else None)
                    return getattr(obj, _n)(*a)
                return mut
            return getattr(obj, name)
        if name == "update":
            def upd(*a, **k):
                interp.frame_write(obj, None)
                for x in a:
                    if isinstance(x, dict):
                        obj.update(x)
                        continue
                    for el in interp.iterate(x):
                        pair = list(interp.iterate(el))
                        if len(pair) != 2:
                            raise X.PyRaise(interp.make_exc(
                                "ValueError", f"dictionary update sequence element has length {len(pair)}; 2 is required"))
                        obj[pair[0]] = pair[1]
                obj.update(k)
            return upd
        if name == "keys":
            return lambda: list(obj.keys())
        if name == "values":
            return lambda: list(obj.values())
        if name == "items":
            return lambda: list(obj.items())
    if isinstance(obj, set):
        if name in ("add", "discard", "remove", "update", "union", "intersection", "difference", "copy"):
            return getattr(obj, name)
    if isinstance(obj, str):
        if name in ("format", "join", "startswith", "endswith", "lower", "upper", "split", "strip", "replace",
                    "translate", "maketrans", "islower", "isupper", "find", "count", "index"):
            return getattr(obj, name)
    if isinstance(obj, slice):
        if name in ("start", "stop", "step"):
            return getattr(obj, name)
        if name == "indices":
            return lambda n: _slice_indices(obj, n)
    if isinstance(obj, X.GenV) and name == "__next__":
        return lambda: B["next"](interp, obj)
    if isinstance(obj, (X.Closure, X.RepoFunc)):
        if name == "__name__":
            return obj.name if isinstance(obj, X.Closure) else obj.node.name
        if name in ("__module__", "__qualname__", "__doc__"):
            return ""
    if callable(obj) and not isinstance(obj, type) and name.startswith("__") and name.endswith("__"):
        try:
            return getattr(obj, name)
        except AttributeError:
            raise X.PyRaise(interp.make_exc("AttributeError", f"function has no attribute {name}"))
    if isinstance(obj, DType):
        if name == "kind":
            return {"real": "f", "int": "i", "bool": "b", "complex": "c"}[obj.kind]
        if name == "type":
            return obj
    if isinstance(obj, TypeTag):
        return NotImplemented
    if isinstance(obj, type) and name == "__name__":
        return obj.__name__
    return NotImplemented


def _slice_indices(sl, n):
    """slice.indices(n) for unit (or absent) step: Python's clamping rule, symbolic bounds allowed"""
    if not (sl.step is None or (isinstance(sl.step, int) and sl.step == 1)):
        if any(is_sym(x) for x in (sl.start, sl.stop, sl.step, n)):
            raise Unsupported("slice.indices with a symbolic non-unit step")
        return sl.indices(n)
    if not any(is_sym(x) for x in (sl.start, sl.stop, n)):
        return sl.indices(n)

    def clamp(v, default):
        if v is None:
            return default
        v = X._unfrac(v)
        neg = V.compare("<", v, 0)
        w = V.ite(neg, V.smax(V.arith("+", v, n), 0), V.smin(v, n))
        return w
    return (clamp(sl.start, 0), clamp(sl.stop, n), 1)


REG["__getattr__"] = _getattr_hook

B["__ctor__ndarray"] = lambda *a, **k: (_ for _ in ()).throw(Unsupported("ndarray()"))

# functools / itertools / misc -------------------------------------------------


@wants_interp
def _functools_reduce(interp, f, it, *init):
    items = list(interp.iterate(it))
    if init:
        r = init[0]
    else:
        if not items:
            raise X.PyRaise(interp.make_exc("TypeError", "reduce() of empty iterable with no initial value"))
        r = items.pop(0)
    for x in items:
        r = interp.call(f, [r, x], {})
    return r


REG["functools.reduce"] = _functools_reduce
REG["functools.lru_cache"] = lambda *a, **k: (a[0] if a and not k and not isinstance(a[0], int) and a[0] is not None else (lambda f: f))
REG["functools.wraps"] = lambda g: (lambda f: f)
REG["functools.partial"] = wants_interp(lambda interp, f, *a, **k: (lambda *b, **kk: interp.call(f, list(a) + list(b), {**k, **kk})))


@wants_interp
def _product(interp, *its, repeat=1):
    ls = [list(interp.iterate(i)) for i in its] * repeat
    return list(itertools.product(*ls))


REG["itertools.product"] = _product
REG["itertools.chain"] = wants_interp(lambda interp, *its: [x for it in its for x in interp.iterate(it)])
REG["warnings.warn"] = lambda *a, **k: None
REG["typing.TYPE_CHECKING"] = False
REG["typing.TypeVar"] = lambda *a, **k: None
REG["typing.overload"] = lambda f: f
REG["typing.NamedTuple"] = TypeTag("NamedTuple", lambda x: False)
REG["abc.abstractmethod"] = lambda f: f
REG["abc.ABC"] = TypeTag("ABC", lambda x: False)


# scipy.fft: shapes are exact, values are uninterpreted (fresh function per call) ------------------------------
def _uf_array(prefix, shape, kind="real"):
    la = V.loop_args()
    f = z3.Function(V.fresh_name(prefix), *([I] * (len(la) + len(shape))), R)
    arr = SArr(tuple(shape), lambda idx: Sym(f(*(la + [V.lift(i) for i in idx]))), kind)
    if kind == "complex":
        # a complex array is its real part (the array itself) plus a companion imaginary part
        g = z3.Function(V.fresh_name(prefix + "_im"), *([I] * (len(la) + len(shape))), R)
        arr.im = SArr(tuple(shape), lambda idx: Sym(g(*(la + [V.lift(i) for i in idx]))), "real")
    return arr


def _fft_shape(x, s):
    x = A.from_nested(x)
    if s is None:
        return tuple(x.shape)
    s = tuple(X._unfrac(v) for v in (s.to_list() if isinstance(s, SArr) else s))
    return tuple(x.shape[:x.ndim - len(s)]) + s


GHOST = {"fft": []}       # (op, result array, argument array, s) of FFT calls on the current path (reset per path)


def _ghost_fft(op, res, arg, s):
    GHOST["fft"].append((op, res, arg, s))
    return res


def _fftn(x, s=None, axes=None, **kw):
    return _ghost_fft("fftn", _uf_array("fftn", _fft_shape(x, s), "complex"), x, s)


def _ifftn(x, s=None, axes=None, **kw):
    return _ghost_fft("ifftn", _uf_array("ifftn", _fft_shape(x, s), "complex"), x, s)


def _rfftn(x, s=None, axes=None, **kw):
    shp = _fft_shape(x, s)
    return _ghost_fft("rfftn", _uf_array("rfftn", shp[:-1] + (V.arith("+", V.arith("//", shp[-1], 2), 1),), "complex"), x, s)


def _irfftn(x, s=None, axes=None, **kw):
    x = A.from_nested(x)
    if s is None:
        # scipy.fft: without `s` the last axis has length 2*(m-1) (measured: 1 when m == 1)
        m = x.shape[-1]
        shp = tuple(x.shape[:-1]) + (V.ite(V.compare("==", m, 1), 1, V.arith("*", 2, V.arith("-", m, 1))),)
    else:
        s = tuple(X._unfrac(v) for v in (s.to_list() if isinstance(s, SArr) else s))
        shp = tuple(x.shape[:x.ndim - len(s)]) + s
    return _ghost_fft("irfftn", _uf_array("irfftn", shp, "real"), x, s)


for _m in ("scipy.fft", "numpy.fft"):
    REG[_m + ".fftn"] = _fftn
    REG[_m + ".ifftn"] = _ifftn
    REG[_m + ".rfftn"] = _rfftn
    REG[_m + ".irfftn"] = _irfftn
    REG[_m + ".fftshift"] = REG["numpy.fft.fftshift"]
    REG[_m + ".ifftshift"] = REG["numpy.fft.ifftshift"]
    REG[_m + ".fftfreq"] = REG["numpy.fft.fftfreq"]
REG["acryo._typed_scipy.fftn"] = _fftn
REG["acryo._typed_scipy.ifftn"] = _ifftn
REG["acryo._typed_scipy.rfftn"] = _rfftn
REG["acryo._typed_scipy.irfftn"] = _irfftn


def _cumsum(a, axis=None, **kw):
    a = A.from_nested(a)
    return _uf_array("cumsum", a.shape, a.dtype if a.dtype != "bool" else "int")


REG["numpy.cumsum"] = _cumsum


def _sum_symbolic(a, axis):
    """sum over a symbolic extent: an uninterpreted value; the summed array and the axes are recorded as ghost
    state (GHOST['sum']) so that contracts can state *what* is summed"""
    if axis is None:
        r = V.fresh("Sum", "real")
        GHOST.setdefault("sum", []).append((r, a, None))
        return r
    ax = (axis,) if isinstance(axis, int) else tuple(axis)
    ax = tuple(x % a.ndim for x in ax)
    keep = [i for i in range(a.ndim) if i not in ax]
    res = _uf_array("SumAx", tuple(a.shape[i] for i in keep), "real")
    GHOST.setdefault("sum", []).append((res, a, ax))
    return res


SUM_HOOK[0] = _sum_symbolic

# scipy.ndimage (numerical kernels are uninterpreted; only shapes / index maps are modelled) ---------------
def _ndi_map_coordinates(input, coordinates, output=None, order=3, mode="constant", cval=0.0, prefilter=True):
    c = A.from_nested(coordinates)
    shp = c.shape[1:]
    f = z3.Function(V.fresh_name("mapcoord"), *([I] * len(shp)), R)
    return SArr(shp, lambda idx: Sym(f(*[V.lift(i) for i in idx])), "real")


REG["scipy.ndimage.map_coordinates"] = _ndi_map_coordinates

_INTERP = {}


def interp_sample(img, coords, order=3):
    """value of the order-`order` spline interpolant of `img` at real coordinates: an uninterpreted function per
    (array object, order).  Exactness at integer nodes / locality are separate lemmas, not built in."""
    key = (id(img), order if not is_sym(order) else "sym")
    if key not in _INTERP:
        _INTERP[key] = (img, z3.Function(V.fresh_name(f"Interp{order if not is_sym(order) else ''}"), R, R, R, R))
    f = _INTERP[key][1]
    args = [V.lift(V.to_real(c) if is_sym(c) else Fraction(c)) for c in coords]
    return Sym(f(*args))


def _ndi_affine_transform(input, matrix, offset=0, output_shape=None, output=None, order=3, mode="constant",
                          cval=0.0, prefilter=True):
    """trusted contract: output[o] = spline_order(input)(M o + t) for a homogeneous (ndim+1)x(ndim+1) or ndim x (ndim+1)
    matrix (scipy's documented semantics); output shape = output_shape or input.shape"""
    img = A.from_nested(input)
    M = A.from_nested(matrix)
    nd = img.ndim
    if nd != 3 or M.ndim != 2:
        raise Unsupported("affine_transform: only 3-d images with a 2-d matrix are modelled")
    mf = M.snapshot()
    shp = tuple(X._unfrac(s_) for s_ in output_shape) if output_shape is not None else tuple(img.shape)
    homog = (not isinstance(M.shape[1], int)) or M.shape[1] == nd + 1

    def fn(idx):
        coords = []
        for a in range(nd):
            t = 0
            for b in range(nd):
                t = V.arith("+", t, V.arith("*", mf((a, b)), idx[b]))
            if homog:
                t = V.arith("+", t, mf((a, nd)))
            coords.append(t)
        return interp_sample(img, coords, order)
    return SArr(shp, fn, "real")


for _m in ("scipy.ndimage", "acryo._typed_scipy"):
    REG[_m + ".affine_transform"] = _ndi_affine_transform
    REG[_m + ".map_coordinates"] = _ndi_map_coordinates
REG["scipy.ndimage.spline_filter"] = lambda input, order=3, output=None, mode="mirror": A.from_nested(input)
REG["acryo._typed_scipy.spline_filter"] = REG["scipy.ndimage.spline_filter"]

# dask.delayed: a delayed call is kept as a record and forced where dask would compute it ----------------------
class DelayedFn:
    _pyvc_native = True

    def __init__(self, func):
        self.func = func

    def __call__(self, *args, **kwargs):
        return DelayedCall(self.func, args, kwargs)


class DelayedCall:
    _pyvc_native = True

    def __init__(self, func, args, kwargs):
        self.func, self.args, self.kwargs = func, args, kwargs

    def _mentions(self, L):
        return _loops().mentions((self.args, self.kwargs), L)

    def _subst(self, L, j):
        sv = _loops().subst_value
        return DelayedCall(self.func, sv(self.args, L, j), sv(self.kwargs, L, j))


def force(interp, x):
    """compute a delayed value (deep over tuples / lists / symbolic lists)"""
    L_ = _loops()
    if isinstance(x, DelayedCall):
        return interp.call(x.func, [force(interp, a) for a in x.args], {k: force(interp, v) for k, v in x.kwargs.items()})
    if isinstance(x, tuple):
        return tuple(force(interp, v) for v in x)
    if isinstance(x, list):
        return [force(interp, v) for v in x]
    if isinstance(x, L_.SList) and not isinstance(x.n, int):
        si = L_.siter(x)
        return L_.summarize(interp, si[0], si[1], lambda el, Lc: force(interp, el), interp.current_env, collect_value=True)
    return x


REG["dask.delayed"] = lambda f=None, **kw: DelayedFn(f)
REG["dask.delayed.delayed"] = REG["dask.delayed"]
REG["dask.compute"] = wants_interp(lambda interp, *a, **k: tuple(force(interp, x) for x in a))
REG["dask.is_dask_collection"] = lambda x: isinstance(x, (SArr, DelayedCall))


@wants_interp
def _from_delayed(interp, value, shape, dtype=None, meta=None, name=None):
    """da.from_delayed(task, shape): dask does NOT check the declared shape; the array it reports has `shape` while
    computing it yields whatever the task returns -> obligation `declared shape == actual shape` (C10)"""
    v = force(interp, value)
    arr = A.from_nested(v)
    shape = tuple(X._unfrac(s_) for s_ in shape)
    if len(shape) != arr.ndim:
        interp.path.oblige(f"safety.declared_shape@L{interp.lineno}", False, {"kind": "safety", "line": interp.lineno, "clause": "declared shape == shape the task yields"})
    else:
        interp.path.oblige(f"safety.declared_shape@L{interp.lineno}",
                           V.sand(*[V.compare("==", a, b) for a, b in zip(shape, arr.shape)]) if shape else True,
                           {"kind": "safety", "line": interp.lineno, "clause": "declared shape == shape the task yields"})
    return arr


REG["dask.array.from_delayed"] = _from_delayed

# dask.array ------------------------------------------------------------------
REG["dask.array.pad"] = np_pad
def _da_dot(a, b):
    """dot over a possibly symbolic inner extent: uninterpreted result, the two factors recorded as ghost state"""
    a, b = A.from_nested(a), A.from_nested(b)
    if a.ndim == 2 and b.ndim == 2 and not isinstance(a.shape[1], int):
        res = _uf_array("Dot", (a.shape[0], b.shape[1]), "real")
        GHOST.setdefault("dot", []).append((res, a, b))
        return res
    return np_dot(a, b)


REG["dask.array.dot"] = _da_dot
REG["sklearn.utils.validation.check_is_fitted"] = lambda *a, **k: None
REG["dask.array.from_array"] = lambda x, *a, **k: A.from_nested(x)
REG["dask.array.asarray"] = lambda x, *a, **k: A.from_nested(x)
REG["dask.array.Array"] = TypeTag("dask.Array", lambda x: isinstance(x, SArr) and getattr(x, "lazy", True))
REG["dask.array.core.Array"] = REG["dask.array.Array"]
REG["dask.array.stack"] = np_stack

from . import rotation as _rotation
_rotation.register(REG)
from . import frames as _frames
_frames.register(REG)


def _atleast_2d(x):
    a = A.from_nested(x)
    if a.ndim >= 2:
        return a
    if a.ndim == 1:
        f = a.snapshot()
        return SArr((1, a.shape[0]), lambda idx: f((idx[1],)), a.dtype)
    return SArr((1, 1), lambda idx: a.at(()), a.dtype)


REG["numpy.atleast_2d"] = _atleast_2d
REG["dask.array.compute"] = lambda *a, **k: tuple(a)


# inspect.signature (only what acryo.pipe._curry uses: the kinds of the parameters) -----------------------------
class _ParamV:
    _pyvc_native = True
    POSITIONAL_ONLY, POSITIONAL_OR_KEYWORD, VAR_POSITIONAL, KEYWORD_ONLY, VAR_KEYWORD = 0, 1, 2, 3, 4

    def __init__(self, name, kind):
        self.name, self.kind = name, kind


class _SigV:
    _pyvc_native = True

    def __init__(self, params):
        self.parameters = {p.name: p for p in params}


def _inspect_signature(f):
    import ast as _ast
    if hasattr(f, "_pyvc_sig"):
        return _SigV([_ParamV(n, _ParamV.POSITIONAL_OR_KEYWORD) for n in f._pyvc_sig])
    node = None
    if isinstance(f, X.Closure):
        node = f.node
    elif isinstance(f, X.RepoFunc):
        node = f.node
    elif isinstance(f, X.BoundMethod):
        node = f.func.node
    if node is None:
        raise Unsupported("inspect.signature of this callable")
    a = node.args
    ps = [_ParamV(p.arg, _ParamV.POSITIONAL_ONLY) for p in a.posonlyargs]
    ps += [_ParamV(p.arg, _ParamV.POSITIONAL_OR_KEYWORD) for p in a.args]
    if isinstance(f, X.BoundMethod):
        ps = ps[1:]
    if a.vararg:
        ps.append(_ParamV(a.vararg.arg, _ParamV.VAR_POSITIONAL))
    ps += [_ParamV(p.arg, _ParamV.KEYWORD_ONLY) for p in a.kwonlyargs]
    if a.kwarg:
        ps.append(_ParamV(a.kwarg.arg, _ParamV.VAR_KEYWORD))
    return _SigV(ps)


REG["inspect.signature"] = _inspect_signature
REG["inspect.getargs"] = lambda code: (_ for _ in ()).throw(Unsupported("inspect.getargs"))
B["complex"] = TypeTag("complex", lambda x: isinstance(x, complex))
B["format"] = lambda v, spec="": X._to_str(v)


# scipy.ndimage filters / morphology: uninterpreted results of the input's shape; the call (name, args) is recorded as
# ghost state so that contracts can state with which pixel-unit parameters the library was invoked ----------------
def _ndi_recorded(name, kind="real"):
    def f(input, *args, **kwargs):
        a = A.from_nested(input)
        res = _uf_array("ndi_" + name, a.shape, kind)
        GHOST.setdefault("ndi", []).append((name, res, (input,) + tuple(args), dict(kwargs)))
        return res
    return f


for _nm, _k in (("binary_erosion", "bool"), ("binary_dilation", "bool"), ("binary_opening", "bool"),
                ("binary_closing", "bool"), ("distance_transform_edt", "real"), ("gaussian_filter", "real"),
                ("gaussian_laplace", "real"), ("maximum_filter", "real"), ("shift", "real"), ("zoom", "real")):
    REG["scipy.ndimage." + _nm] = _ndi_recorded(_nm, _k)
@reg("scipy.ndimage.label")
@wants_interp
def _ndi_label(interp, input, structure=None, output=None):
    """connected components: a label image of the input's shape and the number of components (any number >= 0)"""
    a = A.from_nested(input)
    n = V.fresh("n_components", "int")
    interp.path.assume(V.compare(">=", n, 0))
    return _uf_array("ndi_label", a.shape, "int"), n


@reg("scipy.ndimage.center_of_mass")
def _ndi_center_of_mass(input, labels=None, index=None):
    """one centre (a tuple of ndim coordinates, anywhere in the image) per requested label"""
    a = A.from_nested(input)
    if index is None:
        return tuple(V.fresh("com", "real") for _ in range(a.ndim))
    L = _loops()
    si = L.siter(index)
    nd = a.ndim
    f = z3.Function(V.fresh_name("com"), z3.IntSort(), z3.IntSort(), z3.RealSort())
    if si is None:
        items = list(index)
        return [tuple(Sym(f(z3.IntVal(i), z3.IntVal(c))) for c in range(nd)) for i in range(len(items))]
    out = L.SList(si[0], lambda i: tuple(Sym(f(V.lift(i), z3.IntVal(c))) for c in range(nd)))
    p = V.PATH[0]
    if p is not None:
        # trusted: with positive weights a component's centre of mass lies inside the image (in its bounding box)
        i = z3.Int(V.fresh_name("ci"))
        p.conds.append(z3.ForAll([i], z3.Implies(z3.And(i >= 0, i < V.lift(si[0])), z3.And(*[
            z3.And(f(i, z3.IntVal(c)) >= 0, f(i, z3.IntVal(c)) <= V.lift(a.shape[c]) - 1) for c in range(nd)]))))
    GHOST.setdefault("ndi", []).append(("center_of_mass_list", out, (input,), {}))
    return out


REG["acryo._typed_scipy.shift"] = REG["scipy.ndimage.shift"]
REG["acryo._typed_scipy.zoom"] = REG["scipy.ndimage.zoom"]


# numpy.random.Generator: only range and determinism are modelled -------------------------------------------------
class RngV:
    _pyvc_native = True

    def __init__(self, seed):
        self.seed = seed
        self.draws = 0

    def choice(self, a, size=None, replace=True, **kw):
        """`size` draws from a (1-d array or int): values of `a` at uninterpreted positions in range; the positions are a
        function of (seed, number of earlier draws): the same seed reproduces the same draws"""
        arr = A.from_nested(a) if not is_num(a) else None
        n = arr.shape[0] if arr is not None else a
        self.draws += 1
        seed_t = V.lift(self.seed) if self.seed is not None else z3.IntVal(-1)
        f = z3.Function(f"rng_choice_{self.draws}", z3.IntSort(), z3.IntSort(), z3.IntSort(), z3.IntSort())
        p = V.PATH[0]

        def pos(t):
            r = Sym(f(seed_t, V.lift(n), V.lift(t)))
            return r
        if p is not None:
            qt = z3.Int(V.fresh_name("draw"))
            p.conds.append(z3.ForAll([qt], z3.And(f(seed_t, V.lift(n), qt) >= 0, f(seed_t, V.lift(n), qt) < V.lift(n))))
        if size is None:
            return arr.at((pos(0),)) if arr is not None else pos(0)
        size = X._unfrac(size)
        af = arr.snapshot() if arr is not None else None
        return SArr((size,), lambda idx: af((pos(idx[0]),)) if af is not None else pos(idx[0]), "int")


def _rng_permutation(self, x):
    """a permutation of 0..n-1 (or of the entries of a 1-d array): uninterpreted bijection of the seed"""
    arr = A.from_nested(x) if not is_num(x) else None
    n = arr.shape[0] if arr is not None else X._unfrac(x)
    self.draws += 1
    seed_t = V.lift(self.seed) if self.seed is not None else z3.IntVal(-1)
    f = z3.Function(f"rng_perm_{self.draws}", z3.IntSort(), z3.IntSort(), z3.IntSort(), z3.IntSort())
    p = V.PATH[0]
    if p is not None:
        s_, t_ = z3.Int(V.fresh_name("ps")), z3.Int(V.fresh_name("pt"))
        nt = V.lift(n)
        p.conds.append(z3.ForAll([t_], z3.Implies(z3.And(t_ >= 0, t_ < nt),
                                                  z3.And(f(seed_t, nt, t_) >= 0, f(seed_t, nt, t_) < nt))))
        p.conds.append(z3.ForAll([s_, t_], z3.Implies(z3.And(s_ >= 0, s_ < nt, t_ >= 0, t_ < nt, s_ != t_),
                                                      f(seed_t, nt, s_) != f(seed_t, nt, t_))))
    af = arr.snapshot() if arr is not None else None
    return SArr((n,), lambda idx: af((Sym(f(seed_t, V.lift(n), V.lift(idx[0]))),)) if af is not None
                else Sym(f(seed_t, V.lift(n), V.lift(idx[0]))), "int")


RngV.permutation = _rng_permutation
REG["numpy.random.default_rng"] = lambda seed=None: RngV(seed)
REG["numpy.random.Generator"] = RngV


def _sum_labels(input, labels=None, index=None):
    """scipy.ndimage.sum_labels: out[t] = sum of input over the bins whose label equals index[t] (trusted); the result is
    uninterpreted and (input, labels, index) are recorded as ghost state"""
    idx = A.from_nested(index)
    res = _uf_array("sum_labels", idx.shape, "real")
    GHOST.setdefault("sum_labels", []).append((res, A.from_nested(input), A.from_nested(labels), idx))
    return res


REG["scipy.ndimage.sum_labels"] = _sum_labels
REG["acryo._typed_scipy.sum_labels"] = _sum_labels


def _max_symbolic(a):
    """max over a symbolic extent: a fresh value that bounds every element (attainment is not used)"""
    kind = "int" if a.dtype == "int" else "real"
    m = V.fresh("arrmax", kind)
    p = V.PATH[0]
    if p is not None:
        qs = [z3.Int(V.fresh_name("mx")) for _ in a.shape]
        rng = z3.And(*[z3.And(q >= 0, q < V.lift(s_)) for q, s_ in zip(qs, a.shape)])
        el = a.at(tuple(Sym(q) for q in qs))
        p.conds.append(z3.ForAll(qs, z3.Implies(rng, V.lift(el) <= m.t)))
    return m
