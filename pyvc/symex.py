"""pyvc symbolic executor: interprets the *real* source of repo functions (read from
/repo on every run via ast) over the value domain in values.py / arrays.py.

Path exploration is by re-execution: every symbolic branch asks ``Path.branch``;
the explorer replays a decision prefix and schedules the alternative.  Calls to
repo functions that have a sidecar contract are modular (assert requires, assume
ensures); others are inlined (and listed as such in the evidence).
"""
from __future__ import annotations

import ast
import hashlib
import os
import sys
from fractions import Fraction

import z3

from . import values as V
from .values import Sym, Unsupported, CheckerFault, is_sym, is_num
from . import arrays as A
from .arrays import SArr

REPO = os.environ.get("PYVC_REPO", "/repo")

# ---------------------------------------------------------------------------
# control-flow exceptions


class ReturnEx(Exception):
    def __init__(self, value):
        self.value = value


class BreakEx(Exception):
    pass


class ContinueEx(Exception):
    pass


class PyRaise(Exception):
    """A Python exception raised by the interpreted program."""

    def __init__(self, exc, lineno=None):
        self.exc = exc
        self.lineno = lineno

    def __str__(self):
        return f"PyRaise({self.exc!r})"


class Infeasible(Exception):
    """current path became infeasible"""


# ---------------------------------------------------------------------------
# paths


class Obligation:
    def __init__(self, name, hyps, goal, meta=None, opt=None):
        self.name, self.hyps, self.goal, self.meta = name, list(hyps), goal, meta or {}
        self.opt = list(opt or [])       # optional hypotheses (type invariants tried only when needed)


class Path:
    def __init__(self, prefix, explorer):
        self.prefix = list(prefix)
        self.taken = []
        self.conds = []          # z3 Bool terms assumed on this path (incl. preconditions)
        self.obligations = []
        self.explorer = explorer
        self.notes = []
        self.spec_depth = 0
        self.opt = []            # (group, z3 Bool): optional hypotheses, e.g. the SO(3) invariant

    # -- assumptions --------------------------------------------------------
    def assume(self, c):
        if isinstance(c, Sym):
            t = V._bool_term(c)
            # split top-level conjunctions (helps the relevance filter)
            stack = [t]
            while stack:
                x = stack.pop()
                if z3.is_and(x):
                    stack.extend(reversed(x.children()))
                else:
                    self.conds.append(x)
        elif not c:
            raise Infeasible()

    def assume_optional(self, group, c):
        if isinstance(c, Sym):
            self.opt.append((group, V._bool_term(c)))
        elif not c:
            raise Infeasible()

    def oblige(self, name, goal, meta=None, extra_hyps=()):
        if isinstance(goal, Sym):
            g = V._bool_term(goal)
        else:
            g = z3.BoolVal(bool(goal))
        if extra_hyps:
            g = z3.Implies(z3.And(*extra_hyps), g)
        used = {o.name for o in self.obligations}
        if name in used:
            k = 2
            while f"{name}#{k}" in used:
                k += 1
            name = f"{name}#{k}"
        self.obligations.append(Obligation(name, self.conds, g, meta, [c for _, c in self.opt]))

    # -- branching ---------------------------------------------------------
    def branch(self, c):
        if not isinstance(c, Sym):
            return bool(c)
        t = z3.simplify(V._bool_term(c))
        if z3.is_true(t):
            return True
        if z3.is_false(t):
            return False
        it = getattr(self, "interp", None)
        if it is not None and it.loop_stack and not it.in_raise_branch:
            from . import loops as _loops
            if any(_loops._term_mentions(t, fr.L) for fr in it.loop_stack):
                # decided the same way in every iteration (under the facts of the generic iteration)?
                i = len(self.taken)
                if i < len(self.prefix):
                    choice = self.prefix[i]
                else:
                    can_t = self.explorer.feasible(self.conds + [t])
                    can_f = self.explorer.feasible(self.conds + [z3.Not(t)])
                    if can_t and can_f:
                        raise Unsupported("iteration-dependent branch inside a summarised loop (needs an explicit invariant)")
                    if not can_t and not can_f:
                        raise Infeasible()
                    choice = can_t
                self.taken.append(choice)
                return choice
        i = len(self.taken)
        if i < len(self.prefix):
            choice = self.prefix[i]
        else:
            can_t = self.explorer.feasible(self.conds + [t])
            can_f = self.explorer.feasible(self.conds + [z3.Not(t)])
            if can_t and can_f:
                choice = True
                self.explorer.schedule(self.taken + [False])
            elif can_t:
                choice = True
            elif can_f:
                choice = False
            else:
                raise Infeasible()
        self.taken.append(choice)
        self.conds.append(t if choice else z3.Not(t))
        return choice


class PathResult:
    def __init__(self, path, kind, value=None, exc=None, env=None):
        self.path, self.kind, self.value, self.exc, self.env = path, kind, value, exc, env


class Explorer:
    def __init__(self, max_paths=400, feas_timeout_ms=2000):
        self.work = []
        self.max_paths = max_paths
        self.solver = z3.Solver()
        self.solver.set("timeout", feas_timeout_ms)
        self.n_feas = 0

    def schedule(self, prefix):
        self.work.append(list(prefix))

    def feasible(self, conds):
        # quantifier-free conjuncts only (over-approximation of feasibility is sound)
        qf = [c for c in conds if not _has_quant(c)]
        self.n_feas += 1
        self.solver.push()
        try:
            self.solver.add(*qf)
            r = self.solver.check()
        finally:
            self.solver.pop()
        return r != z3.unsat

    def run(self, body):
        """body(path) -> value; returns list[PathResult]"""
        results = []
        self.work = [[]]
        while self.work:
            if len(results) >= self.max_paths:
                raise CheckerFault(f"more than {self.max_paths} paths")
            prefix = self.work.pop()
            p = Path(prefix, self)
            V.set_path(p)
            try:
                val = body(p)
                results.append(PathResult(p, "return", value=val))
            except PyRaise as e:
                results.append(PathResult(p, "raise", exc=e.exc))
            except Infeasible:
                results.append(PathResult(p, "dead"))
            finally:
                V.set_path(None)
        return results


def _has_quant(t):
    seen = set()
    stack = [t]
    while stack:
        x = stack.pop()
        if z3.is_quantifier(x):
            return True
        i = x.get_id()
        if i in seen:
            continue
        seen.add(i)
        stack.extend(x.children())
    return False


# ---------------------------------------------------------------------------
# program objects


class RepoFunc:
    def __init__(self, module, node, qualname, cls=None):
        self.module, self.node, self.qualname, self.cls = module, node, qualname, cls
        self.kind = "function"       # 'function' | 'staticmethod' | 'classmethod' | 'property'
        self.decorators = []
        self.is_generator = any(isinstance(n, (ast.Yield, ast.YieldFrom)) for n in _walk_own(node))

    @property
    def key(self):
        return f"{self.module.name}:{self.qualname}"

    def __repr__(self):
        return f"<repo {self.key}>"

    def source_hash(self):
        seg = ast.get_source_segment(self.module.source, self.node) or ""
        return hashlib.sha256(seg.encode()).hexdigest()[:16]


def _walk_own(fn_node):
    """walk a function body without descending into nested defs / lambdas / classes"""
    stack = list(fn_node.body)
    while stack:
        n = stack.pop()
        yield n
        for c in ast.iter_child_nodes(n):
            if isinstance(c, (ast.FunctionDef, ast.AsyncFunctionDef, ast.Lambda, ast.ClassDef)):
                continue
            stack.append(c)


class Closure:
    """nested def / lambda with captured environment"""

    def __init__(self, node, env, module, interp_name="<lambda>"):
        self.node, self.env, self.module, self.name = node, env, module, interp_name
        self.is_generator = (not isinstance(node, ast.Lambda)) and any(
            isinstance(n, (ast.Yield, ast.YieldFrom)) for n in _walk_own(node))
        self.wrapped = None


class BoundMethod:
    def __init__(self, func, self_obj):
        self.func, self.self_obj = func, self_obj


class RepoClass:
    def __init__(self, module, node):
        self.module, self.node, self.name = module, node, node.name
        self.methods = {}
        self.class_attrs = {}
        self.class_attr_nodes = {}
        self._bases = None
        self.fields = []          # annotated field names in order (NamedTuple / dataclass style)
        self.field_defaults = {}

    @property
    def key(self):
        return f"{self.module.name}:{self.name}"

    def bases(self, interp):
        if self._bases is None:
            bs = []
            for b in self.node.bases:
                if isinstance(b, ast.Subscript):      # Generic[...] parameterisation: DaskTaskList[_R] -> DaskTaskList
                    b = b.value
                try:
                    v = interp.eval_in_module(self.module, b)
                except Unsupported:
                    v = None
                if isinstance(v, (RepoClass, ExcClass)) or isinstance(v, type):
                    bs.append(v)
            self._bases = bs
        return self._bases

    def mro(self, interp):
        out = [self]
        for b in self.bases(interp):
            if isinstance(b, RepoClass):
                for c in b.mro(interp):
                    if c not in out:
                        out.append(c)
            elif b not in out:
                out.append(b)
        return out

    def lookup(self, interp, name):
        for c in self.mro(interp):
            if isinstance(c, RepoClass):
                if name in c.methods:
                    return c.methods[name]
                if name in c.class_attr_nodes:
                    return c.get_class_attr(interp, name)
        return None

    def get_class_attr(self, interp, name):
        if name not in self.class_attrs:
            node = self.class_attr_nodes[name]
            if isinstance(node, ast.Name) and node.id in self.methods:
                # `alias = method` in the class body
                self.class_attrs[name] = self.methods[node.id]
            else:
                self.class_attrs[name] = interp.eval_in_module(self.module, node)
        return self.class_attrs[name]

    def __repr__(self):
        return f"<repoclass {self.key}>"


class ExcClass:
    """builtin exception classes"""

    def __init__(self, name, base=None):
        self.name, self.base = name, base

    def issub(self, other):
        c = self
        while c is not None:
            if c is other:
                return True
            c = c.base
        return False

    def __repr__(self):
        return f"<exc {self.name}>"


class Obj:
    """instance of a repo class (or builtin exception)"""

    def __init__(self, cls, attrs=None):
        self.cls = cls
        self.attrs = dict(attrs or {})
        A._STAMP[0] += 1
        self._stamp = A._STAMP[0]

    def __repr__(self):
        n = self.cls.name if hasattr(self.cls, "name") else str(self.cls)
        return f"<obj {n} {list(self.attrs)[:6]}>"


class SuperProxy:
    def __init__(self, obj, after_cls):
        self.obj, self.after_cls = obj, after_cls


class GenV:
    """one-shot iterator (generator expression / generator function result)"""

    def __init__(self, items):
        self.items = list(items)
        self.consumed = False

    def __iter__(self):
        if self.consumed:
            return iter(())
        self.consumed = True
        return iter(self.items)


_MISSING = object()


class RepList:
    """[x] * n for a symbolic n"""

    def __init__(self, elem, n):
        self.elem, self.n = elem, n


class Opaque:
    def __init__(self, name):
        self.name = name

    def __repr__(self):
        return f"<opaque {self.name}>"


class StubModule:
    def __init__(self, name, registry):
        self._name, self._registry = name, registry

    def get(self, attr):
        full = f"{self._name}.{attr}"
        if full in self._registry:
            return self._registry[full]
        if any(k.startswith(full + ".") for k in self._registry):
            return StubModule(full, self._registry)
        return Opaque(full)


BUILTIN_EXC = {}
for _n, _b in [("BaseException", None), ("Exception", "BaseException"), ("ValueError", "Exception"),
               ("TypeError", "Exception"), ("IndexError", "Exception"), ("KeyError", "Exception"),
               ("RuntimeError", "Exception"), ("NotImplementedError", "RuntimeError"),
               ("ZeroDivisionError", "Exception"), ("StopIteration", "Exception"),
               ("AttributeError", "Exception"), ("AssertionError", "Exception"),
               ("DeprecationWarning", "Exception"), ("UserWarning", "Exception"),
               ("FileNotFoundError", "Exception"), ("OverflowError", "Exception"),
               # polars exceptions (polars.exceptions.*), as far as the frame contract raises them
               ("PolarsError", "Exception"), ("ShapeError", "PolarsError"), ("ColumnNotFoundError", "PolarsError"),
               ("DuplicateError", "PolarsError"), ("SchemaError", "PolarsError"), ("OutOfBoundsError", "PolarsError")]:
    BUILTIN_EXC[_n] = ExcClass(_n, BUILTIN_EXC.get(_b))


class ModuleEnv:
    """lazily-evaluated namespace of one repo module"""

    def __init__(self, interp, name):
        self.interp, self.name = interp, name
        path = os.path.join(REPO, *name.split("."))
        if os.path.isdir(path):
            path = os.path.join(path, "__init__.py")
            self.is_pkg = True
        else:
            path = path + ".py"
            self.is_pkg = False
        self.path = path
        with open(path) as f:
            self.source = f.read()
        self.tree = ast.parse(self.source)
        self.sha256 = hashlib.sha256(self.source.encode()).hexdigest()
        self.lazy = {}       # name -> thunk
        self.values = {}
        self._scan(self.tree.body)

    def _pkg(self):
        return self.name if self.is_pkg else self.name.rsplit(".", 1)[0]

    def _scan(self, body):
        interp = self.interp
        for st in body:
            if isinstance(st, ast.Import):
                for a in st.names:
                    nm = a.asname or a.name.split(".")[0]
                    target = a.name if a.asname else a.name.split(".")[0]
                    self.lazy[nm] = (lambda t=target: interp.import_module(t))
            elif isinstance(st, ast.ImportFrom):
                if st.level:
                    base = self._pkg().split(".")
                    if st.level > 1:
                        base = base[: -(st.level - 1)]
                    mod = ".".join(base + ([st.module] if st.module else []))
                else:
                    mod = st.module
                for a in st.names:
                    nm = a.asname or a.name
                    self.lazy[nm] = (lambda m=mod, n=a.name: interp.import_from(m, n))
            elif isinstance(st, ast.FunctionDef):
                if any(_dec_name(d) == "overload" for d in st.decorator_list):
                    continue
                self.lazy[st.name] = (lambda s=st: interp.make_function(self, s, s.name, None))
            elif isinstance(st, ast.ClassDef):
                self.lazy[st.name] = (lambda s=st: interp.make_class(self, s))
            elif isinstance(st, ast.Assign):
                for t in st.targets:
                    if isinstance(t, ast.Name):
                        self.lazy[t.id] = (lambda v=st.value: interp.eval_in_module(self, v))
                    elif isinstance(t, ast.Tuple) and all(isinstance(e, ast.Name) for e in t.elts):
                        for k, e in enumerate(t.elts):
                            self.lazy[e.id] = (lambda v=st.value, k=k: interp.eval_in_module(self, v)[k])
            elif isinstance(st, ast.AnnAssign) and st.value is not None and isinstance(st.target, ast.Name):
                self.lazy[st.target.id] = (lambda v=st.value: interp.eval_in_module(self, v))
            elif isinstance(st, ast.If):
                # `if TYPE_CHECKING:` blocks are dropped; other module-level ifs: scan both arms
                t = st.test
                if isinstance(t, ast.Name) and t.id == "TYPE_CHECKING":
                    self._scan(st.orelse)
                else:
                    self._scan(st.body)
                    self._scan(st.orelse)
            elif isinstance(st, ast.Try):
                self._scan(st.body)

    def has(self, name):
        return name in self.values or name in self.lazy

    def get(self, name):
        if name in self.values:
            return self.values[name]
        if name in self.lazy:
            v = self.lazy[name]()
            self.values[name] = v
            return v
        raise KeyError(name)


def _dec_name(d):
    if isinstance(d, ast.Call):
        d = d.func
    if isinstance(d, ast.Attribute):
        return d.attr
    if isinstance(d, ast.Name):
        return d.id
    return ""


class Env:
    def __init__(self, vars=None, parent=None, module=None):
        self.vars = vars if vars is not None else {}
        self.parent = parent
        self.module = module

    def lookup(self, name):
        e = self
        while e is not None:
            if name in e.vars:
                return e.vars[name]
            e = e.parent
        raise KeyError(name)

    def find(self, name):
        e = self
        while e is not None:
            if name in e.vars:
                return e
            e = e.parent
        return None


IGNORED_DECORATORS = {"lru_cache", "cache", "abstractmethod", "wraps", "contextmanager_NOT"}


class Interp:
    def __init__(self, stubs, contracts=None):
        self.modules = {}
        self.stubs = stubs            # registry: dotted name -> value
        self.builtins = stubs.get("__builtins__", {})
        self.contracts = contracts or {}
        self.path = None
        self.spec = 0                 # >0: evaluating a contract expression
        self.inlined = set()
        self.modular_calls = set()
        self.current_target = None
        self.depth = 0
        self.max_depth = 40
        self.cached_calls = set()     # lru_cache'd repo functions called on this path (their results are frozen)
        self.call_hooks = {}          # qualname -> python callable(interp, args, kwargs) replacing the function
        self.safety = True
        self.loop_invariants = {}
        self.lineno = 0
        self.trace_calls = []
        self.call_log = []            # (callee key, bound args, result) of modular calls on the current path
        self.loop_stack = []          # generic-iteration frames of summarised loops (loops.py)
        self.current_env = None
        self.in_raise_branch = 0

    # -- modules -----------------------------------------------------------
    def module(self, name):
        if name not in self.modules:
            self.modules[name] = ModuleEnv(self, name)
        return self.modules[name]

    def is_repo_module(self, name):
        p = os.path.join(REPO, *name.split("."))
        return name.split(".")[0] == "acryo" and (os.path.isdir(p) or os.path.exists(p + ".py"))

    def import_module(self, name):
        if name in self.stubs:
            return self.stubs[name]
        if self.is_repo_module(name):
            return self.module(name)
        return StubModule(name, self.stubs)

    def import_from(self, mod, name):
        full = f"{mod}.{name}"
        if full in self.stubs:
            return self.stubs[full]
        if self.is_repo_module(mod):
            m = self.module(mod)
            if m.has(name):
                return m.get(name)
            if self.is_repo_module(full):
                return self.module(full)
            raise Unsupported(f"cannot import {name} from {mod}")
        if any(k.startswith(full + ".") for k in self.stubs):
            return StubModule(full, self.stubs)
        return Opaque(full)

    def resolve(self, key, raw=False):
        """'acryo._utils:make_slice_and_pad' or 'acryo.mod:Class.method' -> RepoFunc/RepoClass.
        raw=True: the function as written, without applying its (non-ignored) decorators."""
        mod, qn = key.split(":")
        m = self.module(mod)
        parts = qn.split(".")
        if raw and len(parts) == 1:
            for st in m.tree.body:
                if isinstance(st, ast.FunctionDef) and st.name == parts[0] and \
                        any(_dec_name(d) not in IGNORED_DECORATORS and _dec_name(d) != "overload"
                            for d in st.decorator_list):
                    return RepoFunc(m, st, st.name, None)
        try:
            v = m.get(parts[0])
        except KeyError:
            raise CheckerFault(f"{key}: no such object in {m.path}")
        for p in parts[1:]:
            if isinstance(v, RepoClass):
                w = v.methods.get(p)
                if w is None:
                    raise CheckerFault(f"{key}: no method {p}")
                v = w
            else:
                raise CheckerFault(f"{key}: cannot descend into {v}")
        return v

    def make_function(self, module, node, qualname, cls):
        f = RepoFunc(module, node, qualname, cls)
        for d in node.decorator_list:
            n = _dec_name(d)
            if n in ("staticmethod", "classmethod", "property"):
                f.kind = n
            elif n in IGNORED_DECORATORS or n.endswith("setter") or n == "overload":
                if n in ("lru_cache", "cache"):
                    f.cached = True
                if n.endswith("setter") or (isinstance(d, ast.Attribute) and d.attr == "setter"):
                    f.kind = "setter"
            else:
                f.decorators.append(d)
        if f.decorators and cls is None:
            # apply remaining decorators by interpretation (bottom-up)
            val = f
            for d in reversed(f.decorators):
                dec = self.eval_in_module(module, d)
                val = self.call(dec, [val], {})
            return val
        return f

    def make_class(self, module, node):
        c = RepoClass(module, node)
        for st in node.body:
            if isinstance(st, ast.FunctionDef):
                if any(_dec_name(d) == "overload" for d in st.decorator_list):
                    continue
                fn = RepoFunc(module, st, f"{node.name}.{st.name}", c)
                is_setter = False
                for d in st.decorator_list:
                    n = _dec_name(d)
                    if n in ("staticmethod", "classmethod", "property"):
                        fn.kind = n
                    elif isinstance(d, ast.Attribute) and d.attr == "setter":
                        is_setter = True
                    elif n in IGNORED_DECORATORS:
                        if n in ("lru_cache", "cache"):
                            fn.cached = True
                    else:
                        fn.decorators.append(d)
                if is_setter:
                    c.methods["__set__" + st.name] = fn
                else:
                    c.methods[st.name] = fn
            elif isinstance(st, ast.Assign):
                for t in st.targets:
                    if isinstance(t, ast.Name):
                        c.class_attr_nodes[t.id] = st.value
            elif isinstance(st, ast.AnnAssign) and isinstance(st.target, ast.Name):
                c.fields.append(st.target.id)
                if st.value is not None:
                    c.class_attr_nodes[st.target.id] = st.value
                    c.field_defaults[st.target.id] = st.value
        c.is_namedtuple = any(_dec_name(b) == "NamedTuple" for b in node.bases)
        return c

    def eval_in_module(self, module, node):
        env = Env({}, None, module)
        return self.eval(node, env)

    # -- names ---------------------------------------------------------------
    def lookup(self, name, env):
        e = env
        while e is not None:
            if name in e.vars:
                return e.vars[name]
            last = e
            e = e.parent
        mod = self._env_module(env)
        if mod is not None and mod.has(name):
            return mod.get(name)
        if name in self.builtins:
            return self.builtins[name]
        if name in BUILTIN_EXC:
            return BUILTIN_EXC[name]
        raise Unsupported(f"name {name!r} is not defined / not modelled (module {mod.name if mod else None})")

    def _env_module(self, env):
        e = env
        while e is not None:
            if e.module is not None:
                return e.module
            e = e.parent
        return None

    # -- calls -------------------------------------------------------------
    def bind_args(self, node_args, args, kwargs, env_for_defaults, fname="?"):
        """Python argument binding for an ast.arguments"""
        a = node_args
        params = [p.arg for p in a.posonlyargs + a.args]
        bound = {}
        args = list(args)
        kwargs = dict(kwargs)
        n_pos = len(params)
        for name, val in zip(params, args):
            bound[name] = val
        extra = args[n_pos:]
        if a.vararg:
            bound[a.vararg.arg] = tuple(extra)
        elif extra:
            raise PyRaise(self.make_exc("TypeError", f"{fname}() takes {n_pos} positional arguments"))
        defaults = a.defaults
        first_default = n_pos - len(defaults)
        for i, name in enumerate(params):
            if name in bound:
                if name in kwargs:
                    raise PyRaise(self.make_exc("TypeError", f"{fname}() got multiple values for {name}"))
                continue
            if name in kwargs:
                bound[name] = kwargs.pop(name)
            elif i >= first_default:
                bound[name] = self.eval(defaults[i - first_default], env_for_defaults)
            else:
                raise PyRaise(self.make_exc("TypeError", f"{fname}() missing argument {name}"))
        for p, d in zip(a.kwonlyargs, a.kw_defaults):
            if p.arg in kwargs:
                bound[p.arg] = kwargs.pop(p.arg)
            elif d is not None:
                bound[p.arg] = self.eval(d, env_for_defaults)
            else:
                raise PyRaise(self.make_exc("TypeError", f"{fname}() missing keyword-only argument {p.arg}"))
        if a.kwarg:
            bound[a.kwarg.arg] = dict(kwargs)
        elif kwargs:
            raise PyRaise(self.make_exc("TypeError", f"{fname}() got an unexpected keyword argument {list(kwargs)[0]}"))
        return bound

    def make_exc(self, clsname, *args):
        return Obj(BUILTIN_EXC[clsname], {"args": tuple(args)})

    def call(self, f, args, kwargs):
        if isinstance(f, BoundMethod):
            return self.call(f.func, [f.self_obj] + list(args), kwargs)
        if isinstance(f, RepoFunc):
            return self.call_repo(f, args, kwargs)
        if isinstance(f, Closure):
            return self.call_closure(f, args, kwargs)
        if isinstance(f, RepoClass):
            return self.instantiate(f, args, kwargs)
        if isinstance(f, ExcClass):
            return Obj(f, {"args": tuple(args)})
        if isinstance(f, Opaque):
            raise Unsupported(f"call of unmodelled {f.name}")
        if isinstance(f, Obj):
            m = self.getattr(f, "__call__")
            return self.call(m, args, kwargs)
        if callable(f):
            if getattr(f, "_wants_interp", False):
                return f(self, *args, **kwargs)
            return f(*args, **kwargs)
        raise Unsupported(f"call of {f!r}")

    def instantiate(self, cls, args, kwargs):
        obj = Obj(cls, {})
        if getattr(cls, "is_namedtuple", False):
            fields = list(cls.fields)
            vals = dict(zip(fields, args))
            for k, v in kwargs.items():
                if k not in fields or k in vals:
                    raise PyRaise(self.make_exc("TypeError", f"{cls.name}() got an unexpected/duplicate argument {k}"))
                vals[k] = v
            for f in fields:
                if f not in vals:
                    if f in cls.field_defaults:
                        vals[f] = self.eval_in_module(cls.module, cls.field_defaults[f])
                    else:
                        raise PyRaise(self.make_exc("TypeError", f"{cls.name}() missing argument {f}"))
            if len(args) > len(fields):
                raise PyRaise(self.make_exc("TypeError", f"{cls.name}() takes {len(fields)} arguments"))
            obj.attrs.update(vals)
            obj.attrs["_fields"] = tuple(fields)
            return obj
        init = cls.lookup(self, "__init__")
        if init is not None:
            self.call(init, [obj] + list(args), kwargs)
        else:
            # builtin exception base?
            for b in cls.mro(self):
                if isinstance(b, ExcClass):
                    obj.attrs["args"] = tuple(args)
        return obj

    def call_repo(self, f, args, kwargs):
        key = f.key
        if key in self.call_hooks:
            return self.call_hooks[key](self, f, args, kwargs)
        c = self.contracts.get(key)
        if (c is not None and key != self.current_target and not getattr(c, "inline", False) and not self.spec
                and (c.result is not None or c.trusted or not c.verify)):
            # (a contract without a result builder cannot stand for the call: the body is executed instead)
            return self.modular_call(f, c, args, kwargs)
        if key != self.current_target:
            self.inlined.add(key)
        res = self.exec_function(f, args, kwargs)
        if getattr(f, "cached", False):
            self.freeze(res)
            self.cached_calls.add(f.key)
        return res

    def exec_function(self, f, args, kwargs, pre_bound=None):
        if self.depth > self.max_depth:
            raise Unsupported("call depth exceeded")
        modenv = Env({}, None, f.module)
        bound = pre_bound if pre_bound is not None else self.bind_args(f.node.args, args, kwargs, modenv, f.qualname)
        env = Env(dict(bound), modenv)
        if f.cls is not None:
            env.vars.setdefault("__class__", f.cls)
        self.depth += 1
        try:
            if f.is_generator:
                items = []
                env.vars["__yield__"] = items
                try:
                    self.exec_block(f.node.body, env)
                except ReturnEx:
                    pass
                ys = env.vars["__yield__"]
                return GenV(ys) if isinstance(ys, list) else ys     # (a symbolic-length sequence of yields)
            try:
                self.exec_block(f.node.body, env)
            except ReturnEx as r:
                return r.value
            return None
        finally:
            self.depth -= 1

    def call_closure(self, c, args, kwargs):
        node = c.node
        bound = self.bind_args(node.args, args, kwargs, c.env, c.name)
        env = Env(dict(bound), c.env)
        if isinstance(node, ast.Lambda):
            return self.eval(node.body, env)
        self.depth += 1
        try:
            if c.is_generator:
                items = []
                env.vars["__yield__"] = items
                try:
                    self.exec_block(node.body, env)
                except ReturnEx:
                    pass
                ys = env.vars["__yield__"]
                return GenV(ys) if isinstance(ys, list) else ys     # (a symbolic-length sequence of yields)
            try:
                self.exec_block(node.body, env)
            except ReturnEx as r:
                return r.value
            return None
        finally:
            self.depth -= 1

    # modular call: assert requires / assume ensures ------------------------------
    def modular_call(self, f, c, args, kwargs):
        self.modular_calls.add(f.key)
        modenv = Env({}, None, f.module)
        bound = self.bind_args(f.node.args, args, kwargs, modenv, f.qualname)
        res = c.apply_at_call(self, f, bound)
        if getattr(f, "cached", False):
            self.freeze(res)
            self.cached_calls.add(f.key)
        return res

    # -- attribute access --------------------------------------------------
    def getattr(self, obj, name):
        if type(obj).__name__ == "DType" and name == "kind":
            # numpy's one-letter kind code (the stub's own `kind` field is the executor's value kind)
            return {"real": "f", "int": "i", "bool": "b", "complex": "c", "object": "O"}.get(obj.kind, "f")
        if getattr(obj, "_pyvc_native", False):
            try:
                return getattr(obj, name)
            except AttributeError:
                raise PyRaise(self.make_exc("AttributeError", f"{obj!r} has no attribute {name}"))
        if isinstance(obj, Obj):
            if name in obj.attrs:
                return obj.attrs[name]
            cls = obj.cls
            if isinstance(cls, RepoClass):
                m = cls.lookup(self, name)
                if isinstance(m, RepoFunc):
                    if m.kind == "property":
                        return self.call_repo(m, [obj], {})
                    if m.kind == "staticmethod":
                        return m
                    if m.kind == "classmethod":
                        return BoundMethod(m, cls)
                    return BoundMethod(m, obj)
                if m is not None:
                    return m
                # exception base attributes
                if name == "args":
                    return obj.attrs.get("args", ())
                if name == "__class__":
                    return cls
            if isinstance(cls, ExcClass):
                if name == "args":
                    return obj.attrs.get("args", ())
            if name == "__class__":
                return cls
            h = self.stubs.get("__objattr__")
            if h is not None:
                r = h(self, obj, name)
                if r is not NotImplemented:
                    return r
            if isinstance(cls, RepoClass):
                # an object a contract built attribute by attribute (not through __init__): an attribute that every
                # __init__ of the class hierarchy sets to a literal constant has that value
                for c in cls.mro(self):
                    init = c.methods.get("__init__") if isinstance(c, RepoClass) else None
                    if init is None:
                        continue
                    for node in ast.walk(init.node):
                        tgt = None
                        if isinstance(node, ast.Assign) and len(node.targets) == 1:
                            tgt, val = node.targets[0], node.value
                        elif isinstance(node, ast.AnnAssign) and node.value is not None:
                            tgt, val = node.target, node.value
                        if (isinstance(tgt, ast.Attribute) and isinstance(tgt.value, ast.Name) and tgt.value.id == "self"
                                and tgt.attr == name and isinstance(val, ast.Constant)):
                            obj.attrs[name] = val.value
                            return val.value
            raise PyRaise(self.make_exc("AttributeError", f"{obj!r} has no attribute {name}"))
        if isinstance(obj, SuperProxy):
            mro = obj.obj.cls.mro(self)
            i = mro.index(obj.after_cls)
            for c in mro[i + 1:]:
                if isinstance(c, RepoClass) and name in c.methods:
                    return BoundMethod(c.methods[name], obj.obj)
                if isinstance(c, ExcClass) and name == "__init__":
                    o = obj.obj
                    return lambda *a, **k: o.attrs.__setitem__("args", tuple(a))
            if name == "__init__":
                return lambda *a, **k: None
            raise Unsupported(f"super().{name}")
        if isinstance(obj, RepoClass):
            m = obj.lookup(self, name)
            if m is None:
                if name == "__name__":
                    return obj.name
                raise Unsupported(f"class attribute {obj.name}.{name}")
            if isinstance(m, RepoFunc) and m.kind == "classmethod":
                return BoundMethod(m, obj)
            return m
        if isinstance(obj, ModuleEnv):
            if obj.has(name):
                return obj.get(name)
            sub = f"{obj.name}.{name}"
            if self.is_repo_module(sub):
                return self.module(sub)
            raise Unsupported(f"module {obj.name} has no attribute {name}")
        if isinstance(obj, StubModule):
            return obj.get(name)
        if isinstance(obj, Opaque):
            return Opaque(f"{obj.name}.{name}")
        h = self.stubs.get("__getattr__")
        if h is not None:
            r = h(self, obj, name)
            if r is not NotImplemented:
                return r
        raise Unsupported(f"attribute {name!r} of {type(obj).__name__}")

    def setattr(self, obj, name, value):
        if isinstance(obj, Obj):
            cls = obj.cls
            if isinstance(cls, RepoClass):
                setter = cls.lookup(self, "__set__" + name)
                if isinstance(setter, RepoFunc):
                    self.call_repo(setter, [obj, value], {})
                    return
            self.frame_write(obj, name)
            obj.attrs[name] = value
            return
        if callable(obj) and not isinstance(obj, (type, Obj)) and name.startswith("__") and name.endswith("__") \
                and not isinstance(obj, Closure):
            return        # metadata of a plain callable
        if isinstance(obj, Closure) and name.startswith("__") and name.endswith("__"):
            # function metadata (__name__, __doc__, ...) has no semantic effect
            if name == "__name__":
                obj.name = value if isinstance(value, str) else obj.name
            return
        h = self.stubs.get("__setattr__")
        if h is not None and h(self, obj, name, value) is not NotImplemented:
            return
        raise Unsupported(f"setattr on {type(obj).__name__}")

    def rebind(self, old, new, env):
        """replace every reference to list `old` reachable from the environment by `new`"""
        seen = set()

        def fix_obj(o, depth):
            if id(o) in seen or depth > 3:
                return
            seen.add(id(o))
            if isinstance(o, Obj):
                for k, v in list(o.attrs.items()):
                    if v is old:
                        o.attrs[k] = new
                    else:
                        fix_obj(v, depth + 1)
            elif isinstance(o, dict):
                for k, v in list(o.items()):
                    if v is old:
                        o[k] = new
                    else:
                        fix_obj(v, depth + 1)
            elif isinstance(o, list):
                for i, v in enumerate(o):
                    if v is old:
                        o[i] = new
        e = env
        while e is not None:
            for k, v in list(e.vars.items()):
                if v is old:
                    e.vars[k] = new
                else:
                    fix_obj(v, 0)
            e = e.parent

    def outer_lists(self, env):
        """ids of list objects reachable from the environment (they exist before the loop starts)"""
        ids = {}
        seen = set()

        def walk(o, depth):
            if id(o) in seen or depth > 3:
                return
            seen.add(id(o))
            if isinstance(o, list):
                ids[id(o)] = o
            elif isinstance(o, Obj):
                for v in o.attrs.values():
                    walk(v, depth + 1)
            elif isinstance(o, dict):
                for v in o.values():
                    walk(v, depth + 1)
        e = env
        while e is not None:
            for v in e.vars.values():
                walk(v, 0)
            e = e.parent
        return ids

    def dict_key(self, d, key):
        """the key of `d` that Python would consider equal to `key` (identity, or same hash and __eq__ for instances of
        repo classes that define them), else _MISSING"""
        if not isinstance(key, Obj):
            try:
                return key if key in d else _MISSING
            except TypeError:
                raise Unsupported("unhashable dict key")
        for k in d:
            if k is key:
                return k
        cls = key.cls
        if isinstance(cls, RepoClass):
            eq = cls.lookup(self, "__eq__")
            hs = cls.lookup(self, "__hash__")
            if eq is not None:
                for k in d:
                    if isinstance(k, Obj) and k.cls is cls:
                        if hs is not None:
                            h1 = self.call_repo(hs, [k], {})
                            h2 = self.call_repo(hs, [key], {})
                            if not self.truth(self.cmp("==", h1, h2)):
                                continue
                        if self.truth(self.call_repo(eq, [key, k], {})):
                            return k
        return _MISSING

    def freeze(self, v, depth=0):
        """results of functools.lru_cache'd functions are shared between callers (and dask workers): mark the arrays
        so that any in-place update of them becomes a failed frame obligation"""
        if isinstance(v, SArr):
            v.frozen = True
        elif isinstance(v, (tuple, list)) and depth < 3:
            for x in v:
                self.freeze(x, depth + 1)

    def frame_write(self, obj, name):
        """hook for frame (modifies) checking"""
        if self.loop_stack and isinstance(obj, Obj) and getattr(obj, "_stamp", 0) <= self.loop_stack[-1].start_stamp:
            raise Unsupported("attribute write to a pre-existing object inside a summarised loop")
        w = getattr(self, "write_log", None)
        if w is not None:
            w.append((obj, name))

    # -- statements ----------------------------------------------------------
    def exec_block(self, body, env):
        for st in body:
            self.exec_stmt(st, env)

    def exec_stmt(self, st, env):
        self.lineno = getattr(st, "lineno", self.lineno)
        self.current_env = env
        m = getattr(self, "s_" + type(st).__name__, None)
        if m is None:
            raise Unsupported(f"statement {type(st).__name__} at line {st.lineno}")
        return m(st, env)

    def s_Expr(self, st, env):
        if isinstance(st.value, ast.Constant):
            return          # docstring
        if isinstance(st.value, (ast.Yield,)):
            v = self.eval(st.value.value, env) if st.value.value is not None else None
            ys = env.lookup("__yield__")
            if isinstance(ys, list):
                # (through the list contract: inside a summarised loop the yield is an append effect of the iteration)
                self.call(self.getattr(ys, "append"), [v], {})
            else:
                raise Unsupported("yield after a summarised loop")
            return
        if isinstance(st.value, ast.YieldFrom):
            it = self.eval(st.value.value, env)
            env.lookup("__yield__").extend(list(self.iterate(it)))
            return
        self.eval(st.value, env)

    def s_Pass(self, st, env):
        pass

    def s_Return(self, st, env):
        raise ReturnEx(self.eval(st.value, env) if st.value is not None else None)

    def s_Break(self, st, env):
        raise BreakEx()

    def s_Continue(self, st, env):
        raise ContinueEx()

    def s_Import(self, st, env):
        for a in st.names:
            nm = a.asname or a.name.split(".")[0]
            target = a.name if a.asname else a.name.split(".")[0]
            env.vars[nm] = self.import_module(target)

    def s_ImportFrom(self, st, env):
        mod = self._env_module(env)
        if st.level:
            base = mod._pkg().split(".")
            if st.level > 1:
                base = base[: -(st.level - 1)]
            m = ".".join(base + ([st.module] if st.module else []))
        else:
            m = st.module
        for a in st.names:
            env.vars[a.asname or a.name] = self.import_from(m, a.name)

    def s_Global(self, st, env):
        raise Unsupported("global statement")

    def s_Nonlocal(self, st, env):
        env.vars.setdefault("__nonlocal__", set()).update(st.names)

    def s_FunctionDef(self, st, env):
        c = Closure(st, env, self._env_module(env), st.name)
        val = c
        for d in reversed(st.decorator_list):
            n = _dec_name(d)
            if n in IGNORED_DECORATORS:
                if n == "wraps":
                    continue
                continue
            dec = self.eval(d, env)
            val = self.call(dec, [val], {})
        env.vars[st.name] = val

    def s_Assert(self, st, env):
        c = self.eval(st.test, env)
        if not self.truth(c):
            raise PyRaise(self.make_exc("AssertionError"))

    def s_Delete(self, st, env):
        for t in st.targets:
            if isinstance(t, ast.Name):
                env.find(t.id).vars.pop(t.id)
            elif isinstance(t, ast.Subscript):
                o = self.eval(t.value, env)
                k = self.eval_index(t.slice, env)
                del o[k]
            else:
                raise Unsupported("del target")

    def s_Assign(self, st, env):
        v = self.eval(st.value, env)
        for t in st.targets:
            self.assign(t, v, env)

    def s_AnnAssign(self, st, env):
        if st.value is not None:
            self.assign(st.target, self.eval(st.value, env), env)

    def s_AugAssign(self, st, env):
        op = _BINOPS[type(st.op)]
        t = st.target
        if isinstance(t, ast.Name):
            cur = self.lookup(t.id, env)
            new = self.eval(st.value, env)
            if isinstance(cur, SArr):
                # numpy in-place: writes through views
                res = A.pointwise(op, cur, new)
                rf = res.snapshot()
                if cur.dtype == "int" and res.dtype == "real":
                    raise Unsupported("in-place op changing int array to real")
                cur.assign_fn(rf)
                return
            if isinstance(cur, list) and op == "+":
                cur.extend(list(self.iterate(new)))
                return
            self.assign(t, self.binop(op, cur, new), env)
        elif isinstance(t, ast.Subscript):
            o = self.eval(t.value, env)
            k = self.eval_index(t.slice, env)
            cur = self.subscript(o, k)
            new = self.eval(st.value, env)
            self.store_subscript(o, k, self.binop(op, cur, new))
        elif isinstance(t, ast.Attribute):
            o = self.eval(t.value, env)
            cur = self.getattr(o, t.attr)
            new = self.eval(st.value, env)
            if isinstance(cur, SArr):
                # numpy in-place operator on an attribute: the array object is updated (every holder of it sees the
                # change) and the attribute is re-bound to the same object
                res = A.pointwise(op, cur, new)
                rf = res.snapshot()
                if cur.dtype == "int" and res.dtype == "real":
                    raise Unsupported("in-place op changing int array to real")
                cur.assign_fn(rf)
                self.setattr(o, t.attr, cur)
                return
            self.setattr(o, t.attr, self.binop(op, cur, new))
        else:
            raise Unsupported("augassign target")

    def assign(self, t, v, env):
        if isinstance(t, ast.Name):
            nl = env.vars.get("__nonlocal__")
            if nl and t.id in nl:
                e = env.parent.find(t.id)
                if e is None:
                    raise Unsupported("nonlocal target not found")
                e.vars[t.id] = v
            else:
                env.vars[t.id] = v
        elif isinstance(t, (ast.Tuple, ast.List)):
            items = list(self.iterate(v))
            star = [i for i, e in enumerate(t.elts) if isinstance(e, ast.Starred)]
            if star:
                i = star[0]
                n_after = len(t.elts) - i - 1
                if len(items) < len(t.elts) - 1:
                    raise PyRaise(self.make_exc("ValueError", "not enough values to unpack"))
                for e, x in zip(t.elts[:i], items[:i]):
                    self.assign(e, x, env)
                self.assign(t.elts[i].value, list(items[i:len(items) - n_after]), env)
                for e, x in zip(t.elts[i + 1:], items[len(items) - n_after:]):
                    self.assign(e, x, env)
            else:
                if len(items) != len(t.elts):
                    raise PyRaise(self.make_exc("ValueError", f"unpack: expected {len(t.elts)}, got {len(items)}"))
                for e, x in zip(t.elts, items):
                    self.assign(e, x, env)
        elif isinstance(t, ast.Subscript):
            o = self.eval(t.value, env)
            k = self.eval_index(t.slice, env)
            self.store_subscript(o, k, v)
        elif isinstance(t, ast.Attribute):
            o = self.eval(t.value, env)
            self.setattr(o, t.attr, v)
        else:
            raise Unsupported(f"assign target {type(t).__name__}")

    def _loop_store(self, o, k, v):
        """inside a summarised loop: `a[L] = v` on an array created before the loop is a summarised effect"""
        fr = self.loop_stack[-1]
        from . import loops as _loops
        if o.stamp > fr.start_stamp:
            return False          # array local to the iteration
        ks = k if isinstance(k, tuple) else (k,)
        first = ks[0]
        is_L = isinstance(first, Sym) and first.t.eq(fr.L)
        rest_full = all(isinstance(x, slice) and x.start is None and x.stop is None and x.step is None for x in ks[1:])
        if is_L and rest_full:
            fr.stores.append((o, v))
            fr.written.add(id(o))
            return True
        raise Unsupported("store into a pre-existing array at an index other than the loop index inside a "
                          "summarised loop")

    def store_subscript(self, o, k, v):
        if isinstance(o, A.MaskedSel) and o.mask.ndim == 1 and isinstance(o.arr, SArr) and o.arr.ndim >= 2:
            o = A.materialize(o)
        if isinstance(o, SArr):
            if self.loop_stack and self._loop_store(o, k, v):
                return
            A.setitem(o, k, v)
        elif isinstance(o, list):
            if isinstance(k, Sym):
                raise Unsupported("list store at symbolic index")
            o[k] = v
        elif isinstance(o, dict):
            if isinstance(k, Sym) or any(isinstance(kk, Sym) for kk in o):
                # symbolic keys: the store replaces the entry whose key equals k (decided per path), else inserts k
                self.frame_write(o, k)
                for kk in list(o):
                    if isinstance(kk, (Sym, int)) and not isinstance(kk, bool) and (kk is k or self.truth(self.cmp("==", k, kk))):
                        o[kk] = v
                        return
                o[k] = v
                return
            self.frame_write(o, k)
            kk = self.dict_key(o, k)
            o[k if kk is _MISSING else kk] = v
        else:
            h = self.stubs.get("__setitem__")
            if h is not None and h(self, o, k, v) is not NotImplemented:
                return
            raise Unsupported(f"item assignment on {type(o).__name__}")

    def s_If(self, st, env):
        c = self.eval(st.test, env)
        if self.truth(c):
            self.exec_block(st.body, env)
        else:
            self.exec_block(st.orelse, env)

    def s_For(self, st, env):
        it = self.eval(st.iter, env)
        from . import loops as _loops
        si = _loops.siter(it)
        if si is not None:
            n, get = si

            def run_body(x, L):
                self.assign(st.target, x, env)
                try:
                    self.exec_block(st.body, env)
                except (BreakEx, ContinueEx, ReturnEx):
                    raise Unsupported("break / continue / return inside a summarised loop")
            _loops.summarize(self, n, get, run_body, env)
            if st.orelse:
                self.exec_block(st.orelse, env)
            return
        broke = False
        for x in self.iterate(it):
            self.assign(st.target, x, env)
            try:
                self.exec_block(st.body, env)
            except BreakEx:
                broke = True
                break
            except ContinueEx:
                continue
        if not broke:
            self.exec_block(st.orelse, env)

    def s_While(self, st, env):
        n = 0
        while self.truth(self.eval(st.test, env)):
            n += 1
            if n > 10000:
                raise Unsupported("while loop bound exceeded")
            try:
                self.exec_block(st.body, env)
            except BreakEx:
                return
            except ContinueEx:
                continue
        self.exec_block(st.orelse, env)

    def s_Raise(self, st, env):
        if st.exc is None:
            cur = env.lookup("__current_exc__") if env.find("__current_exc__") else None
            if cur is None:
                raise Unsupported("bare raise outside handler")
            raise PyRaise(cur, st.lineno)
        e = self.eval(st.exc, env)
        if isinstance(e, (ExcClass, RepoClass)):
            e = self.call(e, [], {})
        if st.cause is not None:
            self.eval(st.cause, env)
        raise PyRaise(e, st.lineno)

    def exc_matches(self, exc, cls):
        if isinstance(cls, tuple):
            return any(self.exc_matches(exc, c) for c in cls)
        ec = exc.cls if isinstance(exc, Obj) else None
        if ec is None:
            return False
        if isinstance(ec, ExcClass):
            return isinstance(cls, ExcClass) and ec.issub(cls)
        if isinstance(ec, RepoClass):
            for c in ec.mro(self):
                if c is cls:
                    return True
                if isinstance(c, ExcClass) and isinstance(cls, ExcClass) and c.issub(cls):
                    return True
        return False

    def s_Try(self, st, env):
        try:
            try:
                self.exec_block(st.body, env)
            except PyRaise as pr:
                for h in st.handlers:
                    if h.type is None or self.exc_matches(pr.exc, self.eval(h.type, env)):
                        if h.name:
                            env.vars[h.name] = pr.exc
                        env.vars["__current_exc__"] = pr.exc
                        self.exec_block(h.body, env)
                        break
                else:
                    raise
            else:
                self.exec_block(st.orelse, env)
        finally:
            if st.finalbody:
                self.exec_block(st.finalbody, env)

    def s_With(self, st, env):
        for item in st.items:
            cm = self.eval(item.context_expr, env)
            h = self.stubs.get("__with__")
            v = h(self, cm) if h is not None else NotImplemented
            if v is NotImplemented:
                raise Unsupported(f"with-statement over {cm!r}")
            if item.optional_vars is not None:
                self.assign(item.optional_vars, v, env)
        self.exec_block(st.body, env)

    def s_ClassDef(self, st, env):
        raise Unsupported("nested class definition")

    # -- expressions ---------------------------------------------------------
    def truth(self, c):
        """branch on a value's truthiness"""
        if isinstance(c, Sym):
            if self.spec:
                raise Unsupported("symbolic control flow inside a contract expression")
            return self.path.branch(c if c.kind == "bool" else V.compare("!=", c, 0))
        if isinstance(c, SArr):
            if c.ndim == 0:
                return self.truth(c.at(()))
            raise PyRaise(self.make_exc("ValueError", "truth value of an array is ambiguous"))
        if isinstance(c, (Obj,)):
            ln = c.cls.lookup(self, "__len__") if isinstance(c.cls, RepoClass) else None
            if ln is not None:
                return self.truth(V.compare("!=", self.call_repo(ln, [c], {}), 0))
            return True
        if isinstance(c, GenV):
            return True
        h = self.stubs.get("__truth__")
        if h is not None:
            r = h(self, c)
            if r is not NotImplemented:
                return self.truth(r) if isinstance(r, Sym) else bool(r)
        return bool(c)

    def eval(self, node, env):
        m = getattr(self, "e_" + type(node).__name__, None)
        if m is None:
            raise Unsupported(f"expression {type(node).__name__} at line {getattr(node, 'lineno', '?')}")
        return m(node, env)

    def e_Constant(self, n, env):
        v = n.value
        if isinstance(v, complex):
            raise Unsupported("complex literal (complex arithmetic is not modelled)")
        if isinstance(v, float):
            return V.exact(v) if not float(v).is_integer() else Fraction(int(v), 1)
        return v

    def e_Name(self, n, env):
        return self.lookup(n.id, env)

    def e_Tuple(self, n, env):
        return tuple(self._elts(n.elts, env))

    def e_List(self, n, env):
        return list(self._elts(n.elts, env))

    def e_Set(self, n, env):
        return set(self._elts(n.elts, env))

    def _elts(self, elts, env):
        out = []
        for e in elts:
            if isinstance(e, ast.Starred):
                out.extend(self.iterate(self.eval(e.value, env)))
            else:
                out.append(self.eval(e, env))
        return out

    def e_Dict(self, n, env):
        d = {}
        for k, v in zip(n.keys, n.values):
            if k is None:
                d.update(self.eval(v, env))
            else:
                d[self.eval(k, env)] = self.eval(v, env)
        return d

    def e_JoinedStr(self, n, env):
        parts = []
        for v in n.values:
            if isinstance(v, ast.Constant):
                parts.append(str(v.value))
            else:
                try:
                    x = self.eval(v.value, env)
                    parts.append(_to_str(x))
                except Unsupported:
                    parts.append("<?>")
        return "".join(parts)

    def e_FormattedValue(self, n, env):
        return _to_str(self.eval(n.value, env))

    def e_Lambda(self, n, env):
        return Closure(n, env, self._env_module(env))

    def e_IfExp(self, n, env):
        c = self.eval(n.test, env)
        if isinstance(c, Sym) and self.spec:
            return V.ite(c, self.eval(n.body, env), self.eval(n.orelse, env))
        return self.eval(n.body, env) if self.truth(c) else self.eval(n.orelse, env)

    def e_NamedExpr(self, n, env):
        v = self.eval(n.value, env)
        env.vars[n.target.id] = v
        return v

    def e_Starred(self, n, env):
        raise Unsupported("starred expression here")

    def e_Slice(self, n, env):
        f = lambda x: self.eval(x, env) if x is not None else None
        lo, hi, st = f(n.lower), f(n.upper), f(n.step)
        return slice(_unfrac(lo), _unfrac(hi), _unfrac(st))

    def e_BoolOp(self, n, env):
        is_and = isinstance(n.op, ast.And)
        if self.spec:
            syms = []
            last = None
            for vn in n.values:
                v = self.eval(vn, env)
                last = v
                if isinstance(v, Sym):
                    syms.append(v)
                    continue
                if bool(v) != is_and:          # concrete value decides (short-circuit, as Python does)
                    if syms and ((is_and and not bool(v)) or ((not is_and) and bool(v))):
                        return v if not syms else (False if is_and else True)
                    return v
            if syms:
                return V.sand(*syms) if is_and else V.sor(*syms)
            return last
        last = None
        for v in n.values:
            last = self.eval(v, env)
            t = self.truth(last)
            if is_and and not t:
                return last if not isinstance(last, Sym) else False
            if (not is_and) and t:
                return last if not isinstance(last, Sym) else True
        if isinstance(last, Sym):
            return is_and
        return last

    def e_UnaryOp(self, n, env):
        v = self.eval(n.operand, env)
        if isinstance(n.op, ast.Not):
            if isinstance(v, Sym):
                if self.spec:
                    return V.snot(v if v.kind == "bool" else V.compare("!=", v, 0))
                return not self.truth(v)
            return not self.truth(v)
        if isinstance(n.op, ast.USub):
            m = self._obj_method(v, "__neg__")
            if m is not None:
                return self.call(m, [], {})
            if getattr(v, "_pyvc_native", False) and hasattr(type(v), "__neg__"):
                return -v
            return self.binop("-", 0, v) if not isinstance(v, complex) else -v
        if isinstance(n.op, ast.UAdd):
            return v
        if isinstance(n.op, ast.Invert):
            if isinstance(v, (SArr, Sym)):
                return ~v
            return ~v
        raise Unsupported("unary op")

    _DUNDER = {"+": "add", "-": "sub", "*": "mul", "/": "truediv", "//": "floordiv", "%": "mod", "**": "pow",
               "@": "matmul", "&": "and", "|": "or"}
    _CMP_DUNDER = {"==": ("eq", "eq"), "!=": ("ne", "ne"), "<": ("lt", "gt"), "<=": ("le", "ge"), ">": ("gt", "lt"),
                   ">=": ("ge", "le")}

    def _obj_method(self, o, name):
        if isinstance(o, Obj) and isinstance(o.cls, RepoClass):
            m = o.cls.lookup(self, name)
            if m is not None:
                if isinstance(m, RepoFunc):
                    return BoundMethod(m, o)
                return lambda *a: self.call(m, [o] + list(a), {})
        return None

    def binop(self, op, a, b):
        if isinstance(a, Obj) or isinstance(b, Obj):
            d = self._DUNDER.get(op)
            if d:
                m = self._obj_method(a, f"__{d}__")
                if m is not None:
                    r = self.call(m, [b], {})
                    if r is not NotImplemented:
                        return r
                m = self._obj_method(b, f"__r{d}__")
                if m is not None:
                    r = self.call(m, [a], {})
                    if r is not NotImplemented:
                        return r
        for x, y, refl in ((a, b, False), (b, a, True)):
            if getattr(x, "_pyvc_native", False) and not isinstance(x, type):
                d = self._DUNDER.get(op)
                meth = getattr(type(x), f"__{'r' if refl else ''}{d}__", None) if d else None
                if meth is not None:
                    r = meth(x, y)
                    if r is not NotImplemented:
                        return r
        if isinstance(a, (SArr, A.MaskedSel)) or isinstance(b, (SArr, A.MaskedSel)):
            if op == "@":
                mm = self.stubs.get("numpy.matmul")
                return mm(a, b)
            if op == "/" and getattr(self, "finite_div", False) and self.safety and not self.spec:
                # contracts that claim finite results (numpy division by zero gives nan / inf, it never raises):
                # every element of an array divisor is non-zero
                sel = None
                if not getattr(self.path, "_sqrt_pos_axiom", False):
                    # trusted: the square root of a positive real is positive (the element-wise roots of an array are
                    # uninterpreted applications whose instance axioms cannot mention a bound index)
                    self.path._sqrt_pos_axiom = True
                    xq = z3.Real(V.fresh_name("x"))
                    usq = z3.Function("u_sqrt", z3.RealSort(), z3.RealSort())
                    self.path.assume_optional("sqrt", Sym(z3.ForAll([xq], z3.Implies(xq > 0, usq(xq) > 0))))
                if isinstance(b, A.MaskedSel) and isinstance(b.arr, SArr) and b.mask.ndim == b.arr.ndim:
                    d, sel = b.arr, b.mask.snapshot()          # the selected elements: arr[p] where mask[p]
                else:
                    d = A.materialize(b) if isinstance(b, A.MaskedSel) else b
                if isinstance(d, SArr):
                    f = d.snapshot()
                    qs = [z3.Int(V.fresh_name("d")) for _ in range(d.ndim)]
                    rng = [z3.And(q >= 0, q < V.lift(n)) for q, n in zip(qs, d.shape)]
                    idx = tuple(Sym(q) for q in qs)
                    if sel is not None:
                        rng.append(V.lift(sel(idx)))
                    el = f(idx)
                    body = V.compare("!=", el, 0)
                    goal = Sym(z3.ForAll(qs, z3.Implies(z3.And(*rng), V.lift(body)))) if qs else body
                    self.path.oblige(f"safety.finite_div@L{self.lineno}", goal,
                                     {"kind": "safety", "line": self.lineno, "clause": "no element of the divisor is zero (finite result)"})
                elif isinstance(d, Sym):
                    self.path.oblige(f"safety.finite_div@L{self.lineno}", V.compare("!=", d, 0), {"kind": "safety", "line": self.lineno})
            return A.pointwise(op, a, b)
        if is_num(a) and is_num(b) and op in ("&", "|"):
            return V.sand(a, b) if op == "&" else V.sor(a, b)
        if is_num(a) and is_num(b):
            if self.safety and not self.spec and op in ("/", "//", "%") and isinstance(b, Sym):
                self.path.oblige(f"safety.div@L{self.lineno}", V.compare("!=", b, 0), {"line": self.lineno})
            elif op in ("/", "//", "%") and not isinstance(b, Sym) and b == 0:
                raise PyRaise(self.make_exc("ZeroDivisionError", "division by zero"))
            return V.arith(op, a, b)
        if op == "+" and isinstance(a, (list, tuple, str)) and isinstance(b, type(a)):
            return a + b
        if op == "*" and isinstance(a, list) and len(a) == 1 and isinstance(b, Sym):
            return RepList(a[0], b)
        if op == "*" and isinstance(a, (list, tuple, str)) and isinstance(b, int):
            return a * b
        if op == "*" and isinstance(b, (list, tuple, str)) and isinstance(a, int):
            return a * b
        if op == "%" and isinstance(a, str):
            return a
        if isinstance(a, (set, frozenset)) and isinstance(b, (set, frozenset)) and op in ("-", "|", "&", "^"):
            return {"-": a - b, "|": a | b, "&": a & b, "^": a ^ b}[op]
        h = self.stubs.get("__binop__")
        if h is not None:
            r = h(self, op, a, b)
            if r is not NotImplemented:
                return r
        raise Unsupported(f"binop {op} on {type(a).__name__}, {type(b).__name__}")

    def e_BinOp(self, n, env):
        a = self.eval(n.left, env)
        b = self.eval(n.right, env)
        return self.binop(_BINOPS[type(n.op)], a, b)

    def cmp(self, op, a, b):
        if op in ("is", "is not"):
            r = (a is b) or (isinstance(a, (bool, type(None))) and isinstance(b, (bool, type(None))) and a is b)
            if is_num(a) and is_num(b) and not isinstance(a, Sym) and not isinstance(b, Sym):
                r = (type(a) == type(b) and a == b) if not (a is b) else True
            return r if op == "is" else not r
        if op in ("in", "not in"):
            r = self.contains(b, a)
            return r if op == "in" else (V.snot(r) if isinstance(r, Sym) else not r)
        if op in self._CMP_DUNDER and (isinstance(a, Obj) or isinstance(b, Obj)):
            d, rd = self._CMP_DUNDER[op]
            m = self._obj_method(a, f"__{d}__")
            if m is not None:
                r = self.call(m, [b], {})
                if r is not NotImplemented:
                    return r
            m = self._obj_method(b, f"__{rd}__")
            if m is not None:
                r = self.call(m, [a], {})
                if r is not NotImplemented:
                    return r
        if op in self._CMP_DUNDER:
            for x, y, refl in ((a, b, False), (b, a, True)):
                if getattr(x, "_pyvc_native", False) and not isinstance(x, type):
                    d, rd = self._CMP_DUNDER[op]
                    meth = getattr(type(x), f"__{rd if refl else d}__", None)
                    if meth is not None and meth is not object.__eq__ and meth is not object.__ne__:
                        r = meth(x, y)
                        if r is not NotImplemented:
                            return r
        if isinstance(a, (SArr, A.MaskedSel)) or isinstance(b, (SArr, A.MaskedSel)):
            return A.pointwise(op, a, b)
        if is_num(a) and is_num(b):
            return V.compare(op, a, b)
        if isinstance(a, (tuple, list)) and isinstance(b, (tuple, list)) and op in ("==", "!="):
            if type(a) != type(b) or len(a) != len(b):
                return op == "!="
            r = V.sand(*[self.cmp("==", x, y) for x, y in zip(a, b)]) if a else True
            return r if op == "==" else (V.snot(r) if isinstance(r, Sym) else not r)
        if isinstance(a, slice) and isinstance(b, slice) and op in ("==", "!="):
            r = V.sand(*[self.cmp("==", x, y) for x, y in
                         zip((a.start, a.stop, a.step), (b.start, b.stop, b.step))])
            return r if op == "==" else (V.snot(r) if isinstance(r, Sym) else not r)
        h = self.stubs.get("__cmp__")
        if h is not None:
            r = h(self, op, a, b)
            if r is not NotImplemented:
                return r
        if a is None or b is None or isinstance(a, (str, bytes)) or isinstance(b, (str, bytes)):
            if op == "==":
                return (not isinstance(a, Sym)) and (not isinstance(b, Sym)) and a == b
            if op == "!=":
                return isinstance(a, Sym) or isinstance(b, Sym) or a != b
            if isinstance(a, str) and isinstance(b, str):
                return {"<": a < b, "<=": a <= b, ">": a > b, ">=": a >= b}[op]
        if op == "==":
            return a is b or (type(a) == type(b) and not isinstance(a, (Obj,)) and a == b)
        if op == "!=":
            return not (a is b or (type(a) == type(b) and not isinstance(a, (Obj,)) and a == b))
        raise Unsupported(f"compare {op} on {type(a).__name__}, {type(b).__name__}")

    def contains(self, container, item):
        if isinstance(container, (dict, set, frozenset)):
            if isinstance(item, Sym):
                return V.sor(*[V.compare("==", item, k) for k in container if is_num(k)]) if container else False
            if is_num(item) and not isinstance(item, bool) and any(isinstance(k, Sym) for k in container):
                # concrete number against symbolic keys
                return V.sor(*[V.compare("==", item, k) for k in container if is_num(k)])
            return item in container
        if isinstance(container, (list, tuple)):
            rs = []
            for x in container:
                r = self.cmp("==", x, item)
                if r is True:
                    return True
                rs.append(r)
            return V.sor(*rs) if rs else False
        if isinstance(container, str):
            return item in container
        h = self.stubs.get("__contains__")
        if h is not None:
            r = h(self, container, item)
            if r is not NotImplemented:
                return r
        raise Unsupported(f"'in' on {type(container).__name__}")

    def e_Compare(self, n, env):
        left = self.eval(n.left, env)
        res = []
        for op, rn in zip(n.ops, n.comparators):
            right = self.eval(rn, env)
            r = self.cmp(_CMPOPS[type(op)], left, right)
            res.append(r)
            left = right
        if len(res) == 1:
            return res[0]
        if all(not isinstance(r, (Sym, SArr)) for r in res):
            return all(res)
        if any(isinstance(r, SArr) for r in res):
            out = res[0]
            for r in res[1:]:
                out = A.pointwise("&", out, r)
            return out
        return V.sand(*res)

    def eval_index(self, n, env):
        if isinstance(n, ast.Tuple):
            return tuple(self.eval(e, env) for e in n.elts)
        return self.eval(n, env)

    def e_Subscript(self, n, env):
        o = self.eval(n.value, env)
        k = self.eval_index(n.slice, env)
        return self.subscript(o, k)

    def subscript(self, o, k):
        if self.loop_stack and id(o) in self.loop_stack[-1].written:
            raise Unsupported("read of a container written by the same summarised loop (loop-carried dependence)")
        if isinstance(o, A.MaskedSel) and o.mask.ndim == 1 and isinstance(o.arr, SArr):
            o = A.materialize(o)
        if isinstance(o, SArr):
            if self.safety and not self.spec:
                self._index_safety(o, k)
            return A.getitem(o, k)
        if isinstance(o, (list, tuple, str)):
            if isinstance(k, slice):
                if any(isinstance(x, Sym) for x in (k.start, k.stop, k.step)):
                    raise Unsupported("symbolic slice of a Python sequence")
                return o[k]
            k = _unfrac(k)
            if isinstance(k, Sym):
                n = len(o)
                if n == 0:
                    raise PyRaise(self.make_exc("IndexError", "index out of range"))
                if self.safety and not self.spec:
                    self.path.oblige(f"safety.index@L{self.lineno}",
                                     V.sand(V.compare(">=", k, -n), V.compare("<", k, n)), {"line": self.lineno})
                kk = A.norm_index(k, n)
                r = o[n - 1]
                for j in range(n - 2, -1, -1):
                    r = V.ite(V.compare("==", kk, j), o[j], r) if (is_num(o[j]) and is_num(r)) else \
                        self._obj_ite(V.compare("==", kk, j), o[j], r)
                return r
            try:
                return o[k]
            except IndexError:
                raise PyRaise(self.make_exc("IndexError", "index out of range"))
            except TypeError:
                raise PyRaise(self.make_exc("TypeError", f"indices must be integers, not {type(k).__name__}"))
        if isinstance(o, dict):
            if (isinstance(k, Sym) or (is_num(k) and not isinstance(k, bool))) and any(isinstance(kk, Sym) for kk in o):
                # a dict with symbolic keys: the entry whose key equals k, decided per path; KeyError when none does
                for kk in list(o):
                    if kk is k:
                        return o[kk]
                for kk in list(o):
                    if (isinstance(kk, Sym) or is_num(kk)) and self.truth(self.cmp("==", k, kk)):
                        return o[kk]
                raise PyRaise(self.make_exc("KeyError", k))
            if isinstance(k, Sym):
                # symbolic key over a dict with concrete numeric keys: the key must be one of them (safety obligation),
                # the value is selected by an if-chain
                keys = [kk for kk in o if is_num(kk) and not isinstance(kk, Sym)]
                if not keys or len(keys) != len(o):
                    raise Unsupported("dict lookup with symbolic key")
                if self.safety and not self.spec:
                    self.path.oblige(f"safety.key@L{self.lineno}", V.sor(*[V.compare("==", k, kk) for kk in keys]),
                                     {"kind": "safety", "line": self.lineno, "clause": "the key is in the dict"})
                r = o[keys[-1]]
                for kk in reversed(keys[:-1]):
                    c = V.compare("==", k, kk)
                    r = V.ite(c, o[kk], r) if (is_num(o[kk]) and is_num(r)) else self._obj_ite(c, o[kk], r)
                return r
            kk = self.dict_key(o, k)
            if kk is _MISSING:
                raise PyRaise(self.make_exc("KeyError", k))
            return o[kk]
        if getattr(o, "_pyvc_native", False) and hasattr(type(o), "__getitem__"):
            try:
                return o[k]
            except KeyError as e:
                raise PyRaise(self.make_exc("KeyError", *e.args))
            except (TypeError, IndexError) as e:
                raise PyRaise(self.make_exc(type(e).__name__, str(e)))
        h = self.stubs.get("__getitem__")
        if h is not None:
            r = h(self, o, k)
            if r is not NotImplemented:
                return r
        if isinstance(o, Obj) and "_fields" in o.attrs and isinstance(k, int):
            return o.attrs[o.attrs["_fields"][k]]
        if isinstance(o, Obj) and isinstance(o.cls, RepoClass):
            gi = o.cls.lookup(self, "__getitem__")
            if gi is not None:
                return self.call_repo(gi, [o, k], {})
        raise Unsupported(f"subscript of {type(o).__name__}")

    def _obj_ite(self, c, a, b):
        if a is b:
            return a
        if isinstance(a, (tuple, list)) and isinstance(b, (tuple, list)) and len(a) == len(b):
            return type(a)(self._obj_ite(c, x, y) if not (is_num(x) and is_num(y)) else V.ite(c, x, y)
                           for x, y in zip(a, b))
        if isinstance(a, SArr) and isinstance(b, SArr):
            fa, fb = a.snapshot(), b.snapshot()
            if a.ndim != b.ndim:
                raise Unsupported("symbolic selection between arrays of different rank")
            shp = tuple(sa if (not is_sym(sa) and not is_sym(sb) and sa == sb) else V.ite(c, sa, sb) for sa, sb in zip(a.shape, b.shape))
            return SArr(shp, lambda idx: V.ite(c, fa(idx), fb(idx)), a.dtype)
        h = self.stubs.get("__ite__")
        if h is not None:
            r = h(self, c, a, b)
            if r is not NotImplemented:
                return r
        raise Unsupported(f"symbolic selection between {type(a).__name__} and {type(b).__name__}")

    def _index_safety(self, arr, k):
        ks = k if isinstance(k, tuple) else (k,)
        ax = 0
        for x in ks:
            if x is None:
                continue
            if x is Ellipsis:
                return
            if isinstance(x, (slice, SArr)):
                ax += 1
                continue
            if ax >= arr.ndim:
                raise PyRaise(self.make_exc("IndexError", "too many indices for array"))
            n = arr.shape[ax]
            if isinstance(x, Sym) or isinstance(n, Sym):
                self.path.oblige(f"safety.index@L{self.lineno}.ax{ax}",
                                 V.sand(V.compare(">=", x, V.arith("-", 0, n)), V.compare("<", x, n)),
                                 {"line": self.lineno})
            elif isinstance(x, int):
                if not (-n <= x < n):
                    raise PyRaise(self.make_exc("IndexError", f"index {x} is out of bounds for axis {ax} with size {n}"))
            ax += 1

    def e_Attribute(self, n, env):
        o = self.eval(n.value, env)
        return self.getattr(o, n.attr)

    def e_Call(self, n, env):
        # super() special form
        if isinstance(n.func, ast.Name) and n.func.id == "super" and not n.args:
            slf = None
            e = env
            while e is not None and slf is None:
                for k in ("self",):
                    if k in e.vars:
                        slf = e.vars[k]
                e = e.parent
            cls = env.lookup("__class__")
            return SuperProxy(slf, cls)
        f = self.eval(n.func, env)
        args = []
        for a in n.args:
            if isinstance(a, ast.Starred):
                args.extend(self.iterate(self.eval(a.value, env)))
            else:
                args.append(self.eval(a, env))
        kwargs = {}
        for kw in n.keywords:
            if kw.arg is None:
                d = self.eval(kw.value, env)
                if not isinstance(d, dict):
                    d = self.to_dict(d)
                kwargs.update(d)
            else:
                kwargs[kw.arg] = self.eval(kw.value, env)
        self.lineno = n.lineno
        return self.call(f, args, kwargs)

    def to_dict(self, d):
        h = self.stubs.get("__todict__")
        if h is not None:
            r = h(self, d)
            if r is not NotImplemented:
                return r
        raise Unsupported("** of non-dict")

    # comprehensions
    def _comp(self, generators, env, emit):
        def rec(i, e):
            if i == len(generators):
                emit(e)
                return
            g = generators[i]
            it = self.eval(g.iter, e)
            for x in self.iterate(it):
                e2 = Env({}, e)
                self.assign(g.target, x, e2)
                ok = True
                for c in g.ifs:
                    if not self.truth(self.eval(c, e2)):
                        ok = False
                        break
                if ok:
                    rec(i + 1, e2)
        rec(0, env)

    def _comp_symbolic(self, n, env):
        """single-generator comprehension over a symbolic-length sequence -> SList (map)"""
        if len(n.generators) != 1:
            return None
        g = n.generators[0]
        it = self.eval(g.iter, env)
        from . import loops as _loops
        si = _loops.siter(it)
        if si is None:
            return ("concrete", it)
        if g.ifs:
            raise Unsupported("filtering comprehension over a symbolic-length sequence")
        cnt, get = si

        def run_body(x, L):
            e2 = Env({}, env)
            self.assign(g.target, x, e2)
            return self.eval(n.elt, e2)
        return ("symbolic", _loops.summarize(self, cnt, get, run_body, env, collect_value=True))

    def e_ListComp(self, n, env):
        r = self._comp_symbolic(n, env) if len(n.generators) == 1 else None
        if r is not None and r[0] == "symbolic":
            return r[1]
        out = []
        self._comp(n.generators, env, lambda e: out.append(self.eval(n.elt, e)))
        return out

    def e_GeneratorExp(self, n, env):
        r = self._comp_symbolic(n, env) if len(n.generators) == 1 else None
        if r is not None and r[0] == "symbolic":
            return r[1]
        out = []
        self._comp(n.generators, env, lambda e: out.append(self.eval(n.elt, e)))
        return GenV(out)

    def e_SetComp(self, n, env):
        out = []
        self._comp(n.generators, env, lambda e: out.append(self.eval(n.elt, e)))
        return set(out)

    def e_DictComp(self, n, env):
        out = {}
        self._comp(n.generators, env, lambda e: out.__setitem__(self.eval(n.key, e), self.eval(n.value, e)))
        return out

    # iteration ------------------------------------------------------------
    def iterate(self, it):
        if isinstance(it, (list, tuple, str, range, set, frozenset)):
            return iter(list(it))
        if isinstance(it, dict):
            return iter(list(it.keys()))
        if isinstance(it, GenV):
            return iter(it)
        if isinstance(it, SArr):
            return iter(it)
        if getattr(it, "_pyvc_native", False) and hasattr(type(it), "__iter__"):
            try:
                return iter([v for v in it])      # (not list(it): that asks for len(it), which may be symbolic)
            except TypeError as e:
                raise PyRaise(self.make_exc("TypeError", str(e)))
        h = self.stubs.get("__iter__")
        if h is not None:
            r = h(self, it)
            if r is not NotImplemented:
                return iter(r)
        if isinstance(it, Obj) and "_fields" in it.attrs:
            return iter([it.attrs[f] for f in it.attrs["_fields"]])
        if isinstance(it, Obj) and isinstance(it.cls, RepoClass):
            m = it.cls.lookup(self, "__iter__")
            if m is not None:
                return self.iterate(self.call_repo(m, [it], {}))
        if hasattr(it, "__iter__") and not isinstance(it, (Sym, Obj)):
            return iter(list(it))
        raise Unsupported(f"iteration over {type(it).__name__}")


def _to_str(x):
    if isinstance(x, Sym):
        return f"<{x.t}>"
    if isinstance(x, Fraction):
        return str(float(x))
    return str(x)


def _unfrac(x):
    """integral Fractions used as indices -> int"""
    if isinstance(x, Fraction) and x.denominator == 1:
        return int(x)
    return x


_BINOPS = {ast.Add: "+", ast.Sub: "-", ast.Mult: "*", ast.Div: "/", ast.FloorDiv: "//", ast.Mod: "%",
           ast.Pow: "**", ast.MatMult: "@", ast.BitAnd: "&", ast.BitOr: "|", ast.BitXor: "^",
           ast.LShift: "<<", ast.RShift: ">>"}
_CMPOPS = {ast.Eq: "==", ast.NotEq: "!=", ast.Lt: "<", ast.LtE: "<=", ast.Gt: ">", ast.GtE: ">=",
           ast.Is: "is", ast.IsNot: "is not", ast.In: "in", ast.NotIn: "not in"}
