"""Trusted contract of scipy.spatial.transform.Rotation: the 3x3-matrix view.

A RotV holds one 3x3 matrix (single) or a list of them (batch of concrete length).  Matrices act on
scipy's (x, y, z)-ordered vectors exactly as scipy documents: ``apply(v) = M v``, ``(p * q).apply(v) =
p.apply(q.apply(v))``, ``inv()`` is the transpose.  The SO(3) type invariant (M^T M = I, det M = 1) of
symbolic inputs is an *optional hypothesis group* ("so3"): obligations are first tried without it.
"""
from __future__ import annotations

from fractions import Fraction

import z3

from . import values as V
from .values import Sym, Unsupported, is_sym
from . import arrays as A
from .arrays import SArr


def _mm(a, b):
    return [[sum_((a[i][k] * b[k][j]) for k in range(3)) for j in range(3)] for i in range(3)]


def sum_(it):
    r = 0
    for x in it:
        r = V.arith("+", r, x)
    return r


def _tr(a):
    return [[a[j][i] for j in range(3)] for i in range(3)]


def _mv(a, v):
    return [sum_(V.arith("*", a[i][k], v[k]) for k in range(3)) for i in range(3)]


IDENT = [[1, 0, 0], [0, 1, 0], [0, 0, 1]]


class RotV:
    _pyvc_native = True

    def __init__(self, mats, single):
        self.mats = mats          # list of 3x3 nested lists
        self.single = single

    # constructors ----------------------------------------------------------
    @staticmethod
    def identity(num=None):
        if num is None:
            return RotV([IDENT], True)
        return RotV([IDENT for _ in range(num)], False)

    @staticmethod
    def from_matrix(m):
        m = A.from_nested(m)
        if m.ndim == 2:
            return RotV([[[m.at((i, j)) for j in range(3)] for i in range(3)]], True)
        n = m.shape[0]
        return RotV([[[m.at((r, i, j)) for j in range(3)] for i in range(3)] for r in range(n)], False)

    @staticmethod
    def symbolic(name, path=None, so3=True):
        m = [[Sym(z3.Real(f"{name}_m{i}{j}")) for j in range(3)] for i in range(3)]
        r = RotV([m], True)
        if path is not None and so3:
            for c in r.so3_constraints():
                path.assume_optional("so3", c)
        return r

    def so3_constraints(self):
        out = []
        for m in self.mats:
            mt = _tr(m)
            p = _mm(mt, m)
            q = _mm(m, mt)
            for i in range(3):
                for j in range(i, 3):
                    out.append(V.compare("==", p[i][j], 1 if i == j else 0))
                    out.append(V.compare("==", q[i][j], 1 if i == j else 0))
            det = (m[0][0] * (m[1][1] * m[2][2] - m[1][2] * m[2][1])
                   - m[0][1] * (m[1][0] * m[2][2] - m[1][2] * m[2][0])
                   + m[0][2] * (m[1][0] * m[2][1] - m[1][1] * m[2][0]))
            out.append(V.compare("==", det, 1))
        return out

    # scipy API --------------------------------------------------------------
    def as_matrix(self):
        if self.single:
            return A.from_nested(self.mats[0], "real")
        return A.from_nested(self.mats, "real")

    def inv(self):
        return RotV([_tr(m) for m in self.mats], self.single)

    def __mul__(self, other):
        if not isinstance(other, RotV):
            return NotImplemented
        if len(self.mats) == len(other.mats):
            return RotV([_mm(a, b) for a, b in zip(self.mats, other.mats)], self.single and other.single)
        if len(self.mats) == 1:
            return RotV([_mm(self.mats[0], b) for b in other.mats], False)
        if len(other.mats) == 1:
            return RotV([_mm(a, other.mats[0]) for a in self.mats], False)
        raise Unsupported("Rotation product of incompatible batch sizes")

    def apply(self, vectors, inverse=False):
        v = A.from_nested(vectors)
        mats = [(_tr(m) if inverse else m) for m in self.mats]
        if v.ndim == 1:
            vec = [v.at((k,)) for k in range(3)]
            if self.single or len(mats) == 1 and self.single:
                return A.from_nested(_mv(mats[0], vec), "real")
            return A.from_nested([_mv(m, vec) for m in mats], "real")
        n = v.shape[0]
        if not isinstance(n, int):
            raise Unsupported("Rotation.apply on a symbolic-length batch")
        rows = [[v.at((r, k)) for k in range(3)] for r in range(n)]
        if len(mats) == 1:
            return A.from_nested([_mv(mats[0], row) for row in rows], "real")
        if len(mats) != n:
            raise Unsupported("Rotation.apply batch mismatch")
        return A.from_nested([_mv(m, row) for m, row in zip(mats, rows)], "real")

    def __len__(self):
        if self.single:
            raise TypeError("Single rotation has no len().")
        return len(self.mats)

    def __getitem__(self, k):
        if self.single:
            raise TypeError("Single rotation is not subscriptable.")
        if isinstance(k, slice):
            return RotV(self.mats[k], False)
        if isinstance(k, int):
            return RotV([self.mats[k]], True)
        raise Unsupported("Rotation index")

    def __iter__(self):
        if self.single:
            raise TypeError("Single rotation is not iterable")
        return iter([RotV([m], True) for m in self.mats])


def register(REG):
    class _RotNS:
        _pyvc_native = True
        identity = staticmethod(RotV.identity)
        from_matrix = staticmethod(RotV.from_matrix)
    REG["scipy.spatial.transform.Rotation"] = _RotNS
