"""Trusted contract of scipy.spatial.transform.Rotation.

A RotV is a single rotation (n is None) or a batch of n rotations (n an int or a symbolic Int); ``matf(i)`` gives
the 3x3 matrix of row i (a nested list of scalars; i may be symbolic).  Matrices act on scipy's (x, y, z)-ordered
vectors exactly as scipy documents: ``apply(v) = M v``, ``(p * q).apply(v) = p.apply(q.apply(v))``, ``inv()`` is the
transpose.  Quaternions (x, y, z, w): ``from_quat(q)`` has the matrix M(q)/|q|^2 (scipy normalises), ``as_quat`` of a
rotation built from quaternions returns them normalised; of a rotation known only by its matrix it is an
uninterpreted unit quaternion q with M(q) = matrix (existence is a fact about SO(3)).  Rotation vectors use the
uninterpreted pair RV / RVinv with the round-trip axiom and (as an explicit lemma instance in contracts) equivariance.
The SO(3) type invariant of symbolic inputs is an *optional hypothesis group* ("so3").
"""
from __future__ import annotations

from fractions import Fraction

import z3

from . import values as V
from .values import Sym, Unsupported, is_sym
from . import arrays as A
from .arrays import SArr


class _Unset:
    def __repr__(self):
        return "UNSET"


_UNSET = _Unset()


def sum_(it):
    r = 0
    for x in it:
        r = V.arith("+", r, x)
    return r


def _mm(a, b):
    return [[sum_(V.arith("*", a[i][k], b[k][j]) for k in range(3)) for j in range(3)] for i in range(3)]


def _tr(a):
    return [[a[j][i] for j in range(3)] for i in range(3)]


def _mv(a, v):
    return [sum_(V.arith("*", a[i][k], v[k]) for k in range(3)) for i in range(3)]


IDENT = [[1, 0, 0], [0, 1, 0], [0, 0, 1]]


def quat_to_matrix(q):
    """scipy convention q = (x, y, z, w); exact for any non-zero q (division by |q|^2)"""
    x, y, z, w = q
    n2 = x * x + y * y + z * z + w * w
    m = [[w * w + x * x - y * y - z * z, 2 * (x * y - z * w), 2 * (x * z + y * w)],
         [2 * (x * y + z * w), w * w - x * x + y * y - z * z, 2 * (y * z - x * w)],
         [2 * (x * z - y * w), 2 * (y * z + x * w), w * w - x * x - y * y + z * z]]
    if not is_sym(n2) and n2 == 1:
        return m
    if not is_sym(n2) and n2 == 0:
        # rows of an empty batch (np.zeros((0, 4))): no such row exists; any matrix
        return [[Sym(z3.Real(V.fresh_name("norow"))) for _ in range(3)] for _ in range(3)]
    return [[V.arith("/", m[i][j], n2) for j in range(3)] for i in range(3)]


def so3_constraints(m):
    out = []
    mt = _tr(m)
    p = _mm(mt, m)
    q = _mm(m, mt)
    for i in range(3):
        for j in range(i, 3):
            out.append(V.compare("==", p[i][j], 1 if i == j else 0))
            out.append(V.compare("==", q[i][j], 1 if i == j else 0))
    det = (m[0][0] * (m[1][1] * m[2][2] - m[1][2] * m[2][1])
           - m[0][1] * (m[1][0] * m[2][2] - m[1][2] * m[2][0])
           + m[0][2] * (m[1][0] * m[2][1] - m[1][1] * m[2][0]))
    out.append(V.compare("==", det, 1))
    return out


class RotV:
    _pyvc_native = True

    def __init__(self, quat=None, normalize=True, copy=True, scalar_first=False, *, _n=_UNSET, _matf=None,
                 _quatf=None, _unit=False):
        if quat is not None:
            r = RotV.from_quat(quat)
            self.n, self.matf, self.quatf, self.unit = r.n, r.matf, r.quatf, r.unit
            return
        self.n = None if _n is _UNSET else _n
        self.matf = _matf
        self.quatf = _quatf       # row -> (x, y, z, w) as given at construction (not necessarily unit)
        self.unit = _unit

    @property
    def single(self):
        return self.n is None

    def row(self, i):
        return self.matf(0 if self.n is None else i)

    # constructors -------------------------------------------------------------
    @staticmethod
    def identity(num=None):
        return RotV(_n=_UNSET if num is None else num, _matf=lambda i: IDENT)

    @staticmethod
    def from_matrix(m):
        m = A.from_nested(m)
        if m.ndim == 2:
            f = m.snapshot()
            return RotV(_matf=lambda i: [[f((a, b)) for b in range(3)] for a in range(3)])
        f = m.snapshot()
        return RotV(_n=m.shape[0], _matf=lambda i: [[f((i, a, b)) for b in range(3)] for a in range(3)])

    @staticmethod
    def from_quat(quat, scalar_first=False):
        q = A.from_nested(quat)
        f = q.snapshot()
        if q.ndim == 1:
            qf = lambda i: tuple(f((c,)) for c in range(4))
            return RotV(_matf=lambda i: quat_to_matrix(qf(0)), _quatf=qf)
        qf = lambda i: tuple(f((i, c)) for c in range(4))
        return RotV(_n=q.shape[0], _matf=lambda i: quat_to_matrix(qf(i)), _quatf=qf)

    @staticmethod
    def symbolic(name, path=None, so3=True, n=_UNSET):
        """symbolic single rotation (matrix entries name_mab) or batch (uninterpreted functions of the row)"""
        if n is _UNSET:
            m = [[Sym(z3.Real(f"{name}_m{i}{j}")) for j in range(3)] for i in range(3)]
            r = RotV(_matf=lambda i: m)
            if path is not None and so3:
                for c in so3_constraints(m):
                    path.assume_optional("so3", c)
            return r
        fs = [[z3.Function(f"{name}_m{i}{j}", z3.IntSort(), z3.RealSort()) for j in range(3)] for i in range(3)]
        def matf(i):
            return [[Sym(fs[a][b](V.lift(i))) for b in range(3)] for a in range(3)]
        if path is not None and so3:
            # type invariant of the whole batch: every row is in SO(3)  (one quantified optional hypothesis)
            qi = z3.Int(f"{name}_row")
            cs = [V._bool_term(c) for c in so3_constraints(matf(Sym(qi))) if is_sym(c)]
            path.opt.append(("so3", z3.ForAll([qi], z3.And(*cs))))
        return RotV(_n=n, _matf=matf)

    def so3_constraints(self):
        return so3_constraints(self.row(0))

    # scipy API ------------------------------------------------------------------
    def as_matrix(self):
        if self.n is None:
            return A.from_nested(self.row(0), "real")
        mf = self.matf
        return SArr((self.n, 3, 3), lambda idx: _sel2(mf(idx[0]), idx[1], idx[2]), "real")

    def inv(self):
        mf = self.matf
        return RotV(_n=_UNSET if self.n is None else self.n, _matf=lambda i: _tr(mf(i)))

    def _bn(self, other):
        if self.n is None and other.n is None:
            return _UNSET
        if self.n is None:
            return other.n
        return self.n

    def __mul__(self, other):
        if not isinstance(other, RotV):
            return NotImplemented
        a, b = self, other
        return RotV(_n=self._bn(other), _matf=lambda i: _mm(a.row(i), b.row(i)))

    def apply(self, vectors, inverse=False):
        v = A.from_nested(vectors)
        vf = v.snapshot()
        me = self

        def mat(i):
            m = me.row(i)
            return _tr(m) if inverse else m
        if v.ndim == 1:
            vec = [vf((k,)) for k in range(3)]
            if self.n is None:
                return A.from_nested(_mv(mat(0), vec), "real")
            return SArr((self.n, 3), lambda idx: _sel1(_mv(mat(idx[0]), vec), idx[1]), "real")
        n = v.shape[0] if self.n is None else self.n
        return SArr((n, 3), lambda idx: _sel1(_mv(mat(idx[0]), [vf((idx[0], k)) for k in range(3)]), idx[1]), "real")

    def __len__(self):
        if self.n is None:
            raise TypeError("Single rotation has no len().")
        return self.n

    def __getitem__(self, k):
        if self.n is None:
            raise TypeError("Single rotation is not subscriptable.")
        mf, qf = self.matf, self.quatf
        if isinstance(k, slice):
            start, length, step = A.norm_slice(k, self.n)
            rm = lambda i: V.arith("+", start, i if step == 1 else V.arith("*", i, step))
            return RotV(_n=length, _matf=lambda i: mf(rm(i)), _quatf=(lambda i: qf(rm(i))) if qf else None,
                        _unit=self.unit)
        if isinstance(k, SArr) and k.dtype != "bool":
            kf = k.snapshot()
            by_code = bool(V.SAFETY[0])
            rm = lambda i: A.norm_index(kf((i,)), self.n, force=by_code)
            return RotV(_n=k.shape[0], _matf=lambda i: mf(rm(i)), _quatf=(lambda i: qf(rm(i))) if qf else None,
                        _unit=self.unit)
        if V.is_num(k):
            kk = A.norm_index(k, self.n)
            return RotV(_matf=lambda i: mf(kk), _quatf=(lambda i: qf(kk)) if qf else None, _unit=self.unit)
        raise Unsupported("Rotation index of this kind")

    def __iter__(self):
        if self.n is None:
            raise TypeError("Single rotation is not iterable")
        if not isinstance(self.n, int):
            raise Unsupported("iteration over a symbolic-length Rotation")
        return iter([self[i] for i in range(self.n)])

    # quaternion view -------------------------------------------------------------------
    def as_quat(self, canonical=False, scalar_first=False):
        me = self
        if self.quatf is not None and self.unit:
            qf = self.quatf
        elif self.quatf is not None:
            raw = self.quatf

            def qf(i):
                q = raw(i)
                n2 = sum_(V.arith("*", c, c) for c in q)
                if not is_sym(n2) and n2 == 1:
                    return q
                from .stubs import _sqrt
                nrm = _sqrt(n2)
                return tuple(V.arith("/", c, nrm) for c in q)
        else:
            # uninterpreted unit quaternion of a matrix: Q_c(m00..m22) with M(Q(m)) = m and |Q| = 1 (lazy instances)
            def qf(i):
                m = me.row(i)
                flat = [V.lift(V.to_real(x) if is_sym(x) else Fraction(x)) for r_ in m for x in r_]
                q = tuple(Sym(_QF[c](*flat)) for c in range(4))
                p = V.PATH[0]
                if p is not None:
                    mq = quat_to_matrix(q)
                    p.assume(V.compare("==", sum_(V.arith("*", c, c) for c in q), 1))
                    for a in range(3):
                        for b in range(3):
                            p.assume(V.compare("==", mq[a][b], m[a][b]))
                return q
        if self.n is None:
            return A.from_nested(list(qf(0)), "real")
        return SArr((self.n, 4), lambda idx: _sel1(list(qf(idx[0])), idx[1]), "real")

    # rotation-vector view (uninterpreted, with the round-trip axiom as lazy instances) ------------------
    def as_rotvec(self, degrees=False):
        me = self

        def rv(i):
            m = me.row(i)
            flat = [V.lift(V.to_real(x) if is_sym(x) else Fraction(x)) for r_ in m for x in r_]
            v = tuple(Sym(_RVINV[c](*flat)) for c in range(3))
            p = V.PATH[0]
            if p is not None:
                # from_rotvec(as_rotvec(R)) == R
                back = [[Sym(_RV[a][b](*[V.lift(x) for x in v])) for b in range(3)] for a in range(3)]
                for a in range(3):
                    for b in range(3):
                        p.assume(V.compare("==", back[a][b], m[a][b]))
            return v
        if self.n is None:
            return A.from_nested(list(rv(0)), "real")
        return SArr((self.n, 3), lambda idx: _sel1(list(rv(idx[0])), idx[1]), "real")

    @staticmethod
    def from_rotvec(rotvec, degrees=False):
        v = A.from_nested(rotvec)
        f = v.snapshot()

        def mat(vec):
            args = [V.lift(V.to_real(x) if is_sym(x) else Fraction(x)) for x in vec]
            return [[Sym(_RV[a][b](*args)) for b in range(3)] for a in range(3)]
        if v.ndim == 1:
            return RotV(_matf=lambda i: mat([f((k,)) for k in range(3)]))
        return RotV(_n=v.shape[0], _matf=lambda i: mat([f((i, k)) for k in range(3)]))

    @staticmethod
    def concatenate(rots):
        rots = list(rots)
        if not all(isinstance(r.n, int) or r.n is None for r in rots):
            raise Unsupported("Rotation.concatenate of symbolic-length batches")
        rows = []
        for r in rots:
            if r.n is None:
                rows.append((r, 0))
            else:
                rows.extend((r, i) for i in range(r.n))
        return RotV(_n=len(rows), _matf=lambda i: rows[i][0].row(rows[i][1]) if isinstance(i, int) else _unsup())


def _unsup():
    raise Unsupported("symbolic row of a concatenated Rotation")


_R9 = [z3.RealSort()] * 9
_QF = [z3.Function(f"QuatOf_{c}", *_R9, z3.RealSort()) for c in range(4)]
_RVINV = [z3.Function(f"RotvecOf_{c}", *_R9, z3.RealSort()) for c in range(3)]
_RV = [[z3.Function(f"FromRotvec_{a}{b}", z3.RealSort(), z3.RealSort(), z3.RealSort(), z3.RealSort())
        for b in range(3)] for a in range(3)]


def _sel1(items, k):
    if isinstance(k, int):
        return items[k]
    r = items[-1]
    for j in range(len(items) - 2, -1, -1):
        r = V.ite(V.compare("==", k, j), items[j], r)
    return r


def _sel2(m, a, b):
    if isinstance(a, int) and isinstance(b, int):
        return m[a][b]
    rows = [_sel1(m[i], b) for i in range(3)]
    return _sel1(rows, a)


def from_rotvec_matrix(vec):
    """spec-level access to the uninterpreted Rodrigues map (for lemma instances in contracts)"""
    args = [V.lift(V.to_real(x) if is_sym(x) else Fraction(x)) for x in vec]
    return [[Sym(_RV[a][b](*args)) for b in range(3)] for a in range(3)]


def register(REG):
    REG["scipy.spatial.transform.Rotation"] = RotV
