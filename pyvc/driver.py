"""Per-property driver: obligations from the real source + sidecar contracts, discharge, triage,
counter-example replay on the real code, known findings, evidence."""
from __future__ import annotations

import glob
import hashlib
import importlib
import itertools
import json
import os
import subprocess
import sys
import time
import traceback
from fractions import Fraction

import z3

from . import values as V
from .values import Sym, Unsupported, CheckerFault, is_sym
from . import symex as X
from . import stubs as S
from . import contract as C
from . import solve

ROOT = os.path.dirname(os.path.dirname(os.path.abspath(__file__)))
REPLAY_DIR = os.path.join(ROOT, "replays")
EVID_DIR = os.path.join(ROOT, "evidence")
PY = os.path.join(ROOT, ".venv", "bin", "python")

EXTRACTION_DROPS = [
    "type annotations, docstrings and `# type:` comments",
    "warnings.warn(...) treated as a no-op",
    "functools.lru_cache / cache treated as the undecorated function",
    "typing.overload stubs skipped",
    "dtype arguments: np.float32/64 -> mathematical real, integer dtypes -> mathematical int "
    "(astype(int)/int() = truncation toward zero, no overflow)",
    "`if TYPE_CHECKING:` blocks",
]

SEMANTICS_ASSUMED = [
    "machine floating point treated as mathematical reals (no rounding, NaN or inf)",
    "fixed-width integers treated as mathematical integers (no overflow)",
    "termination is not proved",
    "Python semantics as encoded in pyvc/symex.py (not cross-checked against CPython as a whole: every refutation is replayed on the real interpreter, library contracts are spot-checked by tools/conform.py)",
]


def load_contracts():
    sys.path.insert(0, ROOT)
    for f in sorted(glob.glob(os.path.join(ROOT, "contracts", "C*.py"))):
        importlib.import_module("contracts." + os.path.basename(f)[:-3])
    return C.REGISTRY


def load_known_findings():
    out = []
    p = os.path.join(ROOT, "known_findings.jsonl")
    if os.path.exists(p):
        for line in open(p):
            line = line.strip()
            if not line or line.startswith("#") or line.startswith("fixed:"):
                continue
            out.append(json.loads(line))
    return out


class FuncReport:
    def __init__(self, key):
        self.key = key
        self.obligations = []     # (name, hyps, goal, meta)
        self.canaries = []
        self.paths = {"return": 0, "raise": 0, "dead": 0}
        self.inlined = set()
        self.modular = set()
        self.source_sha = None
        self.file = None
        self.cases = 0
        self.requires_sat = None
        self.trusted = False


def new_interp(contracts):
    V.reset_fresh()
    it = X.Interp(S.REG, contracts)
    return it


def _known_hyps(interp, contract, known, full_name, bound, extra=None):
    """hypotheses `not class` for the known findings recorded against this obligation (the complement proof)"""
    out, hits = [], []
    for k in known or ():
        if k["obligation"] == full_name or full_name.startswith(k["obligation"] + "["):
            c = contract.eval_clause(interp, k["class"], bound, extra)
            out.append(V._bool_term(V.snot(c)) if is_sym(c) else z3.BoolVal(not c))
            hits.append(k)
    return out, hits


def gen_function(contract, contracts, known=()):
    """symbolically execute the real function under its contract -> FuncReport"""
    rep = FuncReport(contract.key)
    interp0 = new_interp(contracts)
    f = interp0.resolve(contract.key, raw=True)
    if isinstance(f, X.Closure):
        raise CheckerFault(f"{contract.key}: decorated function resolved to a closure; give the undecorated name")
    if not isinstance(f, X.RepoFunc):
        raise CheckerFault(f"{contract.key} is not a function")
    rep.source_sha = f.source_hash()
    rep.file = f.module.path
    argnames = [a.arg for a in f.node.args.posonlyargs + f.node.args.args + f.node.args.kwonlyargs]
    for p in contract.params:
        if p not in argnames and not p.startswith("_"):
            raise CheckerFault(f"{contract.key}: contract parameter {p!r} is not a parameter of the real function "
                               f"{argnames}")
    names = list(contract.params)
    case_lists = [contract.params[n].cases() for n in names]
    for case_i, combo in enumerate(itertools.product(*case_lists)):
        rep.cases += 1
        specs = dict(zip(names, combo))
        case_tag = ""
        consts = {n: s.value for n, s in specs.items() if isinstance(s, C.TConst) and isinstance(contract.params[n], C.TOneOf)}
        tagged = {}
        for (n, s), cs in zip(specs.items(), case_lists):
            if len(cs) > 1:
                idx = [id(c) for c in cs].index(id(s))
                tagged[n] = s.value if hasattr(s, "value") else f"{type(s).__name__[1:]}{idx}"
                if sum(1 for c in cs if getattr(c, "value", None) == tagged[n]) > 1:
                    tagged[n] = f"{tagged[n]}#{idx}"
        if tagged:
            case_tag = "[" + ",".join(f"{k}={v}" for k, v in tagged.items()) + "]"
        interp = new_interp(contracts)
        interp.current_target = contract.key
        if contract.setup:
            contract.setup(interp)
        f = interp.resolve(contract.key, raw=True)
        explorer = X.Explorer()

        def body(path, interp=interp, f=f, specs=specs):
            interp.path = path
            path.interp = interp
            interp.depth = 0
            interp.call_log = []
            S.GHOST["fft"] = []
            S.GHOST["sum"] = []
            S.GHOST["ndi"] = []
            S.GHOST["mean"] = []
            S.GHOST["masked_mean"] = []
            S.GHOST["sum_labels"] = []
            S.GHOST["flatten"] = []
            S.GHOST["overlap"] = []
            interp.write_log = []
            from . import frames as _frames
            _frames.ROWMAPS.clear()
            _frames.FS.clear()
            interp.cached_calls = set()
            interp.cached_mutated = False
            interp.spec = 0
            V.reset_fresh()
            bound = {n: s.fresh(n, path) for n, s in specs.items()}
            ghost = {k: v for k, v in bound.items() if k.startswith("_")}
            for r in contract.requires:
                path.assume(contract.eval_clause(interp, r, bound))
            n_pre = len(path.conds)
            path.pre = list(path.conds)
            call_bound = {k: v for k, v in bound.items() if not k.startswith("_")}
            interp.entry_snapshots = _snapshot_entry(bound)
            try:
                result = interp.exec_function(f, [], call_bound)
            except X.PyRaise as e:
                ename = e.exc.cls.name if isinstance(e.exc, X.Obj) else str(e.exc)
                allowed = None
                for exc_name, cond in list(contract.raises.items()) + list(contract.may_raise.items()):
                    if _exc_is(interp, e.exc, exc_name):
                        allowed = (exc_name, cond)
                        break
                if allowed is None:
                    msg = ""
                    if isinstance(e.exc, X.Obj):
                        msg = str(e.exc.attrs.get("args", ""))[:200]
                    path.oblige(f"no_exception[{ename}]@L{e.lineno or interp.lineno}", False,
                                {"kind": "exception", "exc": ename, "msg": msg})
                else:
                    path.oblige(f"raises.{allowed[0]}.only_when", contract.eval_clause(interp, allowed[1], bound),
                                {"kind": "raises", "clause": allowed[1], "exc": allowed[0]})
                    # exceptional postconditions: what holds when the call is rejected with this exception
                    for cname, text in (getattr(contract, "on_raise", None) or {}).get(allowed[0], {}).items():
                        path.oblige(f"on_raise.{allowed[0]}.{cname}", contract.eval_clause(interp, text, bound),
                                    {"kind": "on_raise", "clause": text, "exc": allowed[0], "specs": specs})
                raise
            # returned normally
            if isinstance(result, X.GenV):
                result = list(result.items)        # a generator function's contract talks about the yielded sequence
            for exc_name, cond in contract.raises.items():
                c = contract.eval_clause(interp, cond, bound)
                path.oblige(f"raises.{exc_name}.whenever", V.snot(c),
                            {"kind": "raises_missing", "clause": cond, "exc": exc_name})
            for name, text in contract.ensures.items():
                if isinstance(text, dict):
                    emit_structured(interp, contract, path, name, text, bound, result, known, case_tag)
                    continue
                try:
                    g = contract.eval_clause(interp, text, bound, {"result": result})
                except X.PyRaise as e:
                    # the clause itself runs program code (e.g. it calls a returned pipeline object): an exception
                    # there means the clause cannot hold
                    ename = e.exc.cls.name if isinstance(e.exc, X.Obj) else str(e.exc)
                    g = False
                    interp_msg = str(e.exc.attrs.get("args", ""))[:160] if isinstance(e.exc, X.Obj) else ""
                    path.notes.append(f"ensures.{name}: evaluation raised {ename} {interp_msg}")
                nat = (contract.native or {}).get(name)
                kh, hits = _known_hyps(interp, contract, known, f"{contract.key}/ensures.{name}{case_tag}", bound,
                                       {"result": result})
                path.oblige(f"ensures.{name}", g, {"kind": "ensures", "clause": nat or text, "clause_name": name,
                                                   "symbolic_clause": text, "known": hits}, extra_hyps=kh)
            for lname, (lvars, ltext) in (contract.lemmas or {}).items():
                # universally quantified lemma over fresh reals, proved without any hypothesis of the path
                ext = {v: Sym(z3.Real(f"lemma_{lname}__{v}")) for v in lvars.split()}
                g = contract.eval_clause(interp, ltext, bound, ext)
                gt = V._bool_term(g) if is_sym(g) else z3.BoolVal(bool(g))
                path.obligations.append(X.Obligation(f"lemma.{lname}", [], gt,
                                                     {"kind": "ensures", "clause": "True", "clause_name": f"lemma.{lname}",
                                                      "lemma": ltext}, []))
            if interp.cached_calls:
                # frame clause decided by the executor's write log: no array returned by a memoised helper (shared
                # between callers and dask workers) was updated in place on this path
                path.oblige("frame.cached_results_read_only", not interp.cached_mutated,
                            {"kind": "safety", "clause": "results of lru_cache'd helpers are not updated in place: "
                             + ", ".join(sorted(k.split(":")[-1] for k in interp.cached_calls))})
            path.oblige("canary", False, {"kind": "canary"})
            return result

        try:
            results = explorer.run(body)
        except Unsupported as e:
            tb = traceback.format_exc()
            raise CheckerFault(f"{contract.key}{case_tag}: outside the executor's subset: {e} "
                               f"(line {interp.lineno})\n{tb[-1500:]}")
        rep.inlined |= interp.inlined
        rep.modular |= interp.modular_calls
        for pi, r in enumerate(results):
            rep.paths[r.kind] += 1
            for ob in r.path.obligations:
                meta = dict(ob.meta)
                meta.update({"function": contract.key, "case": consts, "path": pi, "decisions": list(r.path.taken),
                             "specs": specs})
                full = f"{contract.key}/{ob.name}{case_tag}@p{pi}"
                meta["opt"] = ob.opt
                if meta.get("kind") == "canary":
                    rep.canaries.append((full, ob.hyps, ob.goal, meta))
                else:
                    rep.obligations.append((full, ob.hyps, ob.goal, meta))
    return rep


def _snapshot_entry(bound):
    """entry-state copies of mutable inputs, for old(...) in postconditions"""
    from .arrays import SArr
    snaps = {}

    def snap(v, depth=0):
        if id(v) in snaps or depth > 3:
            return
        if isinstance(v, SArr):
            snaps[id(v)] = (v, v.copy())
        elif isinstance(v, X.Obj):
            cp = X.Obj(v.cls, dict(v.attrs))
            snaps[id(v)] = (v, cp)
            for k, a in v.attrs.items():
                snap(a, depth + 1)
            for k, a in list(cp.attrs.items()):
                if id(a) in snaps and isinstance(a, SArr):
                    cp.attrs[k] = snaps[id(a)][1]
        elif isinstance(v, list):
            snaps[id(v)] = (v, list(v))
        elif isinstance(v, dict):
            snaps[id(v)] = (v, dict(v))
    for v in bound.values():
        snap(v)
    return snaps


def emit_structured(interp, contract, path, name, spec, bound, result, known=(), case_tag=""):
    """ensures clause with universally quantified variables and a proof chain:
         forall vars. assume => show        proved as  assume & steps[<i] => steps[i]  and  assume & steps => show
       (cut rule; the variables are skolem constants, which is complete for a goal)."""
    extra = {"result": result}
    for v, kind in spec.get("vars", {}).items():
        extra[v] = Sym(z3.Real(f"{name}__{v}") if kind == "real" else z3.Int(f"{name}__{v}"))
    saved = list(path.conds)
    try:
        if spec.get("assume"):
            path.assume(contract.eval_clause(interp, spec["assume"], bound, extra))
        native_clause = (contract.native or {}).get(name) or \
            "implies(%s, %s)" % (spec.get("assume") or "True", spec["show"])
        kh, hits = _known_hyps(interp, contract, known, f"{contract.key}/ensures.{name}{case_tag}", bound, extra)
        for h in kh:
            path.conds.append(h)
        for u in spec.get("use", []):
            # instances of lemmas that are proved universally (obligation `lemma.<name>` of the same contract)
            lname = u.replace("all(", "", 1).split("(", 1)[0].strip()
            if lname not in (contract.lemmas or {}):
                raise CheckerFault(f"{contract.key}: `use` of {lname!r}, which is not a declared lemma")
            path.assume(contract.eval_clause(interp, u, bound, extra))
        for u in spec.get("use_axiom", []):
            # instance of a TRUSTED axiom declared by the contract (reported in the evidence's trusted base)
            aname = u.split("(", 1)[0].strip()
            if aname not in (getattr(contract, "axioms", None) or {}):
                raise CheckerFault(f"{contract.key}: `use_axiom` of {aname!r}, which is not a declared axiom")
            path.assume(contract.eval_clause(interp, u, bound, extra))
        for i, st in enumerate(spec.get("steps", [])):
            hint = None
            if isinstance(st, (tuple, list)):
                st, hint = st
            g = contract.eval_clause(interp, st, bound, extra)
            path.oblige(f"ensures.{name}.step{i}", g,
                        {"kind": "ensures", "clause": native_clause, "clause_name": name, "step": st, "hint": hint,
                         "qvars": {v: f"{name}__{v}" for v in spec.get("vars", {})}})
            path.assume(g)
        g = contract.eval_clause(interp, spec["show"], bound, extra)
        path.oblige(f"ensures.{name}", g, {"kind": "ensures", "clause": native_clause, "clause_name": name,
                                           "hint": spec.get("hint"),
                                           "qvars": {v: f"{name}__{v}" for v in spec.get("vars", {})}})
    finally:
        path.conds[:] = saved


def _exc_is(interp, exc, name):
    if not isinstance(exc, X.Obj):
        return False
    cls = exc.cls
    if isinstance(cls, X.ExcClass):
        c = cls
        while c is not None:
            if c.name == name:
                return True
            c = c.base
        return False
    for c in cls.mro(interp):
        if getattr(c, "name", None) == name:
            return True
    return False


# ---------------------------------------------------------------------------
# replay


def _split_key(key):
    mod, qn = key.split(":")
    return mod, qn


def build_replay(pid, contract, ob_name, meta, model, verdict_raw):
    """write a stand-alone script that runs the REAL function on the counter-model and evaluates the clause"""
    os.makedirs(REPLAY_DIR, exist_ok=True)
    specs = meta["specs"]
    args_src = {n: s.src(n, model) for n, s in specs.items()}
    mod, qn = _split_key(contract.key)
    h = hashlib.sha1((ob_name + json.dumps({k: str(v) for k, v in model.items()}, sort_keys=True)).encode()).hexdigest()[:10]
    path = os.path.join(REPLAY_DIR, f"{pid}-{h}.py")
    if contract.native_call:
        call = contract.native_call
    elif "." in qn:
        call = None
    else:
        call = f"_mod.{qn}(**{{k: v for k, v in args.items() if not k.startswith('_')}})"
    kind = meta.get("kind")
    src = contract.replay(ob_name, meta, model) if contract.replay else None
    if src is None and kind == "on_raise":
        with open(path, "w") as f:
            f.write("#!/verif/.venv/bin/python\n# refuted exceptional postcondition; the contract offers no scenario for it\n"
                    f"# property   : {pid}\n# obligation : {ob_name}\n# clause     : {meta.get('clause', '')}\n"
                    "import sys\nprint('NO-FAILING-INPUT: no native scenario for this exceptional postcondition')\nsys.exit(2)\n"
                    "\n# solver output (truncated):\n" + "\n".join("# " + ln for ln in (verdict_raw or "").splitlines()[:60]) + "\n")
        os.chmod(path, 0o755)
        return path
    if src is not None:
        with open(path, "w") as f:
            f.write("#!/verif/.venv/bin/python\n# replay of a refuted obligation on the real code (public entry point)\n"
                    f"# property   : {pid}\n# obligation : {ob_name}\n# clause     : {meta.get('clause', '')}\n"
                    f"import sys\nsys.path.insert(0, {ROOT!r})\nmodel = {({k: str(v) for k, v in model.items()})!r}\n"
                    + src + "\n\n# solver output (truncated):\n"
                    + "\n".join("# " + ln for ln in (verdict_raw or "").splitlines()[:60]) + "\n")
        os.chmod(path, 0o755)
        return path
    lines = [
        "#!/verif/.venv/bin/python",
        f"# replay of a refuted obligation on the real code",
        f"# property   : {pid}",
        f"# obligation : {ob_name}",
        f"# kind       : {kind}",
        f"# clause     : {meta.get('clause', '')}",
        "import sys, importlib",
        f"sys.path.insert(0, {ROOT!r})",
        "import numpy as np",
        "from dask import array as da",
        "from pyvc.native import HELPERS, _generic_array, _rotation_from_matrix, _Backend",
        "from pyvc import contract as _C",
        "from pyvc.driver import load_contracts as _load_contracts",
        "_load_contracts()",
        f"_c = _C.REGISTRY[{contract.key!r}]",
        contract.imports or "",
        f"_mod = importlib.import_module({mod!r})",
        "model = " + repr({k: str(v) for k, v in model.items()}),
        "args = dict(",
    ]
    for n, s in args_src.items():
        lines.append(f"    {n}={s},")
    lines.append(")")
    lines.append("print('inputs:', {k: (v if not hasattr(v, 'shape') else ('array', getattr(v, 'shape', None))) for k, v in args.items()})")
    if call is None:
        lines += ["print('NO-FAILING-INPUT: no native call template for this function')", "sys.exit(2)"]
    else:
        lines += [
            "# pre-state of a molecules receiver (native clauses may refer to _old_rot / _old_pos)",
            "_old_rot = _old_pos = None",
            "try:",
            "    _s = args.get('self')",
            "    if _s is not None and hasattr(_s, 'rotator') and hasattr(_s, 'pos'):",
            "        _old_rot = np.array(_s.rotator.as_matrix(), copy=True); _old_pos = np.array(_s.pos, copy=True)",
            "except Exception:",
            "    pass",
            "raised = None; result = None",
            "try:",
            f"    result = {call}",
            "except Exception as e:",
            "    raised = e",
            "print('result:', result if raised is None else None, '| raised:', repr(raised))",
            "env = dict(HELPERS); env.update(getattr(_c, 'native_helpers', None) or _c.helpers); env.update(args); env['result'] = result",
            "env.update({'_old_rot': _old_rot, '_old_pos': _old_pos, '_mod': _mod})",
            "env.update({'model': model, 'np': np, 'max': max, 'min': min, 'abs': abs, 'len': len, 'all': all, 'any': any, 'int': int, 'float': float, 'round': round, 'slice': slice, 'tuple': tuple, 'zip': zip, 'range': range, 'sum': sum, 'isinstance': isinstance})",
        ]
        clause = meta.get("clause", "")
        if meta.get("qvars"):
            for v, mname in meta["qvars"].items():
                val = model.get(mname, 0)
                lines.append(f"env[{v!r}] = {C._num_src(val) if not isinstance(val, str) else 0}")
            lines.append("print('quantified variables:', {k: env[k] for k in %r})" % list(meta["qvars"]))
        if kind == "ensures":
            lines += [
                "if raised is not None and type(raised).__name__ in %r:" % sorted(set(contract.raises) | set(contract.may_raise)),
                "    print('NO-FAILING-INPUT: the generic replay input made the real code raise an exception the contract permits (' + repr(raised) + '): the clause is not exercised by this input')",
                "    sys.exit(2)",
                "if raised is not None:",
                "    print('real code raised an exception under a satisfied precondition instead of returning:', repr(raised))",
                "    print('CONFIRMED'); sys.exit(1)",
                "try:",
                f"    ok = bool(eval({clause!r}, env))",
                "except (NameError, SyntaxError) as _e:",
                "    print('REPLAY-ERROR: the native clause itself is broken:', repr(_e)); sys.exit(3)",
                "except Exception as _e:",
                "    print('evaluating the clause on the real objects raised', repr(_e)); ok = False",
                "print('clause holds natively:', ok)",
                "print('CONFIRMED' if not ok else 'NOT-CONFIRMED'); sys.exit(1 if not ok else 0)",
            ]
        elif kind == "raises":
            lines += [
                f"if raised is None or type(raised).__name__ != {meta.get('exc')!r} and {meta.get('exc')!r} not in [c.__name__ for c in type(raised).__mro__]:",
                "    print('NOT-CONFIRMED: real code did not raise this exception'); sys.exit(0)",
                f"allowed = bool(eval({clause!r}, env))",
                "print('exception raised; raise-condition holds:', allowed)",
                "print('CONFIRMED' if not allowed else 'NOT-CONFIRMED'); sys.exit(1 if not allowed else 0)",
            ]
        elif kind == "raises_missing":
            lines += [
                f"must = bool(eval({clause!r}, env))",
                "print('raise-condition holds:', must, '; raised:', repr(raised))",
                "bad = must and raised is None",
                "print('CONFIRMED' if bad else 'NOT-CONFIRMED'); sys.exit(1 if bad else 0)",
            ]
        elif kind == "exception":
            lines += [
                "bad = raised is not None",
                "print('unexpected exception under a satisfied precondition:', repr(raised))",
                "print('CONFIRMED' if bad else 'NOT-CONFIRMED'); sys.exit(1 if bad else 0)",
            ]
        elif ".frame." in ob_name or "/frame." in ob_name:
            # frame obligation on memoised helpers: the real function, called twice with equal inputs, must give equal
            # results (an in-place update of a cached grid changes what the next caller / worker thread gets)
            lines += [
                "first = result; raised1 = raised",
                "try:",
                f"    result = {call}",
                "except Exception as e:",
                "    raised = e",
                "def _same(a, b):",
                "    if isinstance(a, (tuple, list)):",
                "        return len(a) == len(b) and all(_same(x, y) for x, y in zip(a, b))",
                "    try:",
                "        return bool(np.array_equal(np.asarray(a), np.asarray(b), equal_nan=True))",
                "    except Exception:",
                "        return True",
                "bad = (raised is None) != (raised1 is None) or (raised is None and not _same(first, result))",
                "print('same inputs, second call gives the same result:', not bad)",
                "print('CONFIRMED' if bad else 'NO-FAILING-INPUT'); sys.exit(1 if bad else 2)",
            ]
        else:
            # safety / call-site precondition: the concrete run must fail (exception) or the clause be false
            lines += [
                "bad = raised is not None",
                "print('safety/precondition obligation; real run raised:', repr(raised))",
                "print('CONFIRMED' if bad else 'NO-FAILING-INPUT'); sys.exit(1 if bad else 2)",
            ]
    lines.append("")
    lines.append("# solver output (truncated):")
    for ln in (verdict_raw or "").splitlines()[:60]:
        lines.append("# " + ln)
    with open(path, "w") as f:
        f.write("\n".join(lines) + "\n")
    os.chmod(path, 0o755)
    return path


def run_replay(path):
    try:
        p = subprocess.run([PY, path], capture_output=True, text=True, timeout=300,
                           env={**os.environ, "PYTHONPATH": X.REPO + os.pathsep + ROOT})
    except subprocess.TimeoutExpired:
        return "timeout", ""
    out = (p.stdout + p.stderr)
    out = "\n".join(l for l in out.splitlines() if "conda.cli" not in l)
    if "NOT-CONFIRMED" in p.stdout:
        return "not-confirmed", out
    if "NO-FAILING-INPUT" in p.stdout:
        return "no-input", out
    if "CONFIRMED" in p.stdout:
        return "confirmed", out
    return "error", out


# ---------------------------------------------------------------------------


import re as _re


def obligation_base(name):
    """obligation id without the path suffix"""
    return name.rsplit("@p", 1)[0]


def stable_name(name):
    """obligation id without path number and source line (stable under unrelated edits)"""
    n = name.rsplit("@p", 1)[0]
    n = _re.sub(r"@L\d+(\.ax\d+)?", "", n)
    return n


def load_baseline():
    p = os.path.join(ROOT, "baseline_obligations.json")
    if os.path.exists(p):
        return json.load(open(p))
    return {}


class PropertyRun:
    def __init__(self, pid, tier, seed):
        self.pid, self.tier, self.seed = pid, tier, seed
        self.t0 = time.time()
        self.reports = []
        self.results = []        # (name, verdict, backend, time, meta)
        self.violations = []
        self.known_hits = []
        self.undecided = []
        self.faults = []
        self.bounded = []
        self.extra_assumptions = []
        self.extra_trusted = []
        self.canaries_refuted = 0
        self.canaries_total = 0
        self.lines = []

    def say(self, s):
        print(s, flush=True)
        self.lines.append(s)


def check_property(pid, tier="quick", seed=0, bounded_hooks=None, only=None, write_baseline=False):
    baseline = load_baseline()
    contracts = load_contracts()
    known = [k for k in load_known_findings() if k["property"] == pid]
    run = PropertyRun(pid, tier, seed)
    timeout = 40 if tier == "quick" else 120      # per-query budget of the long round (the first round uses 4 s)
    mine = [c for c in contracts.values() if pid in c.props and (only is None or only in c.key)]
    if not mine:
        run.say(f"CHECKER-FAULT property={pid}: no contracts")
        return finish(run, 3)
    all_obs = []
    for c in mine:
        if c.trusted or not c.verify:
            rep = FuncReport(c.key)
            rep.trusted = True
            run.reports.append(rep)
            continue
        try:
            rep = gen_function(c, contracts, known)
        except CheckerFault as e:
            run.say(f"CHECKER-FAULT property={pid} function={c.key}: {e}")
            run.faults.append(str(e))
            continue
        run.reports.append(rep)
        live = rep.paths["return"] + rep.paths["raise"]
        if live == 0:
            run.say(f"CHECKER-FAULT property={pid} function={c.key}: no live path (vacuous precondition?)")
            run.faults.append(f"{c.key}: no live path")
            continue
        if c.ignore:
            dropped = [o for o in rep.obligations if any(s_ in o[0] for s_ in c.ignore)]
            rep.obligations = [o for o in rep.obligations if not any(s_ in o[0] for s_ in c.ignore)]
            if dropped:
                run.extra_assumptions.append(f"{c.key}: {len(dropped)} generated obligation(s) matching {c.ignore} are not "
                                             f"obligations of this function by its contract (reason in the contract's docstring / comment)")
        sel = c.only.get(pid)
        if sel:
            rep.obligations = [o for o in rep.obligations if any(s_ in o[0] for s_ in sel)]
            rep.only = list(sel)
        n_ens = sum(1 for o in rep.obligations if sel or o[3].get("kind") in ("ensures", "raises", "raises_missing", "exception"))
        if n_ens == 0:
            run.say(f"CHECKER-FAULT property={pid} function={c.key}: zero contract obligations generated")
            run.faults.append(f"{c.key}: zero obligations")
            continue
        for (name, hyps, goal, meta) in rep.obligations:
            all_obs.append((f"{pid}/{name}", list(hyps), goal, meta, c))
        for (name, hyps, goal, meta) in rep.canaries:
            all_obs.append((f"{pid}/{name}", hyps, goal, meta, c))
    if run.faults:
        return finish(run, 3)

    def _cands(m):
        """combined candidate instantiations: every parameter that offers candidates is pinned (k-th of each)"""
        per = []
        for n, sp in (m.get("specs") or {}).items():
            c = sp.candidates(n)
            if c:
                per.append(c)
        if not per:
            return []
        out = []
        for k in range(min(4, max(len(p) for p in per))):
            subst, extra, label = {}, [], {}
            for p in per:
                c = p[min(k, len(p) - 1)]
                if isinstance(c, dict):
                    subst.update(c)
                elif len(c) == 3:
                    subst.update(c[0])
                    extra.extend(c[1])
                    label.update(c[2])
                else:
                    extra.extend(c[0])
                    label.update(c[1])
            out.append((subst, extra, label))
        return out
    res = solve.discharge_all([(h, [] if m.get("kind") == "canary" else (m.get("opt") or []), g,
                                [] if m.get("kind") == "canary" else _cands(m), m.get("hint"))
                               for (n, h, g, m, c) in all_obs], timeout_s=timeout)
    exit_code = 0
    for (name, hyps, goal, meta, c), r in zip(all_obs, res):
        if meta.get("kind") == "canary":
            run.canaries_total += 1
            if r["verdict"] == "sat":
                run.canaries_refuted += 1
            elif r["verdict"] == "unsat":
                # path infeasible under the precondition: dead path, listed
                meta["dead_under_pre"] = True
            continue
        run.results.append({"name": name, "verdict": r["verdict"], "backend": r["backend"], "time": round(r["time"], 3), "stage": r.get("stage"),
                            "clause": meta.get("clause"), "kind": meta.get("kind")})
        if r["verdict"] == "unsat":
            continue
        if r["verdict"] == "unknown":
            run.undecided.append(name)
            run.say(f"UNDECIDED property={pid} obligation={name} (z3 and cvc5 gave no verdict in {timeout}s)")
            continue
        # refuted: replay on the real code
        path = build_replay(pid, c, name, meta, r["model"], r["raw"])
        status, out = run_replay(path)
        meta_short = {k: str(v) for k, v in r["model"].items() if "!" not in k}
        if status == "confirmed":
            run.violations.append({"obligation": name, "replay": path, "model": meta_short})
            run.say(f"VIOLATION property={pid} replay={path}")
            run.say(f"  failed obligation: {name}")
            run.say(f"  clause: {meta.get('clause')}")
            run.say(f"  counterexample: {meta_short}")
            for l in out.splitlines()[-6:]:
                run.say("  | " + l)
        elif stable_name(name) in baseline.get(pid, []) and status in ("not-confirmed", "no-input"):
            # the obligation was discharged on the reference tree and is refuted now; no concrete failing input
            with open(path, "a") as f:
                f.write("\n# native replay did not reproduce the counter-model (%s); the obligation was discharged on the\n"
                        "# reference tree (baseline_obligations.json) and is refuted on this tree: no-failing-input-found\n" % status)
            run.violations.append({"obligation": name, "replay": path, "model": meta_short, "no_failing_input": True})
            run.say(f"VIOLATION property={pid} replay={path} no-failing-input-found")
            run.say(f"  failed obligation: {name} (discharged on the reference tree, refuted now; stage {r.get('stage')})")
            run.say(f"  clause: {meta.get('clause')}")
            run.say(f"  solver model: {meta_short}")
        elif r.get("candidate_only") or meta.get("step"):
            # (a failed intermediate proof step is a failed hint, not a property violation)
            run.undecided.append(name)
            run.say(f"UNDECIDED property={pid} obligation={name}: candidate counter-model (weakened query) not "
                    f"confirmed on the real code; replay={path}")
        else:
            run.faults.append(f"{name}: counter-model not reproduced natively ({status})")
            run.say(f"CHECKER-FAULT property={pid} obligation={name}: solver counter-model {meta_short} was not "
                    f"confirmed on the real code ({status}); replay={path}")
            for l in out.splitlines()[-8:]:
                run.say("  | " + l)
    # known findings: replay recorded witnesses
    for k in known:
        st = replay_known(pid, k, contracts)
        if st == "confirmed":
            run.known_hits.append(k)
            run.say(f"KNOWN-FINDING: property={pid} {k['what']}")
        elif st == "gone":
            run.say(f"note: known finding no longer reproduces: {k['what']}")
        else:
            run.faults.append(f"known-finding witness replay failed: {k['what']} ({st})")
            run.say(f"CHECKER-FAULT property={pid}: known-finding witness replay error ({st}): {k['what']}")
    # bounded stand-ins and extra checks
    if bounded_hooks:
        for hook in bounded_hooks:
            try:
                hook(run)
            except Exception as e:   # a crash in a bounded check is a checker fault, not a verdict
                run.faults.append(f"bounded check crashed: {e!r}")
                run.say(f"CHECKER-FAULT property={pid}: bounded check crashed: {e!r}\n{traceback.format_exc()[-1200:]}")
    if run.violations:
        exit_code = 1
    elif run.faults:
        exit_code = 3
    elif run.undecided:
        exit_code = 2
    if write_baseline and exit_code == 0 and only is None:
        baseline[pid] = sorted({stable_name(r["name"]) for r in run.results if r["verdict"] == "unsat"})
        with open(os.path.join(ROOT, "baseline_obligations.json"), "w") as f:
            json.dump(baseline, f, indent=1, sort_keys=True)
        run.say(f"baseline for {pid}: {len(baseline[pid])} obligation names written")
    return finish(run, exit_code)


def replay_known(pid, k, contracts):
    """run the recorded witness of a known finding on the real code: 'confirmed' | 'gone' | error"""
    w = k.get("witness_script")
    if not w:
        return "confirmed" if k.get("no_witness") else "error:no witness"
    path = os.path.join(ROOT, w)
    try:
        p = subprocess.run([PY, path], capture_output=True, text=True, timeout=300, env={**os.environ, "PYTHONPATH": X.REPO + os.pathsep + ROOT})
    except subprocess.TimeoutExpired:
        return "error:timeout"
    if "NOT-CONFIRMED" in p.stdout:
        return "gone"
    if "CONFIRMED" in p.stdout:
        return "confirmed"
    return "error:" + (p.stdout + p.stderr)[-300:]


def finish(run, exit_code):
    if os.environ.get("PYVC_EVIDENCE_OFF") or os.environ.get("PYVC_REPO"):
        # (a run on a scratch copy with a seeded change: report only, the evidence file belongs to /repo's tree)
        print(f"[{run.pid}] tier={run.tier} violations={len(run.violations)} undecided={len(run.undecided)} "
              f"faults={len(run.faults)} exit={exit_code}")
        return exit_code
    os.makedirs(EVID_DIR, exist_ok=True)
    n_obl = len(run.results)
    n_dis = sum(1 for r in run.results if r["verdict"] == "unsat")
    backends = {}
    for r in run.results:
        backends[r["backend"]] = backends.get(r["backend"], 0) + 1
    funcs = []
    inlined, modular = set(), set()
    for rep in run.reports:
        funcs.append({"function": rep.key, "file": rep.file, "source_sha256_16": rep.source_sha,
                      "paths": rep.paths, "cases": rep.cases, "obligations": len(rep.obligations),
                      "trusted_contract_only": rep.trusted})
        inlined |= rep.inlined
        modular |= rep.modular
    samples = []
    for r in run.results[:8]:
        samples.append(r)
    for r in run.results:
        if r["verdict"] != "unsat" and r not in samples:
            samples.append(r)
    times = [r["time"] for r in run.results] or [0]
    trusted = [
        "z3 %s / cvc5 (CLI, one process per query)" % z3.get_version_string(),
        "pyvc (this repository's VC generator: symex.py, values.py, arrays.py, contract.py)",
        "library contracts in pyvc/stubs.py, rotation.py, frames.py (numpy / scipy / dask / polars behaviour as far as acryo uses it): assumed, spot-checked against the installed libraries by tools/conform.py",
    ] + [f"trusted contract (body not verified): {rep.key}" for rep in run.reports if rep.trusted] + run.extra_trusted
    for c in C.REGISTRY.values():
        if run.pid in c.props:
            for an, doc in (getattr(c, "axioms", None) or {}).items():
                trusted.append(f"trusted axiom {an} ({c.key}): {doc}")
    ev = {
        "property_id": run.pid,
        "tier": run.tier,
        "seed": run.seed,
        "level": "proof",
        "coverage": {
            "obligations": n_obl,
            "discharged": n_dis,
            "checker_cmd": f"./check {run.pid} --tier {run.tier}",
            "trusted_base": trusted,
            "backends": backends,
            "solver_time_s": {"total": round(sum(times), 3), "max": round(max(times), 3)},
            "functions_under_contract": funcs,
            "inlined_callees": sorted(inlined),
            "modular_callees": sorted(modular),
            "canaries_refuted": run.canaries_refuted,
            "canaries_total": run.canaries_total,
            "known_findings_reported": [k["what"] for k in run.known_hits],
            "undecided": run.undecided,
            "faults": run.faults,
            "bounded": run.bounded,
            "extraction_drops": EXTRACTION_DROPS,
            "samples": samples,
            "all_obligations": [{"name": r["name"], "verdict": r["verdict"], "backend": r["backend"],
                                 "stage": r.get("stage"), "time": r["time"]} for r in run.results],
            "explanation": "obligations are generated from /repo's working-tree source on every run; "
                           "'discharged' counts unsat verdicts of (hyps and not goal); bounded stand-ins are listed "
                           "under 'bounded' and are not counted",
        },
        "assumptions": SEMANTICS_ASSUMED + run.extra_assumptions,
        "wall_s": round(time.time() - run.t0, 2),
        "violations": len(run.violations),
        "violation_details": run.violations,
        "exit_code": exit_code,
    }
    with open(os.path.join(EVID_DIR, f"{run.pid}.json"), "w") as f:
        json.dump(ev, f, indent=1, default=str)
    run.say(f"[{run.pid}] tier={run.tier} obligations={n_obl} discharged={n_dis} violations={len(run.violations)} "
            f"known={len(run.known_hits)} undecided={len(run.undecided)} faults={len(run.faults)} "
            f"canaries={run.canaries_refuted}/{run.canaries_total} wall={ev['wall_s']}s exit={exit_code}")
    return exit_code


def seeded_self_test(pid):
    """thorough tier: run this property's check on scratch copies of /repo with each kept seeded change applied and record
    in the evidence file which of them it reports (exit 1) -- the unchanged tree was already decided by the caller"""
    import glob, shutil, tempfile
    seeds = []
    for meta in sorted(glob.glob(os.path.join(ROOT, "seeded", "*", "meta.json"))):
        try:
            m = json.load(open(meta))
        except Exception:
            continue
        if m.get("property") == pid:
            seeds.append(os.path.dirname(meta))
    results = []
    for d in seeds:
        tmp = tempfile.mkdtemp(prefix="pyvc_seed_")
        try:
            shutil.copytree(os.path.join(X.REPO, "acryo"), os.path.join(tmp, "acryo"))
            ap = subprocess.run(["patch", "-p1", "-s", "-d", tmp, "-i", os.path.join(d, "patch.diff")], capture_output=True, text=True)
            if ap.returncode != 0:
                results.append({"seed": os.path.basename(d), "applied": False, "note": (ap.stdout + ap.stderr)[-200:]})
                continue
            env = dict(os.environ, PYVC_REPO=tmp, PYVC_EVIDENCE_OFF="1")
            p = subprocess.run([PY, "-m", "pyvc.cli", pid, "--tier", "quick"], cwd=ROOT, env=env, capture_output=True, text=True)
            viol = [l for l in p.stdout.splitlines() if l.startswith("VIOLATION")]
            results.append({"seed": os.path.basename(d), "applied": True, "exit": p.returncode, "violations": len(viol),
                            "reported": p.returncode == 1})
            print(f"SEEDED-CHANGE {os.path.basename(d)}: exit={p.returncode} violations={len(viol)}")
        finally:
            shutil.rmtree(tmp, ignore_errors=True)
    path = os.path.join(EVID_DIR, f"{pid}.json")
    try:
        ev = json.load(open(path))
        ev["coverage"]["seeded_changes"] = results
        ev["coverage"]["seeded_changes_reported"] = sum(1 for r in results if r.get("reported"))
        ev["coverage"]["seeded_changes_total"] = len(results)
        json.dump(ev, open(path, "w"), indent=1)
    except Exception as e:      # pragma: no cover
        print("could not add the seeded self-test to the evidence file:", e)


def run_conformance(pid):
    """thorough tier: tools/conform.py (library contracts vs. installed libraries); the counts go into the evidence"""
    p = subprocess.run([PY, os.path.join(ROOT, "tools", "conform.py")], capture_output=True, text=True, cwd=ROOT)
    line = [l for l in p.stdout.splitlines() if l.startswith("conformance statements")]
    path = os.path.join(EVID_DIR, f"{pid}.json")
    try:
        ev = json.load(open(path))
        ev["coverage"]["library_contract_conformance"] = {"summary": line[-1] if line else p.stdout[-300:], "exit": p.returncode}
        json.dump(ev, open(path, "w"), indent=1)
    except Exception:
        pass
    print("CONFORMANCE", line[-1] if line else "(no output)")
    return p.returncode != 0
