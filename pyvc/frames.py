"""Trusted contract of polars.DataFrame / Series as far as acryo uses them: a table is a row count `n`, an
ordered list of column names and, per column, a 1-d symbolic array of length n.  Every frame also carries a ghost
column `rowid` (never visible to the program) so that contracts can say which original row a row of a result is.
Row-selecting operations remap all columns (and the ghost) with the same index map."""
from __future__ import annotations

import z3

from . import values as V
from .values import Sym, Unsupported, is_sym
from . import arrays as A
from .arrays import SArr


class SeriesV:
    _pyvc_native = True

    def __init__(self, name, arr):
        self.name, self.arr = name, A.from_nested(arr)

    def __len__(self):
        return self.arr.shape[0]

    def to_numpy(self):
        return self.arr

    def alias(self, name):
        return SeriesV(name, self.arr)

    def unique(self):
        return ValueSet(self.arr)

    def __iter__(self):
        return iter(self.arr)


class ValueSet:
    """the set of values of a column (polars unique() / Python set() of it): only membership is modelled"""
    _pyvc_native = True

    def __init__(self, arr):
        self.arr = arr

    def contains(self, k):
        n = self.arr.shape[0]
        b = V.fresh("member", "bool")
        p = V.PATH[0]
        if p is not None:
            j = z3.Int(V.fresh_name("mj"))
            body = V.compare("==", self.arr.at((Sym(j),)), k)
            ex = z3.Exists([j], z3.And(j >= 0, j < V.lift(n), V._bool_term(body) if is_sym(body) else z3.BoolVal(bool(body))))
            p.conds.append(b.t == ex)
        return b


class FrameV:
    _pyvc_native = True

    def __init__(self, data=None, schema=None, strict=True, n=None, rowid=None, **kw):
        self.cols = {}
        self.n = 0
        if isinstance(data, FrameV):
            self.cols, self.n, self.rowid = dict(data.cols), data.n, data.rowid
            return
        if data is None:
            if schema:
                for name in (schema if not isinstance(schema, dict) else schema.keys()):
                    self.cols[name] = SArr((0,), lambda idx: 0, "real")
            self.n = 0 if n is None else n
        elif isinstance(data, dict):
            for k, v in data.items():
                arr = v.arr if isinstance(v, SeriesV) else A.from_nested(v)
                self.cols[k] = arr
                self.n = arr.shape[0]
        elif isinstance(data, (list, tuple)):
            for s in data:
                if not isinstance(s, SeriesV):
                    raise Unsupported("DataFrame from a list of non-series")
                self.cols[s.name] = s.arr
                self.n = s.arr.shape[0]
        else:
            raise Unsupported(f"DataFrame from {type(data).__name__}")
        if rowid is None:
            f = z3.Function(V.fresh_name("rowid"), z3.IntSort(), z3.IntSort())
            rowid = SArr((self.n,), lambda idx: Sym(f(V.lift(idx[0]))), "int")
        self.rowid = rowid

    # -- constructors used by specs ----------------------------------------
    @staticmethod
    def symbolic(name, n, colnames, kinds=None):
        fr = FrameV.__new__(FrameV)
        fr.n = n
        fr.cols = {}
        for i, c in enumerate(colnames):
            kind = (kinds or {}).get(c, "real")
            rng = {"real": z3.RealSort(), "int": z3.IntSort(), "bool": z3.BoolSort()}[kind]
            f = z3.Function(f"{name}_col_{c}", z3.IntSort(), rng)
            fr.cols[c] = SArr((n,), (lambda f: lambda idx: Sym(f(V.lift(idx[0]))))(f), kind)
        g = z3.Function(f"{name}_rowid", z3.IntSort(), z3.IntSort())
        fr.rowid = SArr((n,), lambda idx: Sym(g(V.lift(idx[0]))), "int")
        return fr

    def _like(self, n, remap):
        """new frame whose row i is row remap(i) of self"""
        fr = FrameV.__new__(FrameV)
        fr.n = n
        fr.cols = {}
        for c, arr in self.cols.items():
            f = arr.snapshot()
            fr.cols[c] = SArr((n,), (lambda f: lambda idx: f((remap(idx[0]),)))(f), arr.dtype)
        g = self.rowid.snapshot()
        fr.rowid = SArr((n,), lambda idx: g((remap(idx[0]),)), "int")
        return fr

    # -- polars API ------------------------------------------------------------
    @property
    def shape(self):
        return (self.n, len(self.cols))

    @property
    def columns(self):
        return list(self.cols)

    @property
    def height(self):
        return self.n

    def __len__(self):
        return self.n

    def clone(self):
        return self._like(self.n, lambda i: i)

    def __iter__(self):
        return iter([SeriesV(c, a) for c, a in self.cols.items()])

    def get_columns(self):
        return list(iter(self))

    def with_columns(self, *exprs, **named):
        fr = self._like(self.n, lambda i: i)
        items = []
        for e in exprs:
            if isinstance(e, (list, tuple)):
                items.extend(e)
            else:
                items.append(e)
        for s in items:
            if not isinstance(s, SeriesV):
                raise Unsupported("with_columns of a non-series expression")
            fr.cols[s.name] = s.arr
        for k, v in named.items():
            fr.cols[k] = v.arr if isinstance(v, SeriesV) else A.from_nested(v)
        return fr

    def select(self, *names):
        ns = []
        for x in names:
            ns.extend(x if isinstance(x, (list, tuple)) else [x])
        fr = self._like(self.n, lambda i: i)
        fr.cols = {c: fr.cols[c] for c in ns}
        return fr

    def drop(self, *names):
        ns = []
        for x in names:
            ns.extend(x if isinstance(x, (list, tuple)) else [x])
        fr = self._like(self.n, lambda i: i)
        for c in ns:
            fr.cols.pop(c)
        return fr

    def __getitem__(self, key):
        if isinstance(key, str):
            if key not in self.cols:
                raise KeyError(key)
            return SeriesV(key, self.cols[key])
        if isinstance(key, slice):
            start, length, step = A.norm_slice(key, self.n)
            return self._like(length, lambda i: V.arith("+", start, i if step == 1 else V.arith("*", i, step)))
        if isinstance(key, SArr) and key.dtype != "bool":
            kf = key.snapshot()
            return self._like(key.shape[0], lambda i: A.norm_index(kf((i,)), self.n))
        if isinstance(key, (list, tuple)):
            ka = A.from_nested(list(key), "int")
            return self[ka]
        raise Unsupported(f"DataFrame[{type(key).__name__}]")

    def head(self, n=5):
        m = V.smin(n, self.n)
        return self._like(m, lambda i: i)

    def tail(self, n=5):
        m = V.smin(n, self.n)
        off = V.arith("-", self.n, m)
        return self._like(m, lambda i: V.arith("+", off, i))


def register(REG):
    REG["polars.DataFrame"] = FrameV
    REG["polars.Series"] = SeriesV
