"""Trusted contract of polars.DataFrame / Series as far as acryo uses them: a table is a row count `n`, an
ordered list of column names and, per column, a 1-d symbolic array of length n.  Every frame also carries a ghost
column `rowid` (never visible to the program) so that contracts can say which original row a row of a result is.
Row-selecting operations remap all columns (and the ghost) with the same index map."""
from __future__ import annotations

import z3

from . import values as V
from .values import Sym, Unsupported, is_sym
from . import arrays as A
from .arrays import SArr


class SeriesV:
    _pyvc_native = True

    def __init__(self, name, arr):
        self.name, self.arr = name, A.from_nested(arr)

    def __len__(self):
        return self.arr.shape[0]

    def to_numpy(self):
        return self.arr

    def alias(self, name):
        out = SeriesV(name, self.arr)
        out.categorical = getattr(self, "categorical", False)
        return out

    def unique(self):
        return ValueSet(self.arr)

    def cut(self, breaks, **kw):
        """polars Series.cut: a categorical column (one uninterpreted category id per row)"""
        f = z3.Function(V.fresh_name("category"), z3.IntSort(), z3.RealSort())
        arr = SArr((self.arr.shape[0],), lambda idx: Sym(f(V.lift(idx[0]))), "real")
        out = SeriesV(self.name, arr)
        out.categorical = True
        return out

    def __iter__(self):
        return iter(self.arr)


class ValueSet:
    """the set of values of a column (polars unique() / Python set() of it): only membership is modelled"""
    _pyvc_native = True

    def __init__(self, arr):
        self.arr = arr

    def contains(self, k):
        n = self.arr.shape[0]
        b = V.fresh("member", "bool")
        p = V.PATH[0]
        if p is not None:
            j = z3.Int(V.fresh_name("mj"))
            body = V.compare("==", self.arr.at((Sym(j),)), k)
            ex = z3.Exists([j], z3.And(j >= 0, j < V.lift(n), V._bool_term(body) if is_sym(body) else z3.BoolVal(bool(body))))
            p.conds.append(b.t == ex)
        return b


class FrameV:
    _pyvc_native = True

    def __init__(self, data=None, schema=None, strict=True, n=None, rowid=None, **kw):
        self.cols = {}
        self.n = 0
        if isinstance(data, FrameV):
            self.cols, self.n, self.rowid = dict(data.cols), data.n, data.rowid
            return
        if data is None:
            if schema:
                for name in (schema if not isinstance(schema, dict) else schema.keys()):
                    self.cols[name] = SArr((0,), lambda idx: 0, "real")
            self.n = 0 if n is None else n
        elif isinstance(data, dict):
            for k, v in data.items():
                arr = v.arr if isinstance(v, SeriesV) else A.from_nested(v)
                self.cols[k] = arr
                self.n = arr.shape[0]
        elif isinstance(data, (list, tuple)):
            for s in data:
                if not isinstance(s, SeriesV):
                    raise Unsupported("DataFrame from a list of non-series")
                self.cols[s.name] = s.arr
                self.n = s.arr.shape[0]
        else:
            raise Unsupported(f"DataFrame from {type(data).__name__}")
        if rowid is None:
            # a frame built from data: row i is "original row i" (derived frames carry the map to these rows)
            rowid = SArr((self.n,), lambda idx: idx[0], "int")
        self.rowid = rowid

    # -- constructors used by specs ----------------------------------------
    @staticmethod
    def symbolic(name, n, colnames, kinds=None):
        fr = FrameV.__new__(FrameV)
        fr.n = n
        fr.cols = {}
        for i, c in enumerate(colnames):
            kind = (kinds or {}).get(c, "real")
            rng = {"real": z3.RealSort(), "int": z3.IntSort(), "bool": z3.BoolSort()}[kind]
            f = z3.Function(f"{name}_col_{c}", z3.IntSort(), rng)
            fr.cols[c] = SArr((n,), (lambda f: lambda idx: Sym(f(V.lift(idx[0]))))(f), kind)
        g = z3.Function(f"{name}_rowid", z3.IntSort(), z3.IntSort())
        fr.rowid = SArr((n,), lambda idx: Sym(g(V.lift(idx[0]))), "int")
        return fr

    def _like(self, n, remap):
        """new frame whose row i is row remap(i) of self"""
        fr = FrameV.__new__(FrameV)
        fr.n = n
        fr.cols = {}
        for c, arr in self.cols.items():
            f = arr.snapshot()
            fr.cols[c] = SArr((n,), (lambda f: lambda idx: f((remap(idx[0]),)))(f), arr.dtype)
        g = self.rowid.snapshot()
        fr.rowid = SArr((n,), lambda idx: g((remap(idx[0]),)), "int")
        fr.catcols = set(getattr(self, "catcols", ()))
        return fr

    # -- polars API ------------------------------------------------------------
    @property
    def shape(self):
        return (self.n, len(self.cols))

    @property
    def columns(self):
        return list(self.cols)

    @property
    def height(self):
        return self.n

    def __len__(self):
        return self.n

    def clone(self):
        return self._like(self.n, lambda i: i)

    def __iter__(self):
        return iter([SeriesV(c, a) for c, a in self.cols.items()])

    def get_columns(self):
        return list(iter(self))

    def with_columns(self, *exprs, **named):
        fr = self._like(self.n, lambda i: i)
        items = []
        for e in exprs:
            if isinstance(e, (list, tuple)):
                items.extend(e)
            else:
                items.append(e)
        for s in items:
            if isinstance(s, ExprV):
                # an expression evaluates to a column of the frame's height (polars broadcasts a scalar and raises on
                # any other length): uninterpreted values under the expression's output name
                fr.cols[s.name] = s.column_on(self, "real")
                continue
            if not isinstance(s, SeriesV):
                raise Unsupported("with_columns of a non-series expression")
            if fr.cols and V.compare("==", s.arr.shape[0], self.n) is False:
                _raise("ShapeError", "series length differs from the frame height")
            fr.cols[s.name] = s.arr
            if getattr(s, "categorical", False):
                fr.catcols = set(getattr(fr, "catcols", ())) | {s.name}
        for k, v in named.items():
            fr.cols[k] = v.arr if isinstance(v, SeriesV) else A.from_nested(v)
        return fr

    def select(self, *names):
        ns = []
        for x in names:
            ns.extend(x if isinstance(x, (list, tuple)) else [x])
        fr = self._like(self.n, lambda i: i)
        fr.cols = {c: fr.cols[c] for c in ns}
        if not fr.cols:
            fr.n = 0            # a polars frame without columns has no rows
        return fr

    def drop(self, *names):
        ns = []
        for x in names:
            ns.extend(x if isinstance(x, (list, tuple)) else [x])
        fr = self._like(self.n, lambda i: i)
        for c in ns:
            if c not in fr.cols:
                _raise("ColumnNotFoundError", c)
            fr.cols.pop(c)
        if not fr.cols:
            fr.n = 0            # a polars frame without columns has no rows
        return fr

    def __getitem__(self, key):
        if isinstance(key, str):
            if key not in self.cols:
                raise KeyError(key)
            return SeriesV(key, self.cols[key])
        if isinstance(key, slice):
            start, length, step = A.norm_slice(key, self.n)
            return self._like(length, lambda i: V.arith("+", start, i if step == 1 else V.arith("*", i, step)))
        if isinstance(key, SArr) and key.dtype != "bool":
            kf = key.snapshot()
            by_code = bool(V.SAFETY[0])
            return self._like(key.shape[0], lambda i: A.norm_index(kf((i,)), self.n, force=by_code))
        if isinstance(key, (list, tuple)):
            ka = A.from_nested(list(key), "int")
            return self[ka]
        raise Unsupported(f"DataFrame[{type(key).__name__}]")

    def head(self, n=5):
        m = V.smin(n, self.n)
        return self._like(m, lambda i: i)

    def tail(self, n=5):
        m = V.smin(n, self.n)
        off = V.arith("-", self.n, m)
        return self._like(m, lambda i: V.arith("+", off, i))


# ---------------------------------------------------------------------------
# ghost log of row-selecting / reordering operations: (op, source frame, result frame, count, map)
ROWMAPS = []


def _raise(name, msg):
    from . import symex as X
    raise X.PyRaise(X.Obj(X.BUILTIN_EXC[name], {"args": (msg,)}))


class ExprV:
    """an opaque polars expression: evaluated on a frame it is an uninterpreted column (any row-wise function)"""
    _pyvc_native = True

    def __init__(self, name="expr"):
        self.name = name

    def _derive(self, *a, **k):
        return ExprV(self.name)

    def alias(self, name):
        return ExprV(name)

    def __getattr__(self, item):
        if item.startswith("_"):
            raise AttributeError(item)
        return self._derive

    __add__ = __sub__ = __mul__ = __truediv__ = __lt__ = __le__ = __gt__ = __ge__ = __eq__ = __ne__ = __and__ = \
        __or__ = __invert__ = __neg__ = _derive
    __hash__ = object.__hash__

    def column_on(self, frame, kind="bool"):
        rng = {"real": z3.RealSort(), "int": z3.IntSort(), "bool": z3.BoolSort()}[kind]
        f = z3.Function(V.fresh_name("exprcol"), z3.IntSort(), rng)
        return SArr((frame.n,), lambda idx: Sym(f(V.lift(idx[0]))), kind)


class ColExpr(ExprV):
    """pl.col(name): comparisons with a value are evaluated on the frame's column (everything else stays opaque)"""

    def __init__(self, name):
        ExprV.__init__(self, name)

    def __eq__(self, other):
        return CmpExpr(self.name, "==", other)

    def __ne__(self, other):
        return CmpExpr(self.name, "!=", other)

    def __lt__(self, other):
        return CmpExpr(self.name, "<", other)

    def __le__(self, other):
        return CmpExpr(self.name, "<=", other)

    def __gt__(self, other):
        return CmpExpr(self.name, ">", other)

    def __ge__(self, other):
        return CmpExpr(self.name, ">=", other)
    __hash__ = object.__hash__


class CmpExpr(ExprV):
    def __init__(self, col, op, value):
        ExprV.__init__(self, col)
        self.col, self.op, self.value = col, op, value

    def column_on(self, frame, kind="bool"):
        if self.col not in frame.cols:
            _raise("ColumnNotFoundError", self.col)
        f = frame.cols[self.col].snapshot()
        return SArr((frame.n,), lambda idx: V.compare(self.op, f((idx[0],)), self.value), "bool")


class RowIndexExpr(ExprV):
    """pl.int_range(pl.len()): the row number; .is_in(values) is the predicate `row number occurs in values`"""

    def __init__(self):
        ExprV.__init__(self, "index")

    def is_in(self, values, **kw):
        return RowInExpr(A.from_nested(values))


class RowInExpr(ExprV):
    def __init__(self, values):
        ExprV.__init__(self, "index")
        self.values = values

    def column_on(self, frame, kind="bool"):
        vf = self.values.snapshot()
        m = self.values.shape[0]

        def fn(idx):
            j = z3.Int(V.fresh_name("inj"))
            hit = V.compare("==", vf((Sym(j),)), idx[0])
            ht = V._bool_term(hit) if is_sym(hit) else z3.BoolVal(bool(hit))
            return Sym(z3.Exists([j], z3.And(j >= 0, j < V.lift(m), ht)))
        return SArr((frame.n,), fn, "bool")


def _mask_of(frame, pred):
    if isinstance(pred, ExprV):
        if getattr(pred, "_mask_for", None) is not None and pred._mask_for[0] is frame:
            return pred._mask_for[1]
        m = pred.column_on(frame, "bool")
        pred._mask_for = (frame, m)
        return m
    if isinstance(pred, SeriesV):
        return pred.arr
    if isinstance(pred, str):
        if pred not in frame.cols:
            _raise("ColumnNotFoundError", pred)
        return frame.cols[pred]
    if isinstance(pred, SArr):
        return pred
    if isinstance(pred, (list, tuple)):
        return A.from_nested(list(pred), "bool")
    raise Unsupported(f"filter predicate {type(pred).__name__}")


def _filter(self, *preds, **constraints):
    if len(preds) != 1 or constraints:
        raise Unsupported("filter with several predicates")
    mask = _mask_of(self, preds[0])
    if mask.ndim != 1:
        _raise("ShapeError", "filter predicate must be 1-d")
    same = V.compare("==", mask.shape[0], self.n)
    p = V.PATH[0]
    if same is not True:
        if same is False or (p is not None and not p.branch(same)):
            _raise("ShapeError", "filter predicate length differs from the frame height")
    cnt, sel, inv = A.mask_selection(mask)
    out = self._like(cnt, sel)
    ROWMAPS.append(("filter", self, out, cnt, sel))
    return out


def _perm(n, name, injective_only=False, count=None):
    """index map [0, count) -> [0, n): injective (sample) or bijective (sort, count == n) -- trusted polars contract"""
    cnt = n if count is None else count
    f = z3.Function(V.fresh_name(name), z3.IntSort(), z3.IntSort())
    g = z3.Function(V.fresh_name(name + "_inv"), z3.IntSort(), z3.IntSort())
    j, i = z3.Int(V.fresh_name("pj")), z3.Int(V.fresh_name("pi"))
    p = V.PATH[0]
    if p is not None:
        nn, cc = V.lift(n), V.lift(cnt)
        p.conds.append(z3.ForAll([j], z3.Implies(z3.And(j >= 0, j < cc), z3.And(f(j) >= 0, f(j) < nn, g(f(j)) == j))))
        if not injective_only:
            p.conds.append(z3.ForAll([i], z3.Implies(z3.And(i >= 0, i < nn), z3.And(g(i) >= 0, g(i) < cc, f(g(i)) == i))))
    return (lambda jj: Sym(f(V.lift(jj)))), (lambda ii: Sym(g(V.lift(ii))))


def _sort(self, by, *more_by, descending=False, nulls_last=False, **kw):
    keys = list(by) if isinstance(by, (list, tuple)) else [by]
    keys += list(more_by)
    for k in keys:
        if isinstance(k, str) and k not in self.cols:
            _raise("ColumnNotFoundError", k)
    fwd, inv = _perm(self.n, "sortperm")
    out = self._like(self.n, fwd)
    # ordered by the first key (ties / further keys: polars' business)
    k0 = keys[0]
    if isinstance(k0, str) and not is_sym(descending):
        col = out.cols[k0]
        j = z3.Int(V.fresh_name("sj"))
        a, b = col.at((Sym(j),)), col.at((Sym(j + 1),))
        le = V.compare(">=" if descending else "<=", a, b)
        p = V.PATH[0]
        if p is not None and is_sym(le):
            p.conds.append(z3.ForAll([j], z3.Implies(z3.And(j >= 0, j + 1 < V.lift(self.n)), V._bool_term(le))))
    ROWMAPS.append(("sort", self, out, self.n, fwd))
    return out


def _sample(self, n=None, *, fraction=None, with_replacement=False, shuffle=False, seed=None):
    if fraction is not None or with_replacement:
        raise Unsupported("sample with fraction / replacement")
    if n is None:
        n = 1
    p = V.PATH[0]
    too_many = V.compare(">", n, self.n)
    if too_many is True or (is_sym(too_many) and p is not None and p.branch(too_many)):
        _raise("ShapeError", "cannot take a larger sample than the total population when `with_replacement=false`")
    fwd, inv = _perm(self.n, "sample", injective_only=True, count=n)
    out = self._like(n, fwd)
    ROWMAPS.append(("sample", self, out, n, fwd))
    return out


def _to_numpy(self, *a, **k):
    names = list(self.cols)
    arrs = [self.cols[c].snapshot() for c in names]
    kinds = {self.cols[c].dtype for c in names}
    kind = "real" if "real" in kinds or not kinds else ("int" if "int" in kinds else "bool")
    if not names:
        return SArr((self.n, 0), lambda idx: 0, "real")

    def fn(idx):
        c = idx[1]
        if isinstance(c, int):
            return arrs[c]((idx[0],))
        r = arrs[-1]((idx[0],))
        for q in range(len(arrs) - 2, -1, -1):
            r = V.ite(V.compare("==", c, q), arrs[q]((idx[0],)), r)
        return r
    return SArr((self.n, len(names)), fn, kind)


def pl_concat(items, how="vertical", **kw):
    """polars.concat of frames: vertical (same columns required) or diagonal (union of columns, missing values null:
    an uninterpreted value per (column, row))"""
    frames = list(items)
    if not frames:
        _raise("ValueError", "cannot concat empty list")
    if how not in ("vertical", "diagonal", "vertical_relaxed", "diagonal_relaxed"):
        raise Unsupported(f"pl.concat(how={how!r})")
    names = []
    for fr in frames:
        for c in fr.cols:
            if c not in names:
                names.append(c)
    if how.startswith("vertical"):
        for fr in frames:
            if list(fr.cols) != names:
                _raise("ShapeError", "unable to vstack, column names / widths don't match")
    total = 0
    offs = []
    for fr in frames:
        offs.append(total)
        total = V.arith("+", total, fr.n)
    out = FrameV.__new__(FrameV)
    out.n = total
    out.cols = {}

    def piece(getters, kind):
        def fn(idx):
            i = idx[0]
            r = None
            for k in range(len(frames) - 1, -1, -1):
                v = getters[k]((V.arith("-", i, offs[k]),))
                if r is None:
                    r = v
                else:
                    r = V.ite(V.compare("<", i, V.arith("+", offs[k], frames[k].n)), v, r)
            return r
        return SArr((total,), fn, kind)
    for c in names:
        kinds = [fr.cols[c].dtype for fr in frames if c in fr.cols]
        kind = "real" if "real" in kinds else kinds[0]
        rng = {"real": z3.RealSort(), "int": z3.IntSort(), "bool": z3.BoolSort()}[kind]
        getters = []
        for fr in frames:
            if c in fr.cols:
                getters.append(fr.cols[c].snapshot())
            else:
                nf = z3.Function(V.fresh_name(f"null_{c}"), z3.IntSort(), rng)
                getters.append(lambda idx, nf=nf: Sym(nf(V.lift(idx[0]))))
        out.cols[c] = piece(getters, kind)
    out.rowid = piece([fr.rowid.snapshot() for fr in frames], "int")
    ROWMAPS.append(("concat", tuple(frames), out, total, tuple(offs)))
    return out


class CatKeyV:
    """key of a group of a categorical (cut) column: the label "(lo, hi]" with uninterpreted edges; only the parse
    acryo performs is modelled: key[1:-1].split(", ") -> two numerals"""
    _pyvc_native = True

    def __init__(self, lo, hi, inner=False):
        self.lo, self.hi, self.inner = lo, hi, inner

    def __getitem__(self, k):
        if isinstance(k, slice) and k.start == 1 and k.stop == -1 and not self.inner:
            return CatKeyV(self.lo, self.hi, True)
        raise Unsupported("indexing a category label")

    def split(self, sep=None):
        if self.inner and sep == ", ":
            return [NumeralV(self.lo), NumeralV(self.hi)]
        raise Unsupported("split of a category label")


class NumeralV:
    _pyvc_native = True

    def __init__(self, v):
        self.v = v

    def _as_float(self):
        return self.v


class GroupByV:
    """polars GroupBy (maintain_order=True) -- trusted contract: G groups; group g has a key value key(g), distinct
    groups have distinct keys, every row's key is the key of exactly one group (Skolem `grp`), and the frame of group g
    is the rows whose key equals key(g), in their original order."""
    _pyvc_native = True

    def __init__(self, frame, keys, categorical=False):
        self.frame, self.keys = frame, list(keys)
        self.categorical = categorical or any(k in getattr(frame, "catcols", ()) for k in self.keys)
        for k in self.keys:
            if k not in frame.cols:
                _raise("ColumnNotFoundError", k)
        name = V.fresh_name("groups")
        self.G = Sym(z3.Int(name + "_count"))
        self.keyf = [z3.Function(f"{name}_key{q}", z3.IntSort(), z3.RealSort()) for q in range(len(self.keys))]
        self.grp = z3.Function(name + "_of_row", z3.IntSort(), z3.IntSort())
        p = V.PATH[0]
        if p is not None:
            n = V.lift(frame.n)
            i, g1, g2 = z3.Int(name + "!i"), z3.Int(name + "!g1"), z3.Int(name + "!g2")
            p.conds.append(z3.And(self.G.t >= 0, self.G.t <= n, z3.Implies(n > 0, self.G.t >= 1)))
            cols = [frame.cols[k].snapshot() for k in self.keys]
            same = z3.And(*[V.lift(V.to_real(c((Sym(i),)))) == kf(self.grp(i)) for c, kf in zip(cols, self.keyf)])
            p.conds.append(z3.ForAll([i], z3.Implies(z3.And(i >= 0, i < n),
                                                     z3.And(self.grp(i) >= 0, self.grp(i) < self.G.t, same))))
            p.conds.append(z3.ForAll([g1, g2], z3.Implies(
                z3.And(g1 >= 0, g1 < self.G.t, g2 >= 0, g2 < self.G.t, *[kf(g1) == kf(g2) for kf in self.keyf]), g1 == g2)))
            # rows of group g: count cnt(g) >= 1 and a strictly increasing map row(g, .) onto the rows with key(g)
            self.cntf = z3.Function(name + "_size", z3.IntSort(), z3.IntSort())
            self.rowf = z3.Function(name + "_row", z3.IntSort(), z3.IntSort(), z3.IntSort())
            self.posf = z3.Function(name + "_pos", z3.IntSort(), z3.IntSort())
            g, j = z3.Int(name + "!g"), z3.Int(name + "!j")
            ing = z3.And(g >= 0, g < self.G.t)
            p.conds.append(z3.ForAll([g], z3.Implies(ing, z3.And(self.cntf(g) >= 1, self.cntf(g) <= n))))
            p.conds.append(z3.ForAll([g, j], z3.Implies(z3.And(ing, j >= 0, j < self.cntf(g)),
                                                        z3.And(self.rowf(g, j) >= 0, self.rowf(g, j) < n,
                                                               self.grp(self.rowf(g, j)) == g,
                                                               self.posf(self.rowf(g, j)) == j))))
            j2 = z3.Int(name + "!j2")
            p.conds.append(z3.ForAll([g, j, j2], z3.Implies(z3.And(ing, j >= 0, j < j2, j2 < self.cntf(g)),
                                                            self.rowf(g, j) < self.rowf(g, j2))))
            # maintain_order=True: groups are ordered by the first row they contain
            g2 = z3.Int(name + "!gb")
            p.conds.append(z3.ForAll([g, g2], z3.Implies(z3.And(ing, g2 >= 0, g2 < self.G.t, g < g2),
                                                         self.rowf(g, 0) < self.rowf(g2, 0))))
            p.conds.append(z3.ForAll([i], z3.Implies(z3.And(i >= 0, i < n),
                                                     z3.And(self.posf(i) >= 0, self.posf(i) < self.cntf(self.grp(i)),
                                                            self.rowf(self.grp(i), self.posf(i)) == i))))
            # derived lemma of the contract above (trusted, spot-checked by tools/conform.py): when no key reappears
            # after a different key ("contiguous" key column) every group is a run of consecutive rows and the groups
            # follow one another; the first group always starts at row 0
            a, b, c = z3.Int(name + "!a"), z3.Int(name + "!b"), z3.Int(name + "!c")

            def keq(x, y):
                return z3.And(*[V.lift(V.to_real(col((Sym(x),)))) == V.lift(V.to_real(col((Sym(y),)))) for col in cols])
            contiguous = z3.ForAll([a, b, c], z3.Implies(z3.And(a >= 0, a < b, b < c, c < n, keq(a, c)), keq(a, b)))
            p.conds.append(z3.Implies(contiguous, z3.And(
                z3.ForAll([g, j], z3.Implies(z3.And(ing, j >= 0, j + 1 < self.cntf(g)), self.rowf(g, j + 1) == self.rowf(g, j) + 1)),
                z3.ForAll([g], z3.Implies(z3.And(g >= 0, g + 1 < self.G.t),
                                          self.rowf(g + 1, 0) == self.rowf(g, self.cntf(g) - 1) + 1)))))
            p.conds.append(z3.Implies(self.G.t > 0, self.rowf(0, 0) == 0))
        self._cache = {}

    def group(self, g):
        """(key tuple, frame of group g, its row count, its row map)"""
        k = g.t.sexpr() if is_sym(g) else g
        if k not in self._cache:
            gt = V.lift(g)
            keyvals = tuple(Sym(kf(gt)) for kf in self.keyf)
            if self.categorical:
                lo = z3.Function(self.keyf[0].name() + "_lo", z3.IntSort(), z3.RealSort())
                hi = z3.Function(self.keyf[0].name() + "_hi", z3.IntSort(), z3.RealSort())
                keyvals = (CatKeyV(Sym(lo(gt)), Sym(hi(gt))),)
            cnt = Sym(self.cntf(gt))
            p = V.PATH[0]
            if p is not None:       # instance of the (quantified) size axiom for this group
                p.assume(Sym(z3.Implies(z3.And(gt >= 0, gt < self.G.t), z3.And(cnt.t >= 1, cnt.t <= V.lift(self.frame.n)))))
            sel = lambda jj, gt=gt: Sym(self.rowf(gt, V.lift(jj)))
            sub = self.frame._like(cnt, sel)
            self._cache[k] = (keyvals, sub, cnt, sel)
        return self._cache[k]

    def _siter(self):
        return self.G, (lambda g: (self.group(g)[0], self.group(g)[1]))

    def __iter__(self):
        raise Unsupported("Python-level iteration over a symbolic number of groups")


def _group_by(self, *by, maintain_order=False, **named):
    keys = []
    for b in by:
        keys.extend(b if isinstance(b, (list, tuple)) else [b])
    if not all(isinstance(k, str) for k in keys) or named:
        raise Unsupported("group_by an expression")
    return GroupByV(self, keys)


def _frame_mentions(self, L):
    from . import loops as _loops
    return _loops.mentions(self.n, L) or any(_loops.mentions(a, L) for a in self.cols.values())


def _frame_subst(self, L, j):
    from . import loops as _loops
    fr = FrameV.__new__(FrameV)
    fr.n = _loops.subst_value(self.n, L, j)
    fr.cols = {c: _loops.subst_value(a, L, j) for c, a in self.cols.items()}
    fr.rowid = _loops.subst_value(self.rowid, L, j)
    return fr


FrameV._mentions = _frame_mentions
FrameV._subst = _frame_subst
SeriesV._mentions = lambda self, L: __import__("pyvc.loops", fromlist=["x"]).mentions(self.arr, L)
SeriesV._subst = lambda self, L, j: SeriesV(self.name, __import__("pyvc.loops", fromlist=["x"]).subst_value(self.arr, L, j))
def _with_row_index(self, name="index", offset=0):
    """polars with_row_index: a new first column holding the row number"""
    fr = self._like(self.n, lambda i: i)
    cols = {name: SArr((self.n,), lambda idx: V.arith("+", idx[0], offset), "int")}
    cols.update(fr.cols)
    fr.cols = cols
    return fr


FrameV.with_row_index = _with_row_index
FrameV.with_row_count = _with_row_index
FrameV.group_by = _group_by
FrameV.filter = _filter
FrameV.sort = _sort
FrameV.sample = _sample
FrameV.to_numpy = _to_numpy
FrameV.is_empty = lambda self: V.compare("==", self.n, 0)
FrameV.width = property(lambda self: len(self.cols))


# ---------------------------------------------------------------------------
# files: a ghost file system path -> (format, frame, float_precision).  Trusted polars contract: read_parquet returns
# exactly the frame write_parquet stored; read_csv returns the frame write_csv stored with every value rounded to
# `float_precision` decimals (|read - written| <= 0.5 * 10**-p; exact when float_precision is None); reading a file
# with the reader of the other format fails.
FS = {}


class PathV:
    """pathlib.Path over a concrete string (only what acryo uses: suffix, str())"""
    _pyvc_native = True

    def __init__(self, p):
        self.p = p.p if isinstance(p, PathV) else str(p)

    @property
    def suffix(self):
        import os
        return os.path.splitext(self.p)[1]

    def __str__(self):
        return self.p

    __fspath__ = __str__

    def __eq__(self, other):
        return isinstance(other, PathV) and other.p == self.p

    def __hash__(self):
        return hash(self.p)


def _write(fmt):
    def write(self, file=None, *a, float_precision=None, **kw):
        FS[str(file)] = (fmt, self, float_precision if fmt == "csv" else None, dict(kw))
        return None
    return write


def csv_tolerance(p):
    from fractions import Fraction
    return Fraction(1, 2 * 10 ** int(p))


def _read(fmt):
    def read(source, *a, **kw):
        key = str(source)
        if key not in FS:
            _raise("FileNotFoundError", key)
        wfmt, frame, prec, _ = FS[key]
        if wfmt != fmt:
            _raise("PolarsError", f"{key} is not a {fmt} file")
        if fmt == "parquet" or prec is None:
            return frame._like(frame.n, lambda i: i)
        if is_sym(prec):
            raise Unsupported("symbolic float_precision")
        tol = csv_tolerance(prec)
        out = frame._like(frame.n, lambda i: i)
        p = V.PATH[0]
        for c, arr in list(out.cols.items()):
            if arr.dtype != "real":
                continue
            f = z3.Function(V.fresh_name(f"csv_{c}"), z3.IntSort(), z3.RealSort())
            src = arr.snapshot()
            i = z3.Int(V.fresh_name("ri"))
            if p is not None:
                d = f(i) - V.lift(V.to_real(src((Sym(i),))))
                p.conds.append(z3.ForAll([i], z3.Implies(z3.And(i >= 0, i < V.lift(frame.n)),
                                                         z3.And(d <= V.lift(tol), -d <= V.lift(tol)))))
            out.cols[c] = SArr((frame.n,), lambda idx, f=f: Sym(f(V.lift(idx[0]))), "real")
        return out
    return read


FrameV.write_csv = _write("csv")
FrameV.write_parquet = _write("parquet")


def register(REG):
    REG["pathlib.Path"] = PathV
    REG["polars.read_csv"] = _read("csv")
    REG["polars.read_parquet"] = _read("parquet")
    REG["polars.DataFrame"] = FrameV
    REG["polars.Series"] = SeriesV
    REG["polars.concat"] = pl_concat
    REG["polars.col"] = lambda name="col", *a, **k: ColExpr(name) if isinstance(name, str) else ExprV("col")
    REG["polars.lit"] = lambda *a, **k: ExprV("lit")
    REG["polars.len"] = lambda *a, **k: ExprV("len")
    REG["polars.int_range"] = lambda *a, **k: RowIndexExpr()
    REG["polars.Expr"] = ExprV
