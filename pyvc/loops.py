"""Map-loop summarisation: loops (and comprehensions) over sequences of symbolic length.

A loop `for x in xs` whose body only (a) stores into row i of arrays that exist outside the loop (`a[i] = ...` with i the
loop index), (b) appends one element per iteration to lists that exist outside the loop, and (c) does not branch on
values that depend on the iteration, is executed ONCE at a generic index L (a fresh constant, 0 <= L < n).  Its effect
is then the map  a[j] := v(L := j) for all j in [0, n)  /  list := old ++ [v(0), ..., v(n-1)], which is exactly the
loop's semantics when iterations are independent (the implicit inductive invariant is "rows < i have their final
value").  Independence is checked dynamically: reading an array or list that the iteration writes, storing at another
index, writing object attributes, or a data-dependent branch make the loop "unsupported" (checker fault) instead of
being summarised.  Fresh symbols created inside the body are Skolem functions of L (values.LOOP_INDEX), facts assumed
inside the body are generalised to  forall L in [0, n).  Obligations raised inside the body are proved for the generic L.
"""
from __future__ import annotations

import z3

from . import values as V
from .values import Sym, Unsupported, is_sym
from . import arrays as A
from .arrays import SArr


class SList:
    """sequence of symbolic length n with element function fn(i)"""
    _pyvc_native = True

    def __init__(self, n, fn):
        self.n, self.fn = n, fn

    def __len__(self):
        return self.n

    def at(self, i):
        return self.fn(i)

    def __getitem__(self, i):
        if isinstance(i, slice):
            start, length, step = A.norm_slice(i, self.n)
            f = self.fn
            return SList(length, lambda j: f(V.arith("+", start, j if step == 1 else V.arith("*", j, step))))
        if V.is_num(i):
            return self.fn(A.norm_index(i, self.n))
        raise Unsupported("index of a symbolic-length list")

    def __iter__(self):
        if isinstance(self.n, int):
            return iter([self.fn(i) for i in range(self.n)])
        raise Unsupported("Python-level iteration over a symbolic-length sequence")

    @staticmethod
    def concat(a, b):
        """a ++ b for SList / concrete list operands"""
        na = len(a) if isinstance(a, list) else a.n
        fa = (lambda i: _seq_get(a, i)) if isinstance(a, list) else a.fn
        nb = len(b) if isinstance(b, list) else b.n
        fb = (lambda i: _seq_get(b, i)) if isinstance(b, list) else b.fn
        if isinstance(na, int) and na == 0:
            return SList(nb, fb)

        def fn(i):
            c = V.compare("<", i, na)
            if c is True:
                return fa(i)
            if c is False:
                return fb(V.arith("-", i, na))
            return ite_value(c, fa(i), fb(V.arith("-", i, na)))
        return SList(V.arith("+", na, nb), fn)


def _seq_get(seq, i):
    if isinstance(i, int):
        return seq[i]
    n = len(seq)
    if n == 0:
        raise Unsupported("element of an empty sequence")
    r = seq[n - 1]
    for j in range(n - 2, -1, -1):
        r = ite_value(V.compare("==", i, j), seq[j], r)
    return r


def ite_value(c, a, b):
    if c is True:
        return a
    if c is False:
        return b
    if a is b:
        return a
    if V.is_num(a) and V.is_num(b):
        return V.ite(c, a, b)
    if isinstance(a, (tuple, list)) and isinstance(b, (tuple, list)) and len(a) == len(b):
        return type(a)(ite_value(c, x, y) for x, y in zip(a, b))
    if isinstance(a, SArr) and isinstance(b, SArr):
        fa, fb = a.snapshot(), b.snapshot()
        return SArr(a.shape, lambda idx: V.ite(c, fa(idx), fb(idx)), a.dtype)
    raise Unsupported(f"symbolic choice between {type(a).__name__} and {type(b).__name__}")


def siter(v, interp=None):
    """(n, get) for values that iterate with a symbolic length, else None"""
    from .rotation import RotV
    if isinstance(v, SList):
        if isinstance(v.n, int):
            return None
        return v.n, v.fn
    if isinstance(v, SArr) and v.ndim >= 1 and is_sym(v.shape[0]):
        return v.shape[0], (lambda i: v.view_axis0(i) if v.ndim > 1 else v.at((i,)))
    if isinstance(v, RotV) and v.n is not None and is_sym(v.n):
        return v.n, (lambda i: v[i])
    if hasattr(v, "_siter"):
        return v._siter()
    from . import symex as X
    if isinstance(v, X.Obj) and isinstance(v.cls, X.RepoClass) and V.PATH[0] is not None:
        # a repo container: what its __iter__ returns (iter(...) of a symbolic-length sequence stays that sequence)
        it = getattr(V.PATH[0], "interp", None)
        m = v.cls.lookup(it, "__iter__") if it is not None else None
        if isinstance(m, X.RepoFunc):
            return siter(it.call_repo(m, [v], {}))
    return None


# ---------------------------------------------------------------------------
# substitution of the generic index inside values


def mentions(v, L, depth=0):
    """does the value contain the constant L?  (conservative: unknown containers -> True)"""
    from . import symex as X
    from .rotation import RotV
    if isinstance(v, Sym):
        return _term_mentions(v.t, L)
    if v is None or isinstance(v, (int, float, str, bool, bytes)) or V.is_num(v):
        return False
    if depth > 6:
        return True
    if isinstance(v, (tuple, list, set, frozenset)):
        return any(mentions(x, L, depth + 1) for x in v)
    if isinstance(v, dict):
        return any(mentions(x, L, depth + 1) for x in v.values())
    if isinstance(v, slice):
        return any(mentions(x, L, depth + 1) for x in (v.start, v.stop, v.step))
    if isinstance(v, SArr):
        if any(mentions(s, L) for s in v.shape):
            return True
        try:
            probe = tuple(Sym(z3.Int(f"probe!{k}")) for k in range(v.ndim))
            return mentions(v.at(probe), L, depth + 1)
        except Exception:
            return True
    if isinstance(v, X.Obj):
        return any(mentions(x, L, depth + 1) for x in v.attrs.values())
    if isinstance(v, RotV):
        try:
            return any(mentions(x, L, depth + 1) for row in v.row(Sym(z3.Int("probe!r"))) for x in row) or \
                mentions(v.n, L)
        except Exception:
            return True
    if isinstance(v, SList):
        try:
            return mentions(v.n, L) or mentions(v.fn(Sym(z3.Int("probe!l"))), L, depth + 1)
        except Exception:
            return True
    if hasattr(v, "_subst"):
        return v._mentions(L)
    return False


def _term_mentions(t, L):
    seen = set()
    stack = [t]
    while stack:
        x = stack.pop()
        i = x.get_id()
        if i in seen:
            continue
        seen.add(i)
        if x.eq(L):
            return True
        if z3.is_quantifier(x):
            stack.append(x.body())
        else:
            stack.extend(x.children())
    return False


def subst_value(v, L, j, depth=0):
    """v with the generic index constant L replaced by j (deep, structure-preserving)"""
    from . import symex as X
    from .rotation import RotV
    jt = V.lift(j)
    if isinstance(v, Sym):
        return V._wrap(z3.substitute(v.t, (L, jt)))
    if v is None or isinstance(v, (int, float, str, bool, bytes)) or V.is_num(v):
        return v
    if not mentions(v, L):
        return v
    if isinstance(v, tuple):
        return tuple(subst_value(x, L, j, depth + 1) for x in v)
    if isinstance(v, list):
        return [subst_value(x, L, j, depth + 1) for x in v]
    if isinstance(v, dict):
        return {k: subst_value(x, L, j, depth + 1) for k, x in v.items()}
    if isinstance(v, slice):
        return slice(*(subst_value(x, L, j, depth + 1) for x in (v.start, v.stop, v.step)))
    if isinstance(v, SArr):
        f = v.snapshot()
        shp = tuple(subst_value(s, L, j) for s in v.shape)
        return SArr(shp, lambda idx: subst_value(f(idx), L, j, depth + 1), v.dtype)
    if isinstance(v, X.Obj):
        o = X.Obj(v.cls, {k: subst_value(x, L, j, depth + 1) for k, x in v.attrs.items()})
        return o
    if isinstance(v, RotV):
        mf = v.matf
        qf = v.quatf
        return RotV(_n=(V_UNSET() if v.n is None else subst_value(v.n, L, j)),
                    _matf=lambda i: subst_value(mf(i), L, j, depth + 1),
                    _quatf=(lambda i: subst_value(qf(i), L, j, depth + 1)) if qf else None, _unit=v.unit)
    if isinstance(v, SList):
        f = v.fn
        return SList(subst_value(v.n, L, j), lambda i: subst_value(f(i), L, j, depth + 1))
    if hasattr(v, "_subst"):
        return v._subst(L, j)
    raise Unsupported(f"cannot generalise a {type(v).__name__} over the loop index")


def V_UNSET():
    from .rotation import _UNSET
    return _UNSET


# ---------------------------------------------------------------------------


class LoopFrame:
    def __init__(self, L, n):
        self.L, self.n = L, n
        self.stores = []        # (array, value)           a[L] = value
        self.appends = {}       # id(list) -> (list, [values])
        self.written = set()    # ids of arrays / lists written by the iteration
        self.outer_lists = {}
        self.start_stamp = A._STAMP[0]


def summarize(interp, n, get, run_body, env, collect_value=False):
    """run `run_body(x, L)` once for the generic iteration and apply the summarised effects.
    With collect_value the body's return values form the resulting SList (comprehensions)."""
    path = interp.path
    if path is None:
        raise Unsupported("symbolic-length loop outside a path")
    Lc = z3.Int(V.fresh_name("loop"))
    L = Sym(Lc)
    frame = LoopFrame(Lc, n)
    frame.outer_lists = interp.outer_lists(env)
    n_before = len(path.conds)
    n_opt_before = len(path.opt)
    path.assume(V.sand(V.compare(">=", L, 0), V.compare("<", L, n)))
    interp.loop_stack.append(frame)
    V.LOOP_INDEX.append(Lc)
    n_taken = len(path.taken)
    try:
        x = get(L)
        val = run_body(x, L)
    finally:
        V.LOOP_INDEX.pop()
        interp.loop_stack.pop()
    # data-dependent branching inside the body?  (branches that raise never come back here)
    for c in path.conds[n_before + 1:]:
        pass
    added = path.conds[n_before:]
    del path.conds[n_before:]
    body_facts = [c for c in added[1:]]
    guard = added[0] if added else z3.BoolVal(True)
    gen = [c for c in body_facts if _term_mentions(c, Lc)]
    keep = [c for c in body_facts if not _term_mentions(c, Lc)]
    # facts that do not mention L were established under "there is an iteration": keep them only when n > 0
    for c in keep:
        path.conds.append(z3.Implies(V.lift(n) > 0, c))
    if gen:
        path.conds.append(z3.ForAll([Lc], z3.Implies(z3.And(Lc >= 0, Lc < V.lift(n)), z3.And(*gen))))
    # optional hypothesis groups added inside the body (type invariants of generic rows)
    new_opt = path.opt[n_opt_before:]
    del path.opt[n_opt_before:]
    for g, c in new_opt:
        if _term_mentions(c, Lc):
            path.opt.append((g, z3.ForAll([Lc], z3.Implies(z3.And(Lc >= 0, Lc < V.lift(n)), c))))
        else:
            path.opt.append((g, c))
    # apply effects -----------------------------------------------------------
    for (arr, value) in frame.stores:
        old = arr.snapshot()
        rest_shape = arr.shape[1:]

        def newfn(idx, value=value, old=old, rest_shape=rest_shape):
            row = subst_value(value, Lc, idx[0])
            if isinstance(row, SArr):
                rv = A.from_nested(row)
                # broadcast the row value to the row shape
                off = len(rest_shape) - rv.ndim
                sub = tuple(0 if (isinstance(s, int) and s == 1) else i for i, s in zip(idx[1 + off:], rv.shape))
                v = rv.at(sub)
            else:
                v = row
            c = V.sand(V.compare(">=", idx[0], 0), V.compare("<", idx[0], n))
            if c is True:
                return v
            return V.ite(c, v, old(idx)) if c is not False else old(idx)
        arr.assign_fn(newfn)
    for key, (lst, items) in frame.appends.items():
        # per-iteration block = concatenation of the appended items / blocks, of iteration-independent length m
        parts = []
        for kind, v in items:
            if kind == "one":
                parts.append((1, (lambda v: lambda q: v)(v)))
            else:
                bn = len(v) if isinstance(v, list) else v.n
                if mentions(bn, Lc):
                    raise Unsupported("block appended in a summarised loop has an iteration-dependent length")
                getter = (lambda v: (lambda q: _seq_get(v, q)))(v) if isinstance(v, list) else v.fn
                parts.append((bn, getter))
        m = 0
        for bn, _g in parts:
            m = V.arith("+", m, bn)

        def block_elem(q, parts=parts):
            """element q of the per-iteration block (still a function of L)"""
            off = 0
            res = None
            chain = []
            for bn, g in parts:
                chain.append((off, bn, g))
                off = V.arith("+", off, bn)
            # last part is the default; earlier parts selected by range tests
            r = None
            for off_, bn, g in reversed(chain):
                val = g(V.arith("-", q, off_))
                if r is None:
                    r = val
                else:
                    c = V.compare("<", q, V.arith("+", off_, bn))
                    r = ite_value(c, val, r)
            return r
        if isinstance(m, int) and m == 1:
            block = SList(n, lambda j, block_elem=block_elem: subst_value(block_elem(0), Lc, j))
        else:
            def elem(p_, block_elem=block_elem, m=m):
                it_ = V.arith("//", p_, m)
                q = V.arith("%", p_, m)
                return subst_value(block_elem(q), Lc, it_)
            block = SList(V.arith("*", n, m), elem)
        outer = interp.loop_stack[-1] if interp.loop_stack else None
        if outer is not None and id(lst) in outer.outer_lists:
            # the list pre-dates the enclosing summarised loop as well: a block append of that loop's iteration
            outer.appends.setdefault(id(lst), (lst, []))[1].append(("block", block))
            outer.written.add(id(lst))
        else:
            new = SList.concat(list(lst), block)
            interp.rebind(lst, new, env)
    if collect_value:
        return SList(n, lambda j: subst_value(val, Lc, j))
    return None
